#!/usr/bin/env python3
"""(Re)create the committed libFuzzer seed corpora under /verif/corpus from the repository's
example files (small files only, total well below 1 MB).  c20_codec seeds come from
`cargo run -p vh-gen --example mkseeds_c20 -- /verif/corpus/c20_codec` (harness workspace)."""
import os, struct, hashlib
ROOT = "/repo"
OUT = "/verif/corpus"
def files(ext):
    res = []
    for sub in ("examples", "tests", "benchmarks", "demos"):
        for d, dn, fn in os.walk(os.path.join(ROOT, sub)):
            dn[:] = sorted(x for x in dn if x not in ("target", "node_modules") and not x.startswith("."))
            for f in sorted(fn):
                if f.endswith(ext):
                    res.append(os.path.join(d, f))
    return sorted(res)
def put(target, name, data):
    os.makedirs(os.path.join(OUT, target), exist_ok=True)
    open(os.path.join(OUT, target, name), "wb").write(data)
def name_of(path, data):
    return os.path.basename(path).replace(".", "_") + "-" + hashlib.sha1(data).hexdigest()[:8]
n = 0
for p in files(".vpl"):
    data = open(p, "rb").read()
    if 0 < len(data) <= 3000 and n < 48:
        put("c41_parser", name_of(p, data), data)
        # c43: 2 positions (line 3 col 7, line 0 col 0) + document; first byte selects the count
        hdr = bytes([1]) + struct.pack("<HHHH", 3, 7, 0, 0)  # int_in_range(1..=2): byte 1 -> 2 positions
        put("c43_lsp", name_of(p, data), hdr + data)
        n += 1
# hand-made small seeds that reach blocks, declaration loops, non-ASCII text and error paths
extra = {
    "fn_block": "fn f(a: int) -> int:\n    if a > 1:\n        return a\n    return 0\n",
    "decl_loop": "for i in 0..3:\n    stream S{i} = E{i}\n        .where(x > {i})\n",
    "non_ascii": "stream é = 日本.where(name == \"😀\")  # é\n",
    "error_eof": "fn f():\n return (",
    "pattern": "pattern P = SEQ(A, B+ where x > 1 as b, NOT C) within 5m partition by k\n",
    "connector": "connector K = kafka (brokers: \"b:9092\", qos: 1)\nstream X = T.from(K, topic: \"t\")\n    .to(K, topic: \"o\")\n",
    "index": "let v = a[b[1:2]][c[:]]\n",
}
for k, v in extra.items():
    put("c41_parser", "hand_" + k, v.encode())
    put("c43_lsp", "hand_" + k, bytes([1]) + struct.pack("<HHHH", 0, 8, 1, 0xFFFF) + v.encode())
n = 0
for p in files(".evt"):
    data = open(p, "rb").read()
    if len(data) > 3000:
        cut = data[:3000].rfind(b"\n") + 1
        data = data[:cut]
    if data and n < 40:
        put("c46_evt", name_of(p, data), data)
        n += 1
evt_extra = {
    "forms": "# c\n// c\nBATCH 100\nTick { id: 1, s: \"a, b\", l: [1, [2, 3]] };\nTick(1, 2.5, 'x')\n@5s Order { id: 2 }\n@100ms {\"event_type\": \"J\", \"data\": {\"v\": [1, {\"k\": null}]}}\n{\"event_type\": \"J\"}\n",
    "bad_batch": "BATCH x\nTick { id: 1 }\n",
    "bad_timing": "@5 s Tick { id: 1 }\n@18446744073709552s T { }\n",
}
for k, v in evt_extra.items():
    put("c46_evt", "hand_" + k, v.encode())
tot = 0
for t in sorted(os.listdir(OUT)):
    fs = os.listdir(os.path.join(OUT, t))
    sz = sum(os.path.getsize(os.path.join(OUT, t, f)) for f in fs)
    tot += sz
    print(t, len(fs), "files", sz, "bytes")
print("total", tot)
