#!/bin/bash
# tools/verify_seed.sh <ID> <crate> <demo-test-name> [extra cargo test args]
# Confirms a seeded change in its worktree /tmp/seed-<ID>: demo passes without the patch, fails with it,
# the crate's own tests pass with it; then runs /verif's check for <ID> against it in a scratch copy.
# Writes /verif/seeded/<ID>/{patch.diff,demo,meta.json}.
ID="$1"; CRATE="$2"; DEMO="$3"; shift 3
CHK="${ID:0:3}"   # second seeds are named e.g. C02b: the check is C02
WT=/tmp/seed-$ID; export CARGO_TARGET_DIR=/var/tmp/seed-verify-$ID CARGO_NET_OFFLINE=true
# private target dir per seed (a shared one mixes artifacts of different worktrees); seeded from the shared cache for the registry deps
mkdir -p "$CARGO_TARGET_DIR"; export CARGO_INCREMENTAL=0
OUT=/verif/seeded/$ID; mkdir -p $OUT
cd $WT || exit 2
cp SEED/patch.diff $OUT/patch.diff
cp SEED/*.rs $OUT/ 2>/dev/null; cp SEED/notes.md $OUT/notes.md 2>/dev/null
log=$OUT/verify.log; : > $log
find crates -name '*.rs' | xargs touch
git checkout -q -- .
echo "== demo WITHOUT patch" >> $log
cargo test -p $CRATE --offline --test $DEMO "$@" >> $log 2>&1; r_without=$?
git apply SEED/patch.diff >> $log 2>&1 || { echo "patch does not apply" >> $log; }
echo "== demo WITH patch" >> $log
cargo test -p $CRATE --offline --test $DEMO "$@" >> $log 2>&1; r_with=$?
echo "== crate tests WITH patch" >> $log
cargo test -p $CRATE --offline --no-fail-fast --lib --tests "$@" 2>&1 | grep -E "^test result|FAILED|failed" >> $log; 
crate_fail=$(grep -c "^test result: FAILED" $log)
echo "r_without=$r_without r_with=$r_with crate_failed_binaries=$crate_fail" >> $log
# our check against the patch
/verif/tools/scratch.sh create seed$ID > /dev/null 2>&1
git -C /var/tmp/vs-seed$ID/repo apply $OUT/patch.diff >> $log 2>&1 || echo "patch does not apply on current HEAD" >> $log
echo "== /verif check $CHK quick against patched scratch" >> $log
/verif/tools/scratch.sh run seed$ID $CHK quick > $OUT/check_quick.out 2>&1; rc=$?
echo "check_rc=$rc" >> $log
grep -E "^VIOLATION|violation sub=|^INCONCLUSIVE" $OUT/check_quick.out | head -3 >> $log
/verif/tools/scratch.sh rm seed$ID
rm -rf "$CARGO_TARGET_DIR"
tail -4 $log
