#!/usr/bin/env python3
"""Sensitivity driver: applies each mutation to a scratch copy of /repo (tools/scratch.sh), runs the
named checks' quick tier there and reports whether a VIOLATION was raised.
usage: tools/mutants.py <scratch-name> [mutant-id ...]"""
import subprocess, sys, os, re, json
name = sys.argv[1]
only = sys.argv[2:]
root = f"/var/tmp/vs-{name}"
R = root + "/repo/crates/"
# id, file, old, new, checks
M = [
 ("sase-ref-pred-true", "varpulis-runtime/src/sase.rs",
  "                (Some(ev), Some(rv)) => compare_values(ev, rv, *op),\n                _ => false,",
  "                (Some(_ev), Some(_rv)) => true,\n                _ => false,", ["C01", "C02"]),
 ("sase-start-before-advance", "varpulis-runtime/src/sase.rs",
  "            // Non-partitioned processing\n            completed.extend(self.process_runs_shared(Arc::clone(&event)));\n\n            // Try to start new run with backpressure\n            if let Some(run) = self.try_start_run_shared(Arc::clone(&event)) {\n                let (added, _) = self.handle_backpressure(run);\n                if added {\n                    self.total_runs_created += 1;\n                }\n            }",
  "            // Non-partitioned processing\n            if let Some(run) = self.try_start_run_shared(Arc::clone(&event)) {\n                let (added, _) = self.handle_backpressure(run);\n                if added {\n                    self.total_runs_created += 1;\n                }\n            }\n            completed.extend(self.process_runs_shared(Arc::clone(&event)));", ["C02", "C01"]),
 ("sase-partition-ignored", "varpulis-runtime/src/sase.rs",
  "                .map(|v| v.to_partition_key().into_owned())\n                .unwrap_or_default();\n\n            // Process partitioned runs",
  "                .map(|v| v.to_partition_key().into_owned())\n                .map(|s| if s == \"2\" { \"1\".to_string() } else { s })\n                .unwrap_or_default();\n\n            // Process partitioned runs", ["C01", "C02"]),
 ("kleene-cap-off-by-one", "varpulis-runtime/src/sase.rs",
  "            if kc.next_var >= limits.max_events {\n                return RunAdvanceResult::Continue;\n            }\n        }\n\n        // PERF(Opt4)",
  "            if kc.next_var > limits.max_events {\n                return RunAdvanceResult::Continue;\n            }\n        }\n\n        // PERF(Opt4)", ["C03", "C05"]),
 ("enumerate-break-early", "varpulis-runtime/src/sase.rs",
  "            if results.len() >= max_results {\n                break;\n            }\n        }\n    }\n\n    results\n}",
  "            if results.len() + 1 >= max_results {\n                break;\n            }\n        }\n    }\n\n    results\n}", ["C03"]),
 ("backpressure-le", "varpulis-runtime/src/sase.rs",
  "        if self.runs.len() < self.max_runs {\n            self.runs.push(run);\n            return (true, None);\n        }",
  "        if self.runs.len() <= self.max_runs {\n            self.runs.push(run);\n            return (true, None);\n        }", ["C05"]),
 ("batch-drops-last-derived", "varpulis-runtime/src/engine/mod.rs",
  "                    // Queue output events (push_back to maintain order).  When the rename",
  "                    if result.output_events.len() > 1 { continue; }\n                    // Queue output events (push_back to maintain order).  When the rename", ["C16", "C17"]),
 ("sync-requeue-unrenamed", "varpulis-runtime/src/engine/mod.rs",
  "                    if !skip_rename {\n                        for output_event in result.output_events {",
  "                    if true {\n                        for output_event in result.output_events {", ["C17", "C16"]),
 ("batch-chain-depth-2", "varpulis-runtime/src/engine/mod.rs",
  "        // Process all events in FIFO order (critical for sequence patterns!)\n        while let Some((current_event, depth)) = pending_events.pop_front() {\n            if depth >= MAX_CHAIN_DEPTH {\n                debug!(\n                    \"Max chain depth reached for event type: {}\",\n                    current_event.event_type\n                );\n                continue;\n            }\n\n            // Get stream names (Arc clone is O(1))\n            let stream_names: Arc<[String]> = self\n                .router\n                .get_routes(&current_event.event_type)\n                .cloned()\n                .unwrap_or_else(|| Arc::from([]));\n\n            for stream_name in stream_names.iter() {\n                if let Some(stream) = self.streams.get_mut(stream_name) {\n                    let start = std::time::Instant::now();",
  "        // Process all events in FIFO order (critical for sequence patterns!)\n        while let Some((current_event, depth)) = pending_events.pop_front() {\n            if depth >= 2 {\n                debug!(\n                    \"Max chain depth reached for event type: {}\",\n                    current_event.event_type\n                );\n                continue;\n            }\n\n            // Get stream names (Arc clone is O(1))\n            let stream_names: Arc<[String]> = self\n                .router\n                .get_routes(&current_event.event_type)\n                .cloned()\n                .unwrap_or_else(|| Arc::from([]));\n\n            for stream_name in stream_names.iter() {\n                if let Some(stream) = self.streams.get_mut(stream_name) {\n                    let start = std::time::Instant::now();", ["C16", "C17"]),
 ("tumbling-restore-no-start", "varpulis-runtime/src/window.rs",
  "        self.window_start = cp.window_start_ms.and_then(DateTime::from_timestamp_millis);",
  "        self.window_start = None; let _ = cp.window_start_ms;", ["C19"]),
 ("sliding-restore-no-last-emit", "varpulis-runtime/src/window.rs",
  "        self.last_emit = cp.last_emit_ms.and_then(DateTime::from_timestamp_millis);",
  "        self.last_emit = None; let _ = cp.last_emit_ms;", ["C19"]),
 ("tumbling-cp-no-start", "varpulis-runtime/src/window.rs", None, None, ["C19"]),
 ("limit-not-restored", "varpulis-runtime/src/engine/mod.rs",
  "limit_states.insert(\n                            name.clone(),\n                            crate::persistence::LimitCheckpoint {\n                                max: state.max,\n                                count: state.count,",
  "limit_states.insert(\n                            name.clone(),\n                            crate::persistence::LimitCheckpoint {\n                                max: state.max,\n                                count: 0,", ["C19"]),
 ("reload-preserve-changed-window", "varpulis-runtime/src/engine/mod.rs",
  "                || old_stream.definition != new_stream.definition;",
  "                || (old_stream.definition != new_stream.definition && !old_stream.definition.contains(\"Window\"));", ["C23"]),
 ("reload-resets-unchanged", "varpulis-runtime/src/engine/mod.rs",
  "            if source_changed || ops_changed {",
  "            if source_changed || ops_changed || name.ends_with('2') {", ["C23"]),
]
def sh(cmd, **kw):
    return subprocess.run(cmd, shell=True, text=True, capture_output=True, **kw)
results = []
for mid, f, old, new, checks in M:
    if only and mid not in only: continue
    if old is None: continue
    path = R + f
    src = open(path).read()
    if src.count(old) != 1:
        results.append((mid, "PATTERN-NOT-FOUND(%d)" % src.count(old))); print(results[-1], flush=True); continue
    open(path, "w").write(src.replace(old, new))
    for c in checks:
        r = sh(f"/verif/tools/scratch.sh run {name} {c} quick")
        out = r.stdout + r.stderr
        viol = [l for l in out.splitlines() if l.startswith("VIOLATION") or "violation sub=" in l]
        status = "CAUGHT" if r.returncode == 1 and viol else f"MISSED(exit {r.returncode})"
        results.append((mid, c, status, (viol[0][:160] if viol else out.strip().splitlines()[-1][:160] if out.strip() else "")))
        print(results[-1], flush=True)
    open(path, "w").write(src)
print(json.dumps(results, indent=1))
