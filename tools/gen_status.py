#!/usr/bin/env python3
"""Prints a markdown status table (per property: level, technique, last quick evidence numbers, known/fixed counts)."""
import json, glob, os, re
H='/verif'
m=json.load(open(f'{H}/MANIFEST.json'))
known={}; fixed={}
for f in [f'{H}/known_findings.txt']+sorted(glob.glob(f'{H}/known.d/*.txt')):
    for l in open(f):
        mm=re.match(r'(known|fixed): property=(C\d+)',l.strip())
        if mm: (known if mm.group(1)=='known' else fixed).setdefault(mm.group(2),[]).append(l.strip())
print('| id | level | technique | quick evaluations | distinct non-trivial | known | fixed |')
print('|---|---|---|---|---|---|---|')
for c in m['checks']:
    i=c['property_id']; ev={}
    p=f'{H}/evidence/{i}.json'
    if os.path.exists(p):
        try: ev=json.load(open(p))
        except Exception: pass
    cov=ev.get('coverage',{})
    print(f"| {i} | {c['level_claimed']['category']} | {c.get('technique','')} | {cov.get('evaluations','-')} | {cov.get('distinct_nontrivial','-')} | {len(known.get(i,[]))} | {len(fixed.get(i,[]))} |")
for n in m.get('not_applicable',[]): print(f"| {n['property_id']} | not claimed | {n['reason']} | | | | |")
