#!/bin/bash
# libFuzzer campaigns (thorough-tier extension) for the properties that have a target in
# /verif/harness/fuzz.  The semantic oracle is inside each target (harness/fuzz/src/lib.rs):
# an oracle failure panics with `ORACLE <sig>: ...`, a panic of the code under test aborts
# with its own message.  Only those two count as a violation; libFuzzer timeouts / OOMs /
# leaks are never a violation (counted, artifacts kept under target-fuzz, exit 2 only when
# the whole campaign could not finish).
#
#   tools/fuzz.sh <ID> <runs|default> [seed]     campaign; merges counts into evidence/<ID>.json
#   tools/fuzz.sh <ID> replay <file>             re-execute one saved input
#   tools/fuzz.sh <ID> supports                  exit 0 if the property has a target
# exit 0 = campaign finished clean, 1 = VIOLATION printed, 2 = inconclusive.
set -u
ID="${1:?usage: fuzz.sh <ID> <runs|default|replay|supports> [seed|file]}"
ARG="${2:-default}"
here="$(cd "$(dirname "$0")/.." && pwd)"
case "$ID" in
  C41) target=c41_parser; max_len=4096; def_runs=2000000 ;;    # ~2.5k exec/s here (one parser thread per run)
  C46) target=c46_evt;    max_len=2048; def_runs=100000000 ;;  # ~250k exec/s
  C43) target=c43_lsp;    max_len=2048; def_runs=400000 ;;     # ~0.5k exec/s (4-6 parses per run)
  C20) target=c20_codec;  max_len=8192; def_runs=150000000 ;;  # ~700k exec/s
  *) [ "$ARG" = supports ] && exit 1; echo "INCONCLUSIVE property=$ID no fuzz target"; exit 2 ;;
esac
[ "$ARG" = supports ] && exit 0

export CARGO_NET_OFFLINE=true
export CARGO_TARGET_DIR="$here/target-fuzz/build"
export RUST_LOG="${RUST_LOG:-off}"
export RUST_BACKTRACE=0
workers="${VERIF_FUZZ_WORKERS:-16}"
unit_timeout="${VERIF_FUZZ_UNIT_TIMEOUT:-20}"
cap="${VERIF_FUZZ_TIME_CAP_S:-1500}"          # wall-clock cap of one campaign (inconclusive when hit)
run="$here/target-fuzz/run/$ID"
bin="$CARGO_TARGET_DIR/x86_64-unknown-linux-gnu/release/$target"
seed_corpus="$here/corpus/$target"
mkdir -p "$run"

build() {
  local log="$run/build.log"
  if ! (cd "$here/harness" && cargo +nightly fuzz build -s none -a "$target") >"$log" 2>&1; then
    tail -30 "$log"
    echo "INCONCLUSIVE property=$ID fuzz target build failed"
    exit 2
  fi
}

# classify one input by re-running it: prints "<kind> <sig>" where kind = violation|clean|other
classify() {
  local f="$1" out rc
  out="$(timeout 120 "$bin" -timeout="$unit_timeout" "$f" 2>&1)"; rc=$?
  if [ $rc -eq 0 ]; then echo "clean -"; return; fi
  if echo "$out" | grep -aq "ORACLE "; then
    echo "violation $(echo "$out" | grep -ao 'ORACLE [^ ]*' | head -1 | cut -d' ' -f2 | sed 's/:$//')"
  elif echo "$out" | grep -aq "panicked at"; then
    local loc; loc="$(echo "$out" | grep -ao 'panicked at [^ ]*' | head -1 | sed 's/panicked at //; s#.*/##; s/:[0-9]*:[0-9]*:*$//')"
    echo "violation panic@$loc"
  elif echo "$out" | grep -aq "deadly signal\|SEGV\|stack-overflow\|stack overflow"; then
    echo "violation crash-signal"
  else
    echo "other rc=$rc"
  fi
}

if [ "$ARG" = replay ]; then
  f="${3:?replay <file>}"
  build
  res="$(classify "$f")"
  case "$res" in
    violation*) timeout 120 "$bin" "$f" 2>&1 | grep -a "ORACLE\|panicked at" | head -3 | cut -c1-1500
                echo "replay $f: FAIL sig=${res#violation }"; echo "VIOLATION property=$ID replay=$f"; exit 1 ;;
    clean*) echo "replay $f: no violation"; exit 0 ;;
    *) echo "INCONCLUSIVE property=$ID replay $f: $res (timeout/oom/other exit)"; exit 2 ;;
  esac
fi

runs="$ARG"; [ "$runs" = default ] && runs="$def_runs"
seed="${3:-${VERIF_SEED:-20260921}}"
seed=$(( (seed % 2147483646) + 1 ))
build
rm -rf "$run/corpus" "$run/artifacts"; mkdir -p "$run/corpus" "$run/artifacts"
log="$run/campaign.log"
t0=$(date +%s)
(cd "$here/harness" && timeout "$cap" cargo +nightly fuzz run -s none -a "$target" "$run/corpus" "$seed_corpus" -- \
   -runs="$runs" -seed="$seed" -len_control=0 -max_len="$max_len" -timeout="$unit_timeout" -rss_limit_mb=4096 \
   -fork="$workers" -ignore_timeouts=1 -ignore_ooms=1 -ignore_crashes=0 -artifact_prefix="$run/artifacts/" -print_final_stats=1) >"$log" 2>&1
rc=$?
t1=$(date +%s)
wall=$(( t1 - t0 )); [ $wall -lt 1 ] && wall=1
status="$(grep -a '^#[0-9]*: cov:' "$log" | tail -1)"
done_runs="$(echo "$status" | sed -n 's/^#\([0-9]*\):.*/\1/p')"; done_runs="${done_runs:-0}"
cov="$(echo "$status" | sed -n 's/.* cov: \([0-9]*\).*/\1/p')"
ooms="$(echo "$status" | sed -n 's#.*oom/timeout/crash: \([0-9]*\)/\([0-9]*\)/\([0-9]*\).*#\1#p')"; ooms="${ooms:-0}"
touts="$(echo "$status" | sed -n 's#.*oom/timeout/crash: \([0-9]*\)/\([0-9]*\)/\([0-9]*\).*#\2#p')"; touts="${touts:-0}"
new_units="$(ls "$run/corpus" | wc -l)"
seed_units="$(ls "$seed_corpus" | wc -l)"
echo "[$ID fuzz] target=$target runs=$done_runs/$runs seed=$seed workers=$workers wall=${wall}s exec/s=$(( done_runs / wall )) cov=${cov:-?} seed_units=$seed_units new_units=$new_units ooms=$ooms timeouts=$touts"

# merge into the evidence file of the property (keys under coverage, schema untouched)
python3 - "$here/evidence/$ID.json" "$target" "$done_runs" "$seed_units" "$new_units" "$wall" "${cov:-0}" "$ooms" "$touts" "$seed" <<'PY' || true
import json, sys
path, target, runs, seeds, new, wall, cov, ooms, touts, seed = sys.argv[1:]
try:
    ev = json.load(open(path))
except Exception:
    sys.exit(0)
c = ev.setdefault("coverage", {})
c["fuzz_target"] = target
c["fuzz_runs"] = int(runs)
c["fuzz_corpus_size"] = int(seeds) + int(new)
c["fuzz_new_units"] = int(new)
c["fuzz_seed"] = int(seed)
c["fuzz_wall_s"] = int(wall)
c["fuzz_edge_coverage"] = int(cov)
c["fuzz_ooms_not_judged"] = int(ooms)
c["fuzz_timeouts_not_judged"] = int(touts)
json.dump(ev, open(path, "w"), indent=2)
PY

verdict=0
shopt -s nullglob
for f in "$run"/artifacts/crash-* ; do
  res="$(classify "$f")"
  case "$res" in
    violation*)
      sig="${res#violation }"
      # minimise (bounded), keep the result only if it still fails with the same signature
      min="$run/artifacts/min-$(basename "$f")"
      timeout 180 "$bin" -minimize_crash=1 -runs=20000 -timeout="$unit_timeout" -exact_artifact_path="$min" "$f" >/dev/null 2>&1
      use="$f"
      if [ -s "$min" ] && [ "$(classify "$min")" = "$res" ]; then use="$min"; fi
      mkdir -p "$here/found/$ID"
      h="$(sha1sum "$use" | cut -c1-16)"
      dst="$here/found/$ID/fuzz-$h.bin"
      cp "$use" "$dst"
      timeout 120 "$bin" "$dst" 2>&1 | grep -a "ORACLE\|panicked at" | head -2 | cut -c1-1500 | sed 's/^/  violation (fuzz) /'
      echo "  violation sub=fuzz:$target sig=$sig"
      echo "VIOLATION property=$ID replay=$dst"
      verdict=1 ;;
    clean*) echo "INCONCLUSIVE property=$ID fuzz artifact $(basename "$f") does not reproduce"; [ $verdict -eq 0 ] && verdict=2 ;;
    *) echo "INCONCLUSIVE property=$ID fuzz artifact $(basename "$f"): $res"; [ $verdict -eq 0 ] && verdict=2 ;;
  esac
done
for f in "$run"/artifacts/timeout-* "$run"/artifacts/slow-unit-* "$run"/artifacts/oom-* ; do
  echo "NOTE property=$ID fuzz $(basename "$f" | cut -d- -f1) unit kept at $f (not judged)"
done
if [ $verdict -eq 0 ]; then
  if [ $rc -eq 124 ]; then echo "INCONCLUSIVE property=$ID fuzz campaign hit the ${cap}s wall-clock cap after $done_runs runs"; verdict=2
  elif [ $rc -ne 0 ]; then echo "INCONCLUSIVE property=$ID fuzz campaign exited with code $rc without a crash artifact (see $log)"; verdict=2
  elif [ "$done_runs" -lt $(( runs / 2 )) ]; then echo "INCONCLUSIVE property=$ID fuzz campaign executed only $done_runs of $runs runs"; verdict=2
  fi
fi
exit $verdict
