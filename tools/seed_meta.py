#!/usr/bin/env python3
"""tools/seed_meta.py <ID> "<needs>" [--caught-after "<what was strengthened>"]  -> writes /verif/seeded/<ID>/meta.json from verify.log"""
import json, re, sys, os
pid=sys.argv[1]; needs=sys.argv[2]
after=None
if '--caught-after' in sys.argv: after=sys.argv[sys.argv.index('--caught-after')+1]
d=f'/verif/seeded/{pid}'
log=open(f'{d}/verify.log').read() if os.path.exists(f'{d}/verify.log') else ''
m=re.search(r'r_without=(\d+) r_with=(\d+) crate_failed_binaries=(\d+)',log)
rc=re.search(r'check_rc=(\d+)',log)
viol=[l for l in log.splitlines() if l.startswith('VIOLATION') or 'violation sub=' in l]
demo=[f for f in os.listdir(d) if f.endswith('.rs')]
# crate test binaries failing other than the demo itself
failed=[l for l in log.splitlines() if re.match(r'test .* \.\.\. FAILED',l)]
meta={
 "property": pid[:3],
 "patch": "patch.diff",
 "demonstration": demo,
 "needs_to_manifest": needs,
 "confirmed_by_lead": {
   "demo_without_patch": ("pass" if m and m.group(1)=='0' else "FAIL/unknown"),
   "demo_with_patch": ("fail" if m and m.group(2)!='0' else "PASS/unknown"),
   "failed_tests_with_patch (demo tests expected; others are wall-clock flakes under load, see notes)": failed,
   "commands": ["tools/verify_seed.sh (private CARGO_TARGET_DIR): cargo test -p <crate> --offline --test <demo> without and with patch; cargo test -p <crate> --offline --lib --tests with patch; tools/scratch.sh + ./run.sh "+pid[:3]+" quick against the patched copy"],
 },
 "check_result": {"cmd": f"./run.sh {pid[:3]} quick (scratch copy with patch applied)", "exit": int(rc.group(1)) if rc else None, "caught": bool(rc and rc.group(1)=='1' and viol), "first_violation": (viol[0][:300] if viol else None)},
}
if after: meta["caught_only_after_strengthening"]=after
json.dump(meta,open(f'{d}/meta.json','w'),indent=1)
print(json.dumps(meta["check_result"]))
