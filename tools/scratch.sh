#!/bin/bash
# Isolated scratch copy for sensitivity tests / seeded patches, never touching /repo or /verif.
#   tools/scratch.sh create <name>     -> /var/tmp/vs-<name>/{repo (git worktree of /repo HEAD + uncommitted diff), verif (copy of /verif harness), target}
#   tools/scratch.sh run <name> <ID> [quick|thorough]
#   tools/scratch.sh rm <name>
# Mutate files under /var/tmp/vs-<name>/repo, then `run`.  Always `rm` afterwards (disk!).
set -eu
cmd="$1"; name="$2"; root="/var/tmp/vs-$name"
case "$cmd" in
  create)
    rm -rf "$root"; mkdir -p "$root"
    git -C /repo worktree prune
    git -C /repo worktree add -q --detach "$root/repo" HEAD
    # carry uncommitted tracked changes of /repo too (current working tree is what checks see)
    (cd /repo && git diff HEAD) > "$root/wip.diff" || true
    if [ -s "$root/wip.diff" ]; then git -C "$root/repo" apply "$root/wip.diff" || echo "warning: wip diff did not apply"; fi
    mkdir -p "$root/verif"
    rsync -a --exclude target --exclude found --exclude .git /verif/ "$root/verif/"
    find "$root/verif/harness" -name Cargo.toml -o -name config.toml | xargs sed -i "s#/repo/crates#$root/repo/crates#g; s#/verif/target#$root/target#g"
    if [ "${SCRATCH_SEED_TARGET:-1}" = 1 ] && [ -d /verif/target ]; then cp -a /verif/target "$root/target"; fi
    echo "$root"
    ;;
  run)
    id="$3"; tier="${4:-quick}"
    CARGO_TARGET_DIR="$root/target" "$root/verif/run.sh" "$id" "$tier"
    ;;
  rm)
    git -C /repo worktree remove --force "$root/repo" 2>/dev/null || true
    rm -rf "$root"
    git -C /repo worktree prune
    ;;
esac
