#!/usr/bin/env python3
"""markdown table of seeded changes (from /verif/seeded/*/meta.json)"""
import json, glob, os
print('| seed | what the change needs to manifest | caught by | note |')
print('|---|---|---|---|')
for f in sorted(glob.glob('/verif/seeded/*/meta.json')):
    m=json.load(open(f)); pid=m['property']; sid=os.path.basename(os.path.dirname(f))
    cr=m['check_result']
    sig=(cr.get('first_violation') or '').split('sig=')[-1].split(' ')[0] if cr.get('first_violation') else ''
    note=m.get('caught_only_after_strengthening','')
    print(f"| {sid} | {m['needs_to_manifest']} | {'`./run.sh '+pid+' quick` ('+sig+')' if cr['caught'] else 'MISSED'} | {note} |")
