#!/usr/bin/env python3
"""usage: tools_commit_hunks.py <file> <substring> -> stages (git apply --cached) only the hunks of <file>'s diff whose text contains <substring>"""
import subprocess, sys, re
f, needle = sys.argv[1], sys.argv[2]
d = subprocess.run(["git", "-C", "/repo", "diff", "--", f], capture_output=True, text=True).stdout
parts = re.split(r'(?m)^(?=@@ )', d)
head, hunks = parts[0], parts[1:]
sel = [h for h in hunks if needle in h]
assert sel, "no hunk matches"
patch = head + "".join(sel)
r = subprocess.run(["git", "-C", "/repo", "apply", "--cached", "--recount", "-"], input=patch, text=True)
sys.exit(r.returncode)
