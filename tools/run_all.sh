#!/bin/bash
# run every registered quick check once; summary line per check
cd /verif
tier="${1:-quick}"
for id in $(python3 -c "import json;print(' '.join(c['property_id'] for c in json.load(open('MANIFEST.json'))['checks']))"); do
  s=$(date +%s)
  out=$(./run.sh $id $tier 2>&1); rc=$?
  e=$(date +%s)
  echo "$id rc=$rc t=$((e-s))s $(echo "$out" | grep -E '^\[C' | head -1 | cut -c1-110) known=$(echo "$out" | grep -c '^KNOWN-FINDING') $(echo "$out" | grep -E '^VIOLATION|^INCONCLUSIVE' | head -2 | tr '\n' ' ')"
done
