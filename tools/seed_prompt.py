#!/usr/bin/env python3
"""prints the prompt for a seeded-break sub-agent for property <ID> (only the property text, nothing from /verif)"""
import json, sys
pid = sys.argv[1]
p = [json.loads(l) for l in open('/verif/properties.jsonl') if json.loads(l)['id'] == pid][0]
wt = f"/tmp/seed-{pid}"
print(f"""You are a Rust engineer doing mutation-style robustness research on the open-source project varpulis (a complex-event-processing engine). You work ONLY inside your own scratch git worktree of the repository at {wt} (create it first: `git -C /repo worktree add --detach {wt} HEAD`). Do not read or write anything under /verif, and do not modify /repo itself (no commits, no edits there).

The project is meant to satisfy this behavioural property:

  Title: {p['title']}
  Statement: {p['statement']}
  Quantified over: {p['quantifier']['text']}
  Code it is anchored in: {', '.join(p['anchors']['files'])}

Your task: produce ONE small, realistic change to the source code in your worktree (the kind of slip a competent maintainer could make in a refactor or optimisation: an off-by-one, a wrong comparison, a swapped argument, a dropped state component, a forgotten branch, a cache keyed wrongly, two sites that each look fine alone ...) that BREAKS the property above while the code still compiles and the existing test suite of the affected crate(s) still passes. Prefer a change that needs something specific to manifest — a particular multi-step sequence of operations, an unusual but valid input, a crash/fault at a particular point, a specific interleaving, or two cooperating sites — not one that any ordinary use exposes at once, and not a change in code that nothing reaches.

Deliver, inside {wt}/SEED/ (create it):
  1. patch.diff  — `git -C {wt} diff` of your change (source only, apply-able with `git apply` on a clean checkout of the same commit);
  2. a demonstration: a self-contained Rust test file (or small program) plus the exact command to run it, which FAILS with your change applied and PASSES on the unmodified code. Put it where cargo can run it (e.g. as an extra file under the crate's `tests/` directory — the demo file itself is not part of patch.diff; copy it into SEED/ too);
  3. notes.md — which property it breaks and why, what exactly is needed for it to manifest, and the commands you ran with their outcome: (a) crate tests pass with the change: `cargo test -p <crate> --offline` (run at least the crates you touched; the full workspace suite is `cargo test --workspace --offline` if you have time), (b) demo fails with the change, (c) demo passes without it (`git stash` / re-apply inside your worktree).

Practical: there is no network; use `--offline`. Use `export CARGO_TARGET_DIR=/var/tmp/seed-target` for all cargo commands (shared build cache; "Blocking waiting for file lock" is normal — the machine is busy, be patient). The cluster crate's Raft code needs `--features raft,persistent` (slow RocksDB build) — avoid unless your property is about it. Do not leave background processes running. When done, reply with a short summary (what you changed, how it manifests, test results). Do not remove the worktree; the lead will collect SEED/ and remove it.""")
