reg("C44", "exploration",
    "generated JSON text through POST /events and /events-batch, echoed by emit + type_of, decoded by an own JSON reader",
    "For JSON payloads of depth <=4 (i64 boundaries, 2^53+-1, random i64, floats incl. subnormal/max/-0.0 in six literal styles, strings with NUL/control/astral characters in four escape styles, odd object keys, nested arrays/objects, null) the value echoed by an expression emit and by a plain field emit equalled the injected value exactly (number value and int/float kind) and type_of named the matching runtime type, on both endpoints. Known finding: integers above i64::MAX silently become floats.",
    "Rust's float/int parsing and formatting (model side); one fixed echo pipeline (emit / type_of); in-process warp filters, no real socket")
