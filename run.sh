#!/bin/bash
# ./run.sh <ID> quick|thorough          run the check of property <ID>
# ./run.sh <ID> replay <file>           re-execute one saved case (no proptest involved)
# Rebuilds the harness binary against /repo's current working tree (hooks on:
# RUSTFLAGS --cfg varpulis_verif via harness/.cargo/config.toml).
# thorough additionally runs tools/fuzz.sh <ID> (libFuzzer campaign) for properties that have a fuzz target.
# exit 0 = held, 1 = VIOLATION printed, 2 = inconclusive (build failure, watchdog, ...)
set -u
ID="${1:?usage: run.sh <ID> quick|thorough|replay <file>}"
MODE="${2:-quick}"
shift; shift || true
here="$(cd "$(dirname "$0")" && pwd)"
# make a replay path absolute before changing directory
if [ "$MODE" = replay ] && [ -n "${1:-}" ]; then
  case "$1" in /*) : ;; *) set -- "$(pwd)/$1" "${@:2}" ;; esac
fi
export VERIF_DIR="$here"
# saved libFuzzer inputs (found/<ID>/fuzz-*.bin) are replayed by the fuzz target, not the harness binary
if [ "$MODE" = replay ] && [ "${1##*.}" = bin ]; then
  exec "$here/tools/fuzz.sh" "$ID" replay "$1"
fi
export CARGO_NET_OFFLINE=true
crate="$(echo "$ID" | tr 'A-Z' 'a-z')"
cd "$here/harness" || exit 2
if [ ! -d "props/$crate" ]; then echo "INCONCLUSIVE property=$ID no harness"; exit 2; fi
log="$(mktemp)"
if ! cargo build -q -p "$crate" >"$log" 2>&1; then
  cat "$log" | tail -40; rm -f "$log"
  echo "INCONCLUSIVE property=$ID harness build failed"
  exit 2
fi
rm -f "$log"
export RUST_LOG="${RUST_LOG:-off}"
tdir="${CARGO_TARGET_DIR:-$here/target}"
if [ "$MODE" != thorough ]; then
  exec "$tdir/debug/$crate" "$MODE" "$@"
fi
# thorough tier: the harness binary first; when it held and the property has a libFuzzer
# target (tools/fuzz.sh), a coverage-guided campaign with a fixed runs budget follows and
# its counts are merged into evidence/<ID>.json (VERIF_NO_FUZZ=1 skips it)
"$tdir/debug/$crate" "$MODE" "$@"
rc=$?
if [ $rc -eq 0 ] && [ -z "${VERIF_NO_FUZZ:-}" ] && "$here/tools/fuzz.sh" "$ID" supports >/dev/null 2>&1; then
  "$here/tools/fuzz.sh" "$ID" "${VERIF_FUZZ_RUNS:-default}" "${VERIF_SEED:-20260921}"
  rc=$?
fi
exit $rc
