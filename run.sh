#!/bin/bash
# ./run.sh <ID> quick|thorough          run the check of property <ID>
# ./run.sh <ID> replay <file>           re-execute one saved case (no proptest involved)
# Rebuilds the harness binary against /repo's current working tree (hooks on:
# RUSTFLAGS --cfg varpulis_verif via harness/.cargo/config.toml).
# exit 0 = held, 1 = VIOLATION printed, 2 = inconclusive (build failure, watchdog, ...)
set -u
ID="${1:?usage: run.sh <ID> quick|thorough|replay <file>}"
MODE="${2:-quick}"
shift; shift || true
here="$(cd "$(dirname "$0")" && pwd)"
# make a replay path absolute before changing directory
if [ "$MODE" = replay ] && [ -n "${1:-}" ]; then
  case "$1" in /*) : ;; *) set -- "$(pwd)/$1" "${@:2}" ;; esac
fi
export VERIF_DIR="$here"
export CARGO_NET_OFFLINE=true
crate="$(echo "$ID" | tr 'A-Z' 'a-z')"
cd "$here/harness" || exit 2
if [ ! -d "props/$crate" ]; then echo "INCONCLUSIVE property=$ID no harness"; exit 2; fi
log="$(mktemp)"
if ! cargo build -q -p "$crate" >"$log" 2>&1; then
  cat "$log" | tail -40; rm -f "$log"
  echo "INCONCLUSIVE property=$ID harness build failed"
  exit 2
fi
rm -f "$log"
export RUST_LOG="${RUST_LOG:-off}"
tdir="${CARGO_TARGET_DIR:-$here/target}"
exec "$tdir/debug/$crate" "$MODE" "$@"
