# one reg(...) per implemented property: id, level category, technique, what assurance, trusted base
reg("C40", "exploration", "proptest generated value triples, equivalence + hash-consistency oracle",
    "Random search over nested runtime values (all variants, NaN/-0.0, permuted maps, forced equal-but-not-identical pairs) checking reflexivity, symmetry, transitivity and eq=>hash-eq under SipHash and FxHasher. Sampling, not proof: the space of values is infinite, the laws are cheap so 40k/1M triples are judged.",
    "Trusts std/rustc-hash hashers as representative of hash-map use; depth<=3.")
