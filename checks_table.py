# one reg(...) per implemented property: id, level category, technique, what assurance, trusted base
reg("C40", "exploration", "proptest generated value triples, equivalence + hash-consistency oracle",
    "Random search over nested runtime values (all variants, NaN/-0.0, permuted maps, forced equal-but-not-identical pairs) checking reflexivity, symmetry, transitivity and eq=>hash-eq under SipHash and FxHasher. Sampling, not proof: the space of values is infinite, the laws are cheap so 40k/1M triples are judged.",
    "Trusts std/rustc-hash hashers as representative of hash-map use; depth<=3.")
reg("C06", "exploration", "proptest stateful histories vs set-of-sets reference model + exhaustive pair enumeration",
    "Lock-step model-based testing: every generated operation history runs in the explicit BTreeSet<BTreeSet<u32>> model, the standalone Zdd, ZddArena and SharedArena, and count/contains(all 32 subsets)/iter/to_sets are compared after each op, including after arena gc. Plus a complete enumeration of all 65536 ordered family pairs over 3 variables for the binary ops. Universe of 5 variables: random part is sampling, the 3-variable block is exhaustive.",
    "Trusts std BTreeSet algebra as the reference; universe limited to 5 (random) / 3 (exhaustive) variables.")
reg("C07", "exploration", "proptest stateful histories with canonicity/reducedness/gc invariants (hook H1 node dump)",
    "Generated histories build the same family by different routes in one arena, interleaved with gc keeping random handle subsets; after every op: same family <=> same root for all live handle pairs (both directions), all stored nodes reduced and strictly ordered, gc'd handles denote their pre-gc family, iteration yields each member once ascending. Sampling over histories of <=40 ops.",
    "Trusts hook H1 dump and the reference family computed by the harness; 5 variables.")
