#!/bin/bash
# Cold build of every harness binary (offline, from files on disk only).
set -u
here="$(cd "$(dirname "$0")" && pwd)"
export CARGO_NET_OFFLINE=true
cd "$here/harness" || exit 2
rc=0
for d in props/*/; do
  c="$(basename "$d")"
  echo "== building $c"
  cargo build -q -p "$c" 2>&1 | tail -5
  [ "${PIPESTATUS[0]}" = 0 ] || rc=2
done
exit $rc
