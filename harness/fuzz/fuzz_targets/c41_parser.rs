#![no_main]
//! C41: any UTF-8 text -> parse returns, no panic (also inside the parser thread), error
//! positions inside the input.
use libfuzzer_sys::fuzz_target;

fuzz_target!(|data: &[u8]| {
    let Ok(src) = std::str::from_utf8(data) else { return };
    if verif_fuzz::in_exponential_zone(src) {
        return;
    }
    verif_fuzz::check_parse(src);
});
