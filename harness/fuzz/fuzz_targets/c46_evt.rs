#![no_main]
//! C46: any UTF-8 event-file text -> EventFileParser::parse and StreamingEventReader yield
//! the same (type, field map) sequence or both reject; neither panics.
use libfuzzer_sys::fuzz_target;

fuzz_target!(|data: &[u8]| {
    let Ok(text) = std::str::from_utf8(data) else { return };
    verif_fuzz::check_event_file(text);
});
