#![no_main]
//! C20 (`mutate` sub-check of props/c20): codec::deserialize on arbitrary bytes never
//! panics; bytes it accepts as an EngineCheckpoint re-encode to bytes that decode to the
//! same value (canonical tree of props/c20/src/tree.rs, reused unchanged).
// tree.rs refers to `vh_common::truncate`; this crate's lib provides the same function
extern crate verif_fuzz as vh_common;

#[path = "../../props/c20/src/tree.rs"]
#[allow(dead_code)]
mod tree;

use libfuzzer_sys::fuzz_target;
use tree::Tree;
use varpulis_runtime::codec::{self, CheckpointFormat};
use varpulis_runtime::persistence::EngineCheckpoint;

fuzz_target!(|data: &[u8]| {
    let Ok(cp2) = codec::deserialize::<EngineCheckpoint>(data) else { return };
    let t2 = Tree::of(&cp2);
    let bytes2 = match codec::serialize(&cp2, CheckpointFormat::active()) {
        Ok(b) => b,
        Err(e) => verif_fuzz::oracle_fail("mutate:accepted-value-not-serializable", format!("{}", e)),
    };
    let cp3: EngineCheckpoint = match codec::deserialize(&bytes2) {
        Ok(c) => c,
        Err(e) => verif_fuzz::oracle_fail("mutate:accepted-bytes-do-not-re-decode", format!("{} ; {}", e, verif_fuzz::truncate(&String::from_utf8_lossy(&bytes2), 400))),
    };
    if let Some(d) = t2.diff(&Tree::of(&cp3)) {
        verif_fuzz::oracle_fail("mutate:accepted-bytes-re-encode-unstably", d);
    }
});
