#![no_main]
//! C43: (positions, document) decoded with arbitrary::Unstructured: 1-2 cursor positions
//! (u16 line/character; 0xFFFF stands for u32::MAX), the rest of the bytes is the document.
use arbitrary::Unstructured;
use libfuzzer_sys::fuzz_target;

fuzz_target!(|data: &[u8]| {
    let mut u = Unstructured::new(data);
    let n = u.int_in_range(1u8..=2).unwrap_or(1);
    let mut positions = vec![];
    for _ in 0..n {
        let l: u16 = u.arbitrary().unwrap_or(0);
        let c: u16 = u.arbitrary().unwrap_or(0);
        let wide = |x: u16| if x == u16::MAX { u32::MAX } else { x as u32 };
        positions.push((wide(l), wide(c)));
    }
    let rest = u.take_rest();
    let Ok(text) = std::str::from_utf8(rest) else { return };
    if verif_fuzz::in_exponential_zone(text) || verif_fuzz::index_nest_depth(text) > verif_fuzz::MAX_INDEX_NEST + 1 {
        return;
    }
    verif_fuzz::check_lsp(text, &positions);
});
