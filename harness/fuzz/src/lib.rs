//! Semantic oracles shared by the libFuzzer targets.  They are the oracles of the proptest
//! harnesses (props/c41, c43, c46, c20) restated for byte-driven inputs.  An oracle failure
//! panics with a message starting `ORACLE <sig>:` (tools/fuzz.sh keys on that prefix); a
//! panic of the code under test aborts through libfuzzer-sys' panic hook with its own message.

use tower_lsp::lsp_types::{Position, Range};
use varpulis_parser::ParseError;

pub fn oracle_fail(sig: &str, detail: String) -> ! {
    let sig: String = sig.chars().map(|c| if c.is_whitespace() { '_' } else { c }).collect();
    panic!("ORACLE {}: {}", sig, detail)
}

pub fn truncate(s: &str, n: usize) -> String {
    if s.len() <= n {
        return s.to_string();
    }
    let mut end = n;
    while !s.is_char_boundary(end) {
        end -= 1;
    }
    format!("{}…", &s[..end])
}

// ------------------------------------------------------------------ C41

/// Same rule as vh_gen::vplsrc::index_nest_depth / MAX_INDEX_NEST: nested postfix-index
/// brackets below the parser's nesting cap take 2^depth time (documented finding, time is
/// never a verdict); such inputs are skipped so that the campaign is not spent on them.
pub const MAX_INDEX_NEST: usize = 15;

pub fn index_nest_depth(src: &str) -> usize {
    let mut stack: Vec<bool> = vec![];
    let (mut open_idx, mut max) = (0usize, 0usize);
    let mut prev = b' ';
    for &c in src.as_bytes() {
        match c {
            b'[' | b'(' | b'{' => {
                let is_index = c == b'[' && (prev.is_ascii_alphanumeric() || prev == b'_' || prev == b']' || prev == b')');
                stack.push(is_index);
                if is_index {
                    open_idx += 1;
                    max = max.max(open_idx);
                }
            }
            b']' | b')' | b'}' => {
                if let Some(true) = stack.pop() {
                    open_idx -= 1;
                }
            }
            _ => {}
        }
        if !(c == b' ' || c == b'\t' || c == b'\r' || c == b'\n') {
            prev = c;
        }
    }
    max
}

pub fn max_bracket_depth(src: &str) -> usize {
    let (mut d, mut m) = (0usize, 0usize);
    for b in src.bytes() {
        match b {
            b'(' | b'[' | b'{' => {
                d += 1;
                m = m.max(d);
            }
            b')' | b']' | b'}' => d = d.saturating_sub(1),
            _ => {}
        }
    }
    m
}

pub fn in_exponential_zone(src: &str) -> bool {
    index_nest_depth(src) > MAX_INDEX_NEST + 1 && max_bracket_depth(src) <= 26
}

/// C41 oracle on one text.
pub fn check_parse(src: &str) {
    let e = match varpulis_parser::parse(src) {
        Ok(_) => return,
        Err(e) => e,
    };
    if let ParseError::InvalidToken { message, .. } = &e {
        if message.contains("stack overflow") {
            // parse() reports a panic of its own parser thread with this message
            oracle_fail("panic-inside-parser-thread", format!("{:?} input={:?}", message, truncate(src, 400)));
        }
    }
    let lines: Vec<&str> = src.split('\n').collect();
    let off = |what: &str, p: usize| {
        if p > src.len() {
            oracle_fail(&format!("offset-outside-input:{}", what), format!("offset {} > input length {} ({:?}) input={:?}", p, src.len(), e, truncate(src, 400)));
        }
    };
    match &e {
        ParseError::Located { line, column, position, .. } => {
            if !(*line == 0 && *column == 0) {
                if *line == 0 || *line > lines.len() {
                    oracle_fail("line-outside-input", format!("line {} of an input with {} line(s); error: {}; input={:?}", line, lines.len(), e, truncate(src, 400)));
                }
                let l = lines[*line - 1];
                if *column == 0 || *column > l.len() + 1 {
                    oracle_fail("column-outside-line", format!("column {} on line {} which has {} bytes; error: {}; input={:?}", column, line, l.len(), e, truncate(src, 400)));
                }
            }
            off("Located", *position);
        }
        ParseError::UnexpectedToken { position, .. } => off("UnexpectedToken", *position),
        ParseError::InvalidToken { position, .. } => off("InvalidToken", *position),
        ParseError::UnterminatedString(p) => off("UnterminatedString", *p),
        ParseError::Custom { span, .. } => {
            off("Custom.start", span.start);
            off("Custom.end", span.end);
            if span.start > span.end {
                oracle_fail("span-reversed", format!("{:?}", e));
            }
        }
        _ => {}
    }
}

// ------------------------------------------------------------------ C43

/// UTF-16 length of every line under LSP line splitting and under `\n`-only splitting; a
/// position is accepted when inside the document under either reading (as in props/c43).
pub struct Doc {
    lsp: Vec<usize>,
    nl: Vec<usize>,
}

impl Doc {
    pub fn new(text: &str) -> Doc {
        let nl = text.split('\n').map(|l| l.encode_utf16().count()).collect();
        let mut lsp = vec![];
        let mut cur = 0usize;
        let mut it = text.chars().peekable();
        while let Some(c) = it.next() {
            match c {
                '\r' => {
                    if it.peek() == Some(&'\n') {
                        it.next();
                    }
                    lsp.push(cur);
                    cur = 0;
                }
                '\n' => {
                    lsp.push(cur);
                    cur = 0;
                }
                c => cur += c.len_utf16(),
            }
        }
        lsp.push(cur);
        Doc { lsp, nl }
    }
    pub fn pos_inside(&self, p: Position) -> bool {
        let ok = |t: &Vec<usize>| t.get(p.line as usize).map(|len| p.character as usize <= *len).unwrap_or(false);
        ok(&self.lsp) || ok(&self.nl)
    }
    pub fn check_range(&self, what: &str, r: &Range, text: &str) {
        let bad = if !self.pos_inside(r.start) {
            Some("start outside the document")
        } else if !self.pos_inside(r.end) {
            Some("end outside the document")
        } else if (r.start.line, r.start.character) > (r.end.line, r.end.character) {
            Some("start after end")
        } else {
            None
        };
        if let Some(why) = bad {
            oracle_fail(
                &format!("{}-range-outside-document", what),
                format!("{}: {:?} (line {} has {:?} UTF-16 units, {} lines); document={:?}", why, r, r.end.line, self.nl.get(r.end.line as usize), self.nl.len(), truncate(text, 400)),
            );
        }
    }
}

/// C43 oracle: all request functions on one document and a few cursor positions.
pub fn check_lsp(text: &str, positions: &[(u32, u32)]) {
    use tower_lsp::lsp_types::{CompletionTextEdit, Url};
    let doc = Doc::new(text);
    let uri = Url::parse("file:///case.vpl").unwrap();
    for d in varpulis_lsp::diagnostics::get_diagnostics(text) {
        doc.check_range("diagnostics", &d.range, text);
    }
    #[allow(deprecated)]
    for s in varpulis_lsp::semantic::get_document_symbols(text) {
        doc.check_range("document_symbols", &s.location.range, text);
    }
    let (mut line, mut ch) = (0u32, 0u32);
    for tk in varpulis_lsp::semantic::get_semantic_tokens(text) {
        if tk.delta_line > 0 {
            line = line.saturating_add(tk.delta_line);
            ch = tk.delta_start;
        } else {
            ch = ch.saturating_add(tk.delta_start);
        }
        let r = Range { start: Position { line, character: ch }, end: Position { line, character: ch.saturating_add(tk.length) } };
        doc.check_range("semantic_tokens", &r, text);
    }
    for &(l, c) in positions {
        let pos = Position { line: l, character: c };
        if let Some(h) = varpulis_lsp::hover::get_hover(text, pos) {
            if let Some(r) = h.range {
                doc.check_range("hover", &r, text);
            }
        }
        for it in varpulis_lsp::completion::get_completions(text, pos) {
            if let Some(CompletionTextEdit::Edit(e)) = &it.text_edit {
                doc.check_range("completion", &e.range, text);
            }
        }
        if let Some(loc) = varpulis_lsp::navigation::get_definition(text, pos, &uri) {
            doc.check_range("definition", &loc.range, text);
        }
        if let Some(locs) = varpulis_lsp::navigation::get_references(text, pos, &uri) {
            for loc in &locs {
                doc.check_range("references", &loc.range, text);
            }
        }
    }
}

// ------------------------------------------------------------------ C46

use varpulis_runtime::event::Event;
use varpulis_runtime::event_file::{EventFileParser, StreamingEventReader};

/// (type, fields sorted by name as Debug text); timestamps ignored
fn norm(e: &Event) -> (String, Vec<(String, String)>) {
    let mut f: Vec<(String, String)> = e.data.iter().map(|(k, v)| (k.to_string(), format!("{:?}", v))).collect();
    f.sort();
    (e.event_type.to_string(), f)
}

/// C46 oracle: preload parser vs streaming reader on one file text.
pub fn check_event_file(text: &str) {
    if text.split('\n').any(|l| l.len() >= 1_000_000) {
        return;
    }
    let a: Result<Vec<_>, String> = EventFileParser::parse(text).map(|v| v.iter().map(|t| norm(&t.event)).collect());
    let mut b: Result<Vec<(String, Vec<(String, String)>)>, String> = Ok(vec![]);
    for item in StreamingEventReader::new(std::io::Cursor::new(text.as_bytes())) {
        match item {
            Ok(e) => {
                if let Ok(v) = &mut b {
                    v.push(norm(&e));
                }
            }
            Err(e) => {
                b = Err(e);
                break;
            }
        }
    }
    match (&a, &b) {
        (Ok(x), Ok(y)) => {
            if x != y {
                let i = x.iter().zip(y.iter()).position(|(p, q)| p != q).unwrap_or(x.len().min(y.len()));
                oracle_fail("events-differ", format!("preload {} events, streaming {}; index {}: {:?} vs {:?}; file={:?}", x.len(), y.len(), i, x.get(i), y.get(i), truncate(text, 400)));
            }
        }
        (Err(_), Err(_)) => {}
        (Ok(x), Err(e)) => oracle_fail("only-streaming-rejects", format!("preload accepts {} events, streaming: {}; file={:?}", x.len(), e, truncate(text, 400))),
        (Err(e), Ok(y)) => oracle_fail("only-preload-rejects", format!("preload: {}; streaming accepts {} events; file={:?}", e, y.len(), truncate(text, 400))),
    }
}
