//! Writes a few small, valid engine checkpoints (JSON codec) as libFuzzer seeds for the
//! `c20_codec` target: `cargo run -p vh-gen --example mkseeds_c20 -- /verif/corpus/c20_codec`.
use vh_gen::engine::Eng;
use vh_gen::{Ev, V};
use varpulis_runtime::codec::{self, CheckpointFormat};

fn main() {
    let dir = std::env::args().nth(1).expect("output directory");
    std::fs::create_dir_all(&dir).unwrap();
    let programs: &[(&str, &str)] = &[
        ("count_window", "stream S = A\n    .window(3)\n    .aggregate(total: sum(x), n: count())\n    .emit(total: total)\n"),
        ("tumbling", "stream S = A\n    .window(5s)\n    .aggregate(m: max(x))\n    .emit(m: m)\n"),
        ("sliding", "stream S = A\n    .window(10s, sliding: 2s)\n    .aggregate(a: avg(x))\n    .emit(a: a)\n"),
        ("session", "stream S = A\n    .window(session: 3s)\n    .aggregate(n: count())\n    .emit(n: n)\n"),
        ("partitioned", "stream S = A\n    .partition_by(k)\n    .window(2)\n    .aggregate(total: sum(x))\n    .emit(total: total)\n"),
        ("sequence", "stream S = A as a\n    -> B where x == a.x as b\n    .within(1m)\n    .emit(x: a.x)\n"),
        ("kleene", "stream S = A as a\n    -> all B where k == a.k as bs\n    -> C as c\n    .within(1m)\n    .emit(k: a.k)\n"),
        ("vars", "var counter: int = 0\nstream S = A\n    .where(x > 1)\n    .emit(x: x)\n"),
        ("passthrough", "stream S = A\n    .emit(x: x)\n"),
    ];
    let values = [V::Int(1), V::f(2.5), V::s("é"), V::f(f64::NAN), V::Arr(vec![V::Int(1), V::Null]), V::Bool(true), V::f(-0.0), V::Int(i64::MAX)];
    for (name, src) in programs {
        let mut eng = Eng::new(src).unwrap_or_else(|e| panic!("{}: {}", name, e));
        for i in 0..5i64 {
            let ty = ["A", "B", "A", "C", "A"][i as usize];
            let ev = Ev::new(ty, i * 700).with("x", V::Int(i % 2)).with("k", V::s(if i % 2 == 0 { "p" } else { "q" })).with("v", values[(i as usize + name.len()) % values.len()].clone());
            let _ = eng.process(&ev);
        }
        let cp = eng.engine.create_checkpoint();
        let bytes = codec::serialize(&cp, CheckpointFormat::Json).unwrap();
        println!("{}: {} bytes", name, bytes.len());
        std::fs::write(format!("{}/{}.json", dir, name), bytes).unwrap();
    }
}
