//! Multi-stream program model for the engine-level properties (C16, C17, C19, C23):
//! a small grammar of streams (filters, emits, windows+aggregates, sequences, joins,
//! derived chains/diamonds, distinct, limit, streams without emit) rendered to VPL text.

use crate::seq::{self, Pat, PatOpts, VKind};
use crate::{Ev, V};
use proptest::prelude::*;
use serde::{Deserialize, Serialize};

pub const BASE_TYPES: [&str; 3] = ["A", "B", "C"];

/// user function used by `Shape::Process`
pub const PROCESS_FN: &str = "fn gen2():\n    for i in 0..2:\n        emit R(id: i, k: 1, v: i, s: \"x\")\n";

#[derive(Clone, Debug, PartialEq, Serialize, Deserialize)]
pub enum Cond {
    /// `v op c`
    V(seq::Op, i64),
    /// `k == c` / `k != c`
    K(bool, i64),
    /// `s == "x"`
    S(bool, String),
    And(Box<Cond>, Box<Cond>),
    Or(Box<Cond>, Box<Cond>),
}

impl Cond {
    pub fn render(&self) -> String {
        match self {
            Cond::V(op, c) => format!("v {} {}", op.text(), if *c < 0 { format!("({})", c) } else { c.to_string() }),
            Cond::K(eq, c) => format!("k {} {}", if *eq { "==" } else { "!=" }, c),
            Cond::S(eq, s) => format!("s {} \"{}\"", if *eq { "==" } else { "!=" }, s),
            Cond::And(a, b) => format!("({} and {})", a.render(), b.render()),
            Cond::Or(a, b) => format!("({} or {})", a.render(), b.render()),
        }
    }
}

#[derive(Clone, Debug, PartialEq, Serialize, Deserialize)]
pub enum Win {
    /// `.window(Ns)` tumbling, seconds
    Tumbling(u32),
    /// `.window(N)` count
    Count(u32),
    /// `.window(Ns, sliding: Ms)`
    SlidingTime(u32, u32),
    /// `.window(N, sliding: M)`
    SlidingCount(u32, u32),
    /// `.window(session: Ns)`
    Session(u32),
}

impl Win {
    pub fn render(&self) -> String {
        match self {
            Win::Tumbling(n) => format!(".window({}s)", n),
            Win::Count(n) => format!(".window({})", n),
            Win::SlidingTime(n, m) => format!(".window({}s, sliding: {}s)", n, m),
            Win::SlidingCount(n, m) => format!(".window({}, sliding: {})", n, m),
            Win::Session(n) => format!(".window(session: {}s)", n),
        }
    }
    pub fn kind(&self) -> &'static str {
        match self {
            Win::Tumbling(_) => "tumbling",
            Win::Count(_) => "count",
            Win::SlidingTime(..) => "sliding_time",
            Win::SlidingCount(..) => "sliding_count",
            Win::Session(_) => "session",
        }
    }
}

/// where a stream reads from
#[derive(Clone, Debug, PartialEq, Serialize, Deserialize)]
pub enum Src {
    Ty(String),
    /// index of an earlier *pass-like* stream (its outputs carry id, k, v, s)
    Stream(usize),
}

#[derive(Clone, Copy, Debug, PartialEq, Eq, Serialize, Deserialize)]
pub enum Emit {
    /// no `.emit(...)`: nothing goes to the output channel, derived streams still consume
    None,
    /// `.emit(id: id, k: k, v: v, s: s)`
    Pass,
    /// `.emit(id: id, k: k, v: v + 1, s: s)`
    Shift,
}

#[derive(Clone, Debug, PartialEq, Serialize, Deserialize)]
pub enum Shape {
    Filter { src: Src, cond: Option<Cond>, emit: Emit },
    Agg { src: Src, partition: bool, win: Win, having: Option<i64> },
    Seq { pat: Pat },
    /// `join(L, R).on(L.k == R.k).window(Ws)` with or without `.emit(..)`
    Join {
        l: String,
        r: String,
        win_s: u32,
        #[serde(default = "yes")]
        emit: bool,
    },
    /// a stream derived from a join stream: `stream Sx = Sj .emit(tag: 1)`
    JoinDerived { join: usize },
    Distinct { src: Src },
    Limit { src: Src, n: u32 },
    /// `.process(gen2())` without `.emit`: every input event yields two events (id 0 and 1, v = id)
    Process { src: Src },
}

#[derive(Clone, Debug, PartialEq, Serialize, Deserialize)]
pub struct Prog {
    pub streams: Vec<Shape>,
}

fn yes() -> bool {
    true
}

pub fn sname(i: usize) -> String {
    format!("S{}", i + 1)
}

impl Shape {
    pub fn pass_like(&self) -> bool {
        matches!(self, Shape::Filter { .. } | Shape::Distinct { .. } | Shape::Limit { .. } | Shape::Process { .. })
    }
    pub fn src(&self) -> Option<&Src> {
        match self {
            Shape::Filter { src, .. } | Shape::Agg { src, .. } | Shape::Distinct { src } | Shape::Limit { src, .. } | Shape::Process { src } => Some(src),
            _ => None,
        }
    }
    /// index of the stream this stream is derived from, if any
    pub fn upstream(&self) -> Option<usize> {
        match self {
            Shape::JoinDerived { join } => Some(*join),
            other => match other.src() {
                Some(Src::Stream(i)) => Some(*i),
                _ => None,
            },
        }
    }
    pub fn kind(&self) -> String {
        match self {
            Shape::Filter { emit: Emit::None, .. } => "filter_noemit".into(),
            Shape::Filter { .. } => "filter".into(),
            Shape::Agg { win, partition, .. } => format!("agg_{}{}", win.kind(), if *partition { "_part" } else { "" }),
            Shape::Seq { pat } => {
                if pat.has_all() {
                    "seq_all".into()
                } else if pat.not.is_some() {
                    "seq_not".into()
                } else {
                    "seq".into()
                }
            }
            Shape::Join { emit: true, .. } => "join".into(),
            Shape::Join { emit: false, .. } => "join_noemit".into(),
            Shape::JoinDerived { .. } => "join_derived".into(),
            Shape::Distinct { .. } => "distinct".into(),
            Shape::Limit { .. } => "limit".into(),
            Shape::Process { .. } => "process_noemit".into(),
        }
    }
    pub fn stateful(&self) -> bool {
        !matches!(self, Shape::Filter { .. } | Shape::JoinDerived { .. } | Shape::Process { .. })
    }
}

fn src_text(s: &Src) -> String {
    match s {
        Src::Ty(t) => t.clone(),
        Src::Stream(i) => sname(*i),
    }
}

impl Prog {
    pub fn render_stream(&self, i: usize) -> String {
        let name = sname(i);
        match &self.streams[i] {
            Shape::Filter { src, cond, emit } => {
                let mut s = format!("stream {} = {}\n", name, src_text(src));
                if let Some(c) = cond {
                    s.push_str(&format!("    .where({})\n", c.render()));
                }
                match emit {
                    Emit::None => {}
                    Emit::Pass => s.push_str("    .emit(id: id, k: k, v: v, s: s)\n"),
                    Emit::Shift => s.push_str("    .emit(id: id, k: k, v: v + 1, s: s)\n"),
                }
                s
            }
            Shape::Agg { src, partition, win, having } => {
                let mut s = format!("stream {} = {}\n", name, src_text(src));
                if *partition {
                    s.push_str("    .partition_by(k)\n");
                }
                s.push_str(&format!("    {}\n", win.render()));
                s.push_str("    .aggregate(n: count(), sm: sum(v), f: first(id), l: last(id))\n");
                if let Some(h) = having {
                    s.push_str(&format!("    .having(n > {})\n", h));
                }
                s.push_str("    .emit(n: n, sm: sm, f: f, l: l)\n");
                s
            }
            Shape::Seq { pat } => pat.render(&name),
            Shape::Join { l, r, win_s, emit } => {
                let mut s = format!("stream {} = join({}, {})\n    .on({}.k == {}.k)\n    .window({}s)\n", name, l, r, l, r, win_s);
                if *emit {
                    s.push_str(&format!("    .emit(lid: {}.id, rid: {}.id, lv: {}.v, rv: {}.v)\n", l, r, l, r));
                }
                s
            }
            Shape::JoinDerived { join } => format!("stream {} = {}\n    .emit(tag: 1)\n", name, sname(*join)),
            Shape::Distinct { src } => format!("stream {} = {}\n    .distinct(v)\n    .emit(id: id, k: k, v: v, s: s)\n", name, src_text(src)),
            Shape::Limit { src, n } => format!("stream {} = {}\n    .limit({})\n    .emit(id: id, k: k, v: v, s: s)\n", name, src_text(src), n),
            Shape::Process { src } => format!("stream {} = {}\n    .process(gen2())\n", name, src_text(src)),
        }
    }
    pub fn render(&self) -> String {
        let body = (0..self.streams.len()).map(|i| self.render_stream(i)).collect::<Vec<_>>().join("\n");
        if self.streams.iter().any(|s| matches!(s, Shape::Process { .. })) {
            format!("{}\n{}", PROCESS_FN, body)
        } else {
            body
        }
    }
    pub fn has_derived(&self) -> bool {
        self.streams.iter().any(|s| matches!(s.src(), Some(Src::Stream(_))) || matches!(s, Shape::JoinDerived { .. }))
    }
    pub fn has_join(&self) -> bool {
        self.streams.iter().any(|s| matches!(s, Shape::Join { .. }))
    }
    pub fn kinds(&self) -> Vec<String> {
        self.streams.iter().map(|s| s.kind()).collect()
    }
}

// ------------------------------------------------------------------ strategies

fn cond() -> BoxedStrategy<Cond> {
    let ops = prop_oneof![Just(seq::Op::Lt), Just(seq::Op::Le), Just(seq::Op::Gt), Just(seq::Op::Ge), Just(seq::Op::Eq), Just(seq::Op::Ne)];
    let atom = prop_oneof![
        4 => (ops, -1i64..5).prop_map(|(o, c)| Cond::V(o, c)),
        1 => (any::<bool>(), 1i64..4).prop_map(|(e, c)| Cond::K(e, c)),
        1 => (any::<bool>(), prop_oneof![Just("x"), Just("y")]).prop_map(|(e, s)| Cond::S(e, s.to_string())),
    ];
    let a2 = atom.clone();
    prop_oneof![
        4 => atom.clone(),
        1 => (atom.clone(), a2.clone()).prop_map(|(a, b)| Cond::And(Box::new(a), Box::new(b))),
        1 => (atom, a2).prop_map(|(a, b)| Cond::Or(Box::new(a), Box::new(b))),
    ]
    .boxed()
}

fn win() -> BoxedStrategy<Win> {
    prop_oneof![
        (1u32..4).prop_map(Win::Tumbling),
        (1u32..5).prop_map(Win::Count),
        (1u32..5, 1u32..4).prop_map(|(a, b)| Win::SlidingTime(a, b)),
        (1u32..5, 1u32..4).prop_map(|(a, b)| Win::SlidingCount(a, b)),
        (1u32..3).prop_map(Win::Session),
    ]
    .boxed()
}

#[derive(Clone, Copy, Debug)]
pub struct ProgOpts {
    pub max_streams: usize,
    pub joins: bool,
    pub seqs: bool,
    pub seq_not: bool,
    pub seq_all: bool,
    pub windows: bool,
    pub distinct_limit: bool,
    pub noemit: bool,
    /// `.process(f())` streams without emit
    pub process: bool,
    /// joins without emit and streams derived from joins
    pub join_derived: bool,
}

impl ProgOpts {
    pub fn full() -> ProgOpts {
        ProgOpts { max_streams: 4, joins: true, seqs: true, seq_not: true, seq_all: true, windows: true, distinct_limit: true, noemit: true, process: true, join_derived: true }
    }
}

/// Raw per-stream choices, resolved against the streams built so far.
#[derive(Clone, Debug)]
struct Raw {
    kind: u8,
    src_sel: u16,
    derived: bool,
    cond: Option<Cond>,
    emit: u8,
    partition: bool,
    win: Win,
    having: Option<i64>,
    pat: Pat,
    l: usize,
    r: usize,
    win_s: u32,
    n: u32,
}

fn raw(o: ProgOpts) -> impl Strategy<Value = Raw> {
    let popts = PatOpts { allow_all: o.seq_all, allow_not: o.seq_not, allow_partition: true, max_steps: 3 };
    (
        (0u8..12, any::<u16>(), any::<bool>(), proptest::option::of(cond()), 0u8..6, any::<bool>()),
        (win(), proptest::option::weighted(0.3, 0i64..3), seq::pat(VKind::Int, popts), 0usize..3, 0usize..3, 1u32..4, 1u32..6),
    )
        .prop_map(|((kind, src_sel, derived, cond, emit, partition), (win, having, pat, l, r, win_s, n))| Raw { kind, src_sel, derived, cond, emit, partition, win, having, pat, l, r, win_s, n })
}

pub fn prog(o: ProgOpts) -> BoxedStrategy<Prog> {
    proptest::collection::vec(raw(o), 1..=o.max_streams)
        .prop_map(move |raws| {
            let mut streams: Vec<Shape> = vec![];
            for r in raws {
                let pass_like: Vec<usize> = (0..streams.len()).filter(|i| streams[*i].pass_like()).collect();
                let src = if r.derived && !pass_like.is_empty() {
                    Src::Stream(pass_like[((r.src_sel as usize) * pass_like.len()) >> 16])
                } else {
                    Src::Ty(BASE_TYPES[((r.src_sel as usize) * 3) >> 16].to_string())
                };
                let shape = match r.kind {
                    0..=2 => Shape::Filter {
                        src,
                        cond: r.cond,
                        emit: match r.emit {
                            0 if o.noemit => Emit::None,
                            1 | 2 => Emit::Shift,
                            _ => Emit::Pass,
                        },
                    },
                    4..=6 if o.windows => Shape::Agg { src, partition: r.partition, win: r.win, having: r.having },
                    7 | 8 if o.seqs => {
                        // sequence steps over the three base types only
                        let mut p = r.pat;
                        for s in p.steps.iter_mut() {
                            if s.ty == "D" {
                                s.ty = "C".into();
                            }
                        }
                        if let Some(n) = &mut p.not {
                            if n.ty == "D" {
                                n.ty = "C".into();
                            }
                        }
                        seq::normalise(&mut p);
                        if p.steps.len() == 1 {
                            // one-step sequences: keep them out of the multi-stream grammar (C02 covers them)
                            let st = p.steps[0].clone();
                            p.steps.push(seq::Step { ty: BASE_TYPES[r.l].to_string(), alias: "b".into(), all: false, filter: None });
                            p.steps[0] = st;
                            p.seq_form = true;
                        }
                        Shape::Seq { pat: p }
                    }
                    9 if o.joins => {
                        let l = BASE_TYPES[r.l].to_string();
                        let mut rr = BASE_TYPES[r.r].to_string();
                        if rr == l {
                            rr = BASE_TYPES[(r.r + 1) % 3].to_string();
                        }
                        Shape::Join { l, r: rr, win_s: r.win_s, emit: !(o.join_derived && r.emit < 3) }
                    }
                    10 if o.distinct_limit => Shape::Distinct { src },
                    11 if o.distinct_limit => Shape::Limit { src, n: r.n },
                    3 if o.process && r.emit >= 3 => Shape::Process { src },
                    _ => Shape::Filter { src, cond: r.cond, emit: Emit::Pass },
                };
                let is_join = matches!(shape, Shape::Join { .. });
                streams.push(shape);
                if is_join && o.join_derived && r.derived && streams.len() < o.max_streams + 1 {
                    let j = streams.len() - 1;
                    streams.push(Shape::JoinDerived { join: j });
                }
            }
            Prog { streams }
        })
        .boxed()
}

/// Input events over A, B, C: unique ids, k in 1..=3 (sometimes missing), small int v, s in {x,y},
/// timestamps non-decreasing on a 100 ms..2 s grid with ties (`sub_ms` adds sub-millisecond parts
/// is NOT done here: timestamps are whole milliseconds).
pub fn events(max: usize) -> BoxedStrategy<Vec<Ev>> {
    let one = (0usize..3, 1i64..4, 0u8..12, -2i64..5, prop_oneof![Just("x"), Just("y")], prop_oneof![3 => Just(0i64), 3 => Just(100), 3 => Just(500), 2 => Just(1000), 1 => Just(2500)]);
    proptest::collection::vec(one, 0..max)
        .prop_map(|raw| {
            let mut t = 0i64;
            raw.into_iter()
                .enumerate()
                .map(|(i, (ty, k, miss, v, s, dt))| {
                    t += dt;
                    let mut e = Ev::new(BASE_TYPES[ty], t).with("id", V::Int(i as i64 + 1));
                    if miss != 0 {
                        e = e.with("k", V::Int(k));
                    }
                    e.with("v", V::Int(v)).with("s", V::s(s))
                })
                .collect()
        })
        .boxed()
}

/// Split `n` items into consecutive batches according to `cuts` (each cut u16 mapped monotonically).
pub fn split_points(n: usize, cuts: &[u16]) -> Vec<usize> {
    let mut pts: Vec<usize> = cuts.iter().map(|c| ((*c as usize) * (n + 1)) >> 16).collect();
    pts.push(0);
    pts.push(n);
    pts.sort();
    pts.dedup();
    pts
}
