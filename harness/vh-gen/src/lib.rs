//! Serializable case models (values, events) + proptest strategies + conversion to
//! the real varpulis types.  Cases are stored in this model so replay files are
//! exact (floats are stored as Rust `{:?}` strings: NaN, inf, -0.0 survive).

use chrono::{DateTime, TimeZone, Utc};
use proptest::prelude::*;
use serde::{Deserialize, Deserializer, Serialize, Serializer};
use std::sync::Arc;
use varpulis_core::Value;
use varpulis_runtime::event::Event;

pub mod engine;
pub mod seq;
pub mod prog;
pub mod expr;
pub mod vplsrc;

/// f64 with exact textual serialisation.
#[derive(Clone, Copy, Debug)]
pub struct F(pub f64);

impl PartialEq for F {
    fn eq(&self, o: &F) -> bool {
        self.0.to_bits() == o.0.to_bits()
    }
}
impl Serialize for F {
    fn serialize<S: Serializer>(&self, s: S) -> Result<S::Ok, S::Error> {
        s.serialize_str(&format!("{:?}", self.0))
    }
}
impl<'de> Deserialize<'de> for F {
    fn deserialize<D: Deserializer<'de>>(d: D) -> Result<F, D::Error> {
        let s = String::deserialize(d)?;
        s.parse::<f64>().map(F).map_err(serde::de::Error::custom)
    }
}

#[derive(Clone, Debug, PartialEq, Serialize, Deserialize)]
pub enum V {
    Null,
    Bool(bool),
    Int(i64),
    Float(F),
    Str(String),
    Ts(i64),
    Dur(u64),
    Arr(Vec<V>),
    Map(Vec<(String, V)>),
}

impl V {
    pub fn f(x: f64) -> V {
        V::Float(F(x))
    }
    pub fn s(x: &str) -> V {
        V::Str(x.to_string())
    }
    pub fn to_value(&self) -> Value {
        match self {
            V::Null => Value::Null,
            V::Bool(b) => Value::Bool(*b),
            V::Int(i) => Value::Int(*i),
            V::Float(f) => Value::Float(f.0),
            V::Str(s) => Value::Str(s.as_str().into()),
            V::Ts(t) => Value::Timestamp(*t),
            V::Dur(d) => Value::Duration(*d),
            V::Arr(a) => Value::array(a.iter().map(|v| v.to_value()).collect()),
            V::Map(m) => {
                let mut im = varpulis_core::value::FxIndexMap::default();
                for (k, v) in m {
                    im.insert(Arc::<str>::from(k.as_str()), v.to_value());
                }
                Value::map(im)
            }
        }
    }
    pub fn from_value(v: &Value) -> V {
        match v {
            Value::Null => V::Null,
            Value::Bool(b) => V::Bool(*b),
            Value::Int(i) => V::Int(*i),
            Value::Float(f) => V::Float(F(*f)),
            Value::Str(s) => V::Str(s.to_string()),
            Value::Timestamp(t) => V::Ts(*t),
            Value::Duration(d) => V::Dur(*d),
            Value::Array(a) => V::Arr(a.iter().map(V::from_value).collect()),
            Value::Map(m) => V::Map(m.iter().map(|(k, v)| (k.to_string(), V::from_value(v))).collect()),
        }
    }
    pub fn is_numeric(&self) -> bool {
        matches!(self, V::Int(_) | V::Float(_))
    }
    pub fn type_tag(&self) -> &'static str {
        match self {
            V::Null => "null",
            V::Bool(_) => "bool",
            V::Int(_) => "int",
            V::Float(_) => "float",
            V::Str(_) => "str",
            V::Ts(_) => "ts",
            V::Dur(_) => "dur",
            V::Arr(_) => "arr",
            V::Map(_) => "map",
        }
    }
    /// canonical text with maps sorted by key (for order-insensitive comparison)
    pub fn canon(&self) -> String {
        match self {
            V::Null => "null".into(),
            V::Bool(b) => format!("{}", b),
            V::Int(i) => format!("i{}", i),
            V::Float(f) => {
                if f.0.is_nan() {
                    "fNaN".into()
                } else {
                    format!("f{:?}", f.0)
                }
            }
            V::Str(s) => format!("{:?}", s),
            V::Ts(t) => format!("ts{}", t),
            V::Dur(d) => format!("dur{}", d),
            V::Arr(a) => format!("[{}]", a.iter().map(|v| v.canon()).collect::<Vec<_>>().join(",")),
            V::Map(m) => {
                let mut e: Vec<String> = m.iter().map(|(k, v)| format!("{:?}:{}", k, v.canon())).collect();
                e.sort();
                format!("{{{}}}", e.join(","))
            }
        }
    }
}

/// One input event of a case.  `ts_ms` on a millisecond grid from a fixed base.
#[derive(Clone, Debug, PartialEq, Serialize, Deserialize)]
pub struct Ev {
    pub ty: String,
    pub ts_ms: i64,
    pub fields: Vec<(String, V)>,
}

pub const BASE_TS_MS: i64 = 1_700_000_000_000;

pub fn ts(ms: i64) -> DateTime<Utc> {
    Utc.timestamp_millis_opt(BASE_TS_MS + ms).unwrap()
}

impl Ev {
    pub fn new(ty: &str, ts_ms: i64) -> Ev {
        Ev { ty: ty.to_string(), ts_ms, fields: vec![] }
    }
    pub fn with(mut self, k: &str, v: V) -> Ev {
        self.fields.push((k.to_string(), v));
        self
    }
    pub fn get(&self, k: &str) -> Option<&V> {
        self.fields.iter().find(|(n, _)| n == k).map(|(_, v)| v)
    }
    pub fn id(&self) -> i64 {
        match self.get("id") {
            Some(V::Int(i)) => *i,
            _ => -1,
        }
    }
    pub fn to_event(&self) -> Event {
        let mut e = Event::new_at(self.ty.as_str(), ts(self.ts_ms));
        for (k, v) in &self.fields {
            e.data.insert(Arc::<str>::from(k.as_str()), v.to_value());
        }
        e
    }
}

/// An output event normalised for comparison: type + sorted fields in canonical text.
#[derive(Clone, Debug, PartialEq, Eq, PartialOrd, Ord, Hash, Serialize, Deserialize)]
pub struct OutEv {
    pub ty: String,
    pub fields: Vec<(String, String)>,
}

impl OutEv {
    pub fn from_event(e: &Event) -> OutEv {
        let mut fields: Vec<(String, String)> = e.data.iter().map(|(k, v)| (k.to_string(), V::from_value(v).canon())).collect();
        fields.sort();
        OutEv { ty: e.event_type.to_string(), fields }
    }
    pub fn get(&self, k: &str) -> Option<&str> {
        self.fields.iter().find(|(n, _)| n == k).map(|(_, v)| v.as_str())
    }
    /// integer field (canonical text `i<n>`)
    pub fn get_int(&self, k: &str) -> Option<i64> {
        self.get(k).and_then(|s| s.strip_prefix('i')).and_then(|s| s.parse().ok())
    }
    pub fn without(&self, drop: &[&str]) -> OutEv {
        OutEv { ty: self.ty.clone(), fields: self.fields.iter().filter(|(k, _)| !drop.contains(&k.as_str())).cloned().collect() }
    }
}

// ------------------------------------------------------------ strategies

pub fn boundary_ints() -> Vec<i64> {
    vec![
        0, 1, -1, 2, -2, 7, 10, 100, -100,
        1 << 31, (1 << 31) - 1, -(1 << 31),
        (1 << 53) - 1, 1 << 53, (1 << 53) + 1, -((1 << 53) + 1),
        i64::MAX, i64::MAX - 1, i64::MIN, i64::MIN + 1,
    ]
}

pub fn boundary_floats() -> Vec<f64> {
    vec![
        0.0, -0.0, 0.5, -0.5, 1.0, -1.0, 1.5, 2.0, 31.5, 1e-9, 1e300, -1e300,
        f64::MIN_POSITIVE, f64::MAX, f64::MIN, f64::INFINITY, f64::NEG_INFINITY, f64::NAN, f64::from_bits(0xFFF8_0000_0000_0000),
        9007199254740992.0, 9007199254740993.0, 9.223372036854775807e18, -9.223372036854775808e18,
        0.1, 0.2, 0.30000000000000004, 1e15, 4294967296.0,
    ]
}

pub fn small_int() -> impl Strategy<Value = i64> {
    prop_oneof![4 => -3i64..8, 1 => -100i64..100]
}

pub fn any_int() -> impl Strategy<Value = i64> {
    prop_oneof![
        4 => -5i64..10,
        3 => proptest::sample::select(boundary_ints()),
        1 => any::<i64>(),
    ]
}

pub fn any_float() -> impl Strategy<Value = f64> {
    prop_oneof![
        3 => (-20i32..40).prop_map(|i| i as f64 * 0.5),
        3 => proptest::sample::select(boundary_floats()),
        1 => any::<f64>(),
    ]
}

pub fn finite_float() -> impl Strategy<Value = f64> {
    any_float().prop_map(|f| if f.is_finite() { f } else { 0.25 })
}

pub fn any_string() -> impl Strategy<Value = String> {
    prop_oneof![
        4 => proptest::sample::select(vec!["", "a", "b", "ab", "A", "default", "0", "1", "1.5", "true", "null", "héllo", "日本", "q\"uote", "back\\slash", "new\nline", "tab\t", "😀", " sp "]).prop_map(|s| s.to_string()),
        1 => "[a-c]{0,3}",
        1 => "\\PC{0,6}",
    ]
}

pub fn scalar() -> impl Strategy<Value = V> {
    prop_oneof![
        1 => Just(V::Null),
        1 => any::<bool>().prop_map(V::Bool),
        3 => any_int().prop_map(V::Int),
        3 => any_float().prop_map(V::f),
        2 => any_string().prop_map(V::Str),
    ]
}

pub fn scalar_with_time() -> impl Strategy<Value = V> {
    prop_oneof![
        8 => scalar(),
        1 => any_int().prop_map(V::Ts),
        1 => any::<u64>().prop_map(V::Dur),
        1 => (0u64..5).prop_map(V::Dur),
    ]
}

/// Nested values up to `depth`, maps with distinct keys from a small alphabet.
pub fn value(depth: u32) -> BoxedStrategy<V> {
    let leaf = scalar_with_time();
    leaf.prop_recursive(depth, 24, 4, |inner| {
        prop_oneof![
            proptest::collection::vec(inner.clone(), 0..4).prop_map(V::Arr),
            proptest::collection::vec((proptest::sample::select(vec!["a", "b", "c", "k", "é", ""]), inner), 0..4).prop_map(|kv| {
                let mut seen = std::collections::HashSet::new();
                V::Map(kv.into_iter().filter(|(k, _)| seen.insert(*k)).map(|(k, v)| (k.to_string(), v)).collect())
            }),
        ]
    })
    .boxed()
}
