//! Serializable expression model `E` (exact floats) restricted to forms the VPL parser can
//! produce, with conversion to the real AST, a fully parenthesised VPL renderer, and the
//! helpers to fold / parse one expression through the public APIs.

use crate::{F, V};
use serde::{Deserialize, Serialize};
use varpulis_core::ast::{Arg, BinOp, Expr, Program, Stmt, StreamOp, UnaryOp};
use varpulis_core::span::Spanned;

#[derive(Clone, Copy, Debug, PartialEq, Eq, Hash, Serialize, Deserialize)]
pub enum Op {
    Add,
    Sub,
    Mul,
    Div,
    Mod,
    Pow,
    Eq,
    Ne,
    Lt,
    Le,
    Gt,
    Ge,
    And,
    Or,
    In,
    NotIn,
}

impl Op {
    pub const ARITH: [Op; 6] = [Op::Add, Op::Sub, Op::Mul, Op::Div, Op::Mod, Op::Pow];
    pub const CMP: [Op; 6] = [Op::Eq, Op::Ne, Op::Lt, Op::Le, Op::Gt, Op::Ge];
    pub fn sym(self) -> &'static str {
        match self {
            Op::Add => "+",
            Op::Sub => "-",
            Op::Mul => "*",
            Op::Div => "/",
            Op::Mod => "%",
            Op::Pow => "**",
            Op::Eq => "==",
            Op::Ne => "!=",
            Op::Lt => "<",
            Op::Le => "<=",
            Op::Gt => ">",
            Op::Ge => ">=",
            Op::And => "and",
            Op::Or => "or",
            Op::In => "in",
            Op::NotIn => "not in",
        }
    }
    pub fn name(self) -> &'static str {
        match self {
            Op::Add => "add",
            Op::Sub => "sub",
            Op::Mul => "mul",
            Op::Div => "div",
            Op::Mod => "mod",
            Op::Pow => "pow",
            Op::Eq => "eq",
            Op::Ne => "ne",
            Op::Lt => "lt",
            Op::Le => "le",
            Op::Gt => "gt",
            Op::Ge => "ge",
            Op::And => "and",
            Op::Or => "or",
            Op::In => "in",
            Op::NotIn => "notin",
        }
    }
    pub fn to_binop(self) -> BinOp {
        match self {
            Op::Add => BinOp::Add,
            Op::Sub => BinOp::Sub,
            Op::Mul => BinOp::Mul,
            Op::Div => BinOp::Div,
            Op::Mod => BinOp::Mod,
            Op::Pow => BinOp::Pow,
            Op::Eq => BinOp::Eq,
            Op::Ne => BinOp::NotEq,
            Op::Lt => BinOp::Lt,
            Op::Le => BinOp::Le,
            Op::Gt => BinOp::Gt,
            Op::Ge => BinOp::Ge,
            Op::And => BinOp::And,
            Op::Or => BinOp::Or,
            Op::In => BinOp::In,
            Op::NotIn => BinOp::NotIn,
        }
    }
    pub fn is_cmp(self) -> bool {
        Op::CMP.contains(&self)
    }
    pub fn is_arith(self) -> bool {
        Op::ARITH.contains(&self)
    }
}

/// Expression model.  Invariants kept by the strategies (what the parser can produce before
/// folding): `Int(n)` has n >= 0, `Float(f)` is finite with positive sign, strings contain no
/// quote / backslash / newline.  Negative numbers are `Neg(..)`.
#[derive(Clone, Debug, PartialEq, Serialize, Deserialize)]
pub enum E {
    Null,
    Bool(bool),
    Int(i64),
    Float(F),
    Str(String),
    Id(String),
    Neg(Box<E>),
    Not(Box<E>),
    Bin(Op, Box<E>, Box<E>),
    Call(String, Vec<E>),
    If(Box<E>, Box<E>, Box<E>),
    Arr(Vec<E>),
    Idx(Box<E>, Box<E>),
    /// `c[s:e]`
    Slice(Box<E>, Option<Box<E>>, Option<Box<E>>),
    /// `(a..b)` / `(a..=b)`
    Range(Box<E>, Box<E>, bool),
    /// `{"k": e}`
    Map(Vec<(String, E)>),
    /// `x.name`
    Member(Box<E>, String),
    /// `x?.name`
    OptMember(Box<E>, String),
    /// duration literal in whole seconds, `5s`
    DurS(u32),
    /// timestamp literal `@2024-01-0D` (day 1..=9)
    TsDay(u8),
    /// `p => body`
    Lambda(String, Box<E>),
}

impl E {
    pub fn id(s: &str) -> E {
        E::Id(s.to_string())
    }
    pub fn bin(op: Op, l: E, r: E) -> E {
        E::Bin(op, Box::new(l), Box::new(r))
    }
    pub fn call(name: &str, args: Vec<E>) -> E {
        E::Call(name.to_string(), args)
    }
    /// literal expression denoting a scalar value (numbers: finite only); None if it has no literal form
    pub fn lit(v: &V) -> Option<E> {
        Some(match v {
            V::Null => E::Null,
            V::Bool(b) => E::Bool(*b),
            V::Int(i) if *i == i64::MIN => E::bin(Op::Sub, E::Neg(Box::new(E::Int(i64::MAX))), E::Int(1)),
            V::Int(i) if *i < 0 => E::Neg(Box::new(E::Int(-*i))),
            V::Int(i) => E::Int(*i),
            V::Float(f) if !f.0.is_finite() => return None,
            V::Float(f) if f.0.is_sign_negative() => E::Neg(Box::new(E::Float(F(-f.0)))),
            V::Float(f) => E::Float(*f),
            V::Str(s) if s.contains(['"', '\\', '\n', '\r']) => return None,
            V::Str(s) => E::Str(s.clone()),
            _ => return None,
        })
    }

    pub fn to_ast(&self) -> Expr {
        match self {
            E::Null => Expr::Null,
            E::Bool(b) => Expr::Bool(*b),
            E::Int(i) => Expr::Int(*i),
            E::Float(f) => Expr::Float(f.0),
            E::Str(s) => Expr::Str(s.clone()),
            E::Id(s) => Expr::Ident(s.clone()),
            E::Neg(e) => Expr::Unary { op: UnaryOp::Neg, expr: Box::new(e.to_ast()) },
            E::Not(e) => Expr::Unary { op: UnaryOp::Not, expr: Box::new(e.to_ast()) },
            E::Bin(op, l, r) => Expr::Binary { op: op.to_binop(), left: Box::new(l.to_ast()), right: Box::new(r.to_ast()) },
            E::Call(n, args) => Expr::Call { func: Box::new(Expr::Ident(n.clone())), args: args.iter().map(|a| Arg::Positional(a.to_ast())).collect() },
            E::If(c, a, b) => Expr::If { cond: Box::new(c.to_ast()), then_branch: Box::new(a.to_ast()), else_branch: Box::new(b.to_ast()) },
            E::Arr(items) => Expr::Array(items.iter().map(|a| a.to_ast()).collect()),
            E::Idx(c, i) => Expr::Index { expr: Box::new(c.to_ast()), index: Box::new(i.to_ast()) },
            E::Slice(c, s, e) => Expr::Slice { expr: Box::new(c.to_ast()), start: s.as_ref().map(|x| Box::new(x.to_ast())), end: e.as_ref().map(|x| Box::new(x.to_ast())) },
            E::Range(a, b, inc) => Expr::Range { start: Box::new(a.to_ast()), end: Box::new(b.to_ast()), inclusive: *inc },
            E::Map(m) => Expr::Map(m.iter().map(|(k, v)| (k.clone(), v.to_ast())).collect()),
            E::Member(x, n) => Expr::Member { expr: Box::new(x.to_ast()), member: n.clone() },
            E::OptMember(x, n) => Expr::OptionalMember { expr: Box::new(x.to_ast()), member: n.clone() },
            E::DurS(s) => Expr::Duration(*s as u64 * 1_000_000_000),
            E::TsDay(d) => Expr::Timestamp(ts_day_ns(*d)),
            E::Lambda(p, b) => Expr::Lambda { params: vec![p.clone()], body: Box::new(b.to_ast()) },
        }
    }

    fn atom(&self) -> bool {
        matches!(self, E::Null | E::Bool(_) | E::Int(_) | E::Float(_) | E::Str(_) | E::Id(_) | E::Call(..) | E::Arr(_) | E::Map(_) | E::DurS(_) | E::TsDay(_))
    }
    fn sub(&self) -> String {
        if self.atom() {
            self.render()
        } else {
            format!("({})", self.render())
        }
    }
    /// VPL text; every compound operand is parenthesised so no precedence rule is relied upon
    pub fn render(&self) -> String {
        match self {
            E::Null => "null".into(),
            E::Bool(b) => format!("{}", b),
            E::Int(i) => format!("{}", i),
            E::Float(f) => float_text(f.0),
            E::Str(s) => format!("\"{}\"", s),
            E::Id(s) => s.clone(),
            E::Neg(e) => format!("-{}", e.sub()),
            E::Not(e) => format!("not {}", e.sub()),
            E::Bin(op, l, r) => format!("{} {} {}", l.sub(), op.sym(), r.sub()),
            E::Call(n, args) => format!("{}({})", n, args.iter().map(|a| a.render()).collect::<Vec<_>>().join(", ")),
            E::If(c, a, b) => format!("if {} then {} else {}", c.sub(), a.sub(), b.sub()),
            E::Arr(items) => format!("[{}]", items.iter().map(|a| a.render()).collect::<Vec<_>>().join(", ")),
            E::Idx(c, i) => format!("({})[{}]", c.render(), i.render()),
            E::Slice(c, s, e) => format!("({})[{}:{}]", c.render(), s.as_ref().map(|x| x.sub()).unwrap_or_default(), e.as_ref().map(|x| x.sub()).unwrap_or_default()),
            E::Range(a, b, inc) => format!("{}{}{}", a.sub(), if *inc { "..=" } else { ".." }, b.sub()),
            E::Map(m) => format!("{{{}}}", m.iter().map(|(k, v)| format!("\"{}\": {}", k, v.render())).collect::<Vec<_>>().join(", ")),
            E::Member(x, n) => format!("{}.{}", x.sub(), n),
            E::OptMember(x, n) => format!("{}?.{}", x.sub(), n),
            E::DurS(s) => format!("{}s", s),
            E::TsDay(d) => format!("@2024-01-0{}", (*d).clamp(1, 9)),
            E::Lambda(p, b) => format!("{} => {}", p, b.sub()),
        }
    }
    pub fn depth(&self) -> usize {
        match self {
            E::Neg(e) | E::Not(e) => 1 + e.depth(),
            E::Bin(_, l, r) | E::Idx(l, r) => 1 + l.depth().max(r.depth()),
            E::Call(_, a) | E::Arr(a) => 1 + a.iter().map(|x| x.depth()).max().unwrap_or(0),
            E::If(c, a, b) => 1 + c.depth().max(a.depth()).max(b.depth()),
            E::Slice(c, s, e) => 1 + c.depth().max(s.as_ref().map(|x| x.depth()).unwrap_or(0)).max(e.as_ref().map(|x| x.depth()).unwrap_or(0)),
            E::Range(a, b, _) => 1 + a.depth().max(b.depth()),
            E::Map(m) => 1 + m.iter().map(|(_, x)| x.depth()).max().unwrap_or(0),
            E::Member(x, _) | E::OptMember(x, _) | E::Lambda(_, x) => 1 + x.depth(),
            _ => 0,
        }
    }
    pub fn has_ident(&self) -> bool {
        match self {
            E::Id(_) => true,
            E::Neg(e) | E::Not(e) => e.has_ident(),
            E::Bin(_, l, r) | E::Idx(l, r) => l.has_ident() || r.has_ident(),
            E::Call(_, a) | E::Arr(a) => a.iter().any(|x| x.has_ident()),
            E::If(c, a, b) => c.has_ident() || a.has_ident() || b.has_ident(),
            E::Slice(c, s, e) => c.has_ident() || s.as_ref().is_some_and(|x| x.has_ident()) || e.as_ref().is_some_and(|x| x.has_ident()),
            E::Range(a, b, _) => a.has_ident() || b.has_ident(),
            E::Map(m) => m.iter().any(|(_, x)| x.has_ident()),
            E::Member(x, _) | E::OptMember(x, _) | E::Lambda(_, x) => x.has_ident(),
            _ => false,
        }
    }
}

/// nanoseconds since the epoch of 2024-01-0D 00:00:00 UTC (what the parser yields for `@2024-01-0D`)
pub fn ts_day_ns(d: u8) -> i64 {
    let d = d.clamp(1, 9) as i64;
    // 2024-01-01T00:00:00Z = 1704067200 s
    (1_704_067_200 + (d - 1) * 86_400) * 1_000_000_000
}

/// non-negative finite float in the grammar's `digits "." digits (e[+-]digits)?` form, round-trip exact
pub fn float_text(f: f64) -> String {
    let mut s = format!("{:?}", f);
    if !s.contains('.') {
        match s.find('e') {
            Some(p) => s.insert_str(p, ".0"),
            None => s.push_str(".0"),
        }
    }
    s
}

/// `optimize::fold_program` applied to one expression (through a `Stmt::Expr` wrapper)
pub fn fold(e: &Expr) -> Expr {
    let p = Program { statements: vec![Spanned::dummy(Stmt::Expr(e.clone()))] };
    let mut out = varpulis_parser::optimize::fold_program(p);
    match out.statements.pop().map(|s| s.node) {
        Some(Stmt::Expr(x)) => x,
        other => panic!("fold_program changed the statement kind: {:?}", other),
    }
}

/// parse `stream S = A.where(<text>)` and return the (already folded) filter expression
pub fn parse_expr(text: &str) -> Result<Expr, String> {
    let src = format!("stream S = A.where({})", text);
    let p = varpulis_parser::parse(&src).map_err(|e| format!("{}", e))?;
    for s in p.statements {
        if let Stmt::StreamDecl { ops, .. } = s.node {
            for op in ops {
                if let StreamOp::Where(e) = op {
                    return Ok(e);
                }
            }
        }
    }
    Err("no where op in parsed program".into())
}
