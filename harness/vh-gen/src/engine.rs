//! Thin driver around the real `Engine`: parse + load VPL text, feed events through
//! any entry point, drain outputs after every call.

use crate::{Ev, OutEv};
use tokio::sync::mpsc;
use varpulis_runtime::engine::Engine;
use varpulis_runtime::event::Event;

pub const OUT_CAP: usize = 100_000;

pub struct Eng {
    pub engine: Engine,
    pub rx: mpsc::Receiver<Event>,
    pub rt: tokio::runtime::Runtime,
}

pub fn parse(src: &str) -> Result<varpulis_core::ast::Program, String> {
    varpulis_parser::parse(src).map_err(|e| format!("parse: {}", e))
}

impl Eng {
    pub fn new(src: &str) -> Result<Eng, String> {
        let program = parse(src)?;
        Eng::from_program(&program)
    }
    pub fn from_program(program: &varpulis_core::ast::Program) -> Result<Eng, String> {
        let (tx, rx) = mpsc::channel(OUT_CAP);
        let mut engine = Engine::new(tx);
        engine.load(program).map_err(|e| format!("load: {}", e))?;
        let rt = tokio::runtime::Builder::new_current_thread().enable_all().build().map_err(|e| e.to_string())?;
        Ok(Eng { engine, rx, rt })
    }
    pub fn drain(&mut self) -> Vec<Event> {
        let mut out = vec![];
        while let Ok(e) = self.rx.try_recv() {
            out.push(e);
        }
        out
    }
    pub fn process(&mut self, ev: &Ev) -> Result<Vec<Event>, String> {
        let e = ev.to_event();
        self.rt.block_on(self.engine.process(e))?;
        Ok(self.drain())
    }
    pub fn process_event(&mut self, e: Event) -> Result<Vec<Event>, String> {
        self.rt.block_on(self.engine.process(e))?;
        Ok(self.drain())
    }
    pub fn process_all(&mut self, evs: &[Ev]) -> Result<Vec<Event>, String> {
        let mut out = vec![];
        for e in evs {
            out.extend(self.process(e)?);
        }
        Ok(out)
    }
    pub fn process_batch(&mut self, evs: &[Ev]) -> Result<Vec<Event>, String> {
        let b: Vec<Event> = evs.iter().map(|e| e.to_event()).collect();
        self.rt.block_on(self.engine.process_batch(b))?;
        Ok(self.drain())
    }
    pub fn process_batch_sync(&mut self, evs: &[Ev]) -> Result<Vec<Event>, String> {
        let b: Vec<Event> = evs.iter().map(|e| e.to_event()).collect();
        self.engine.process_batch_sync(b)?;
        Ok(self.drain())
    }
    pub fn process_batch_shared(&mut self, evs: &[Ev]) -> Result<Vec<Event>, String> {
        let b: Vec<_> = evs.iter().map(|e| std::sync::Arc::new(e.to_event())).collect();
        self.rt.block_on(self.engine.process_batch_shared(b))?;
        Ok(self.drain())
    }
}

pub fn norm(evs: &[Event]) -> Vec<OutEv> {
    evs.iter().map(OutEv::from_event).collect()
}

pub fn sorted(mut v: Vec<OutEv>) -> Vec<OutEv> {
    v.sort();
    v
}
