//! Sequence-pattern model for C01/C02/C03/C04/C05: a small typed pattern language that is
//! rendered to VPL text (so parser -> compiler -> SASE engine is what is tested), an
//! independent filter evaluator, and the reference "earliest completion" semantics.

use crate::{Ev, V};
use proptest::prelude::*;
use serde::{Deserialize, Serialize};
use std::collections::BTreeMap;

pub const TYPES: [&str; 4] = ["A", "B", "C", "D"];
pub const ALIASES: [&str; 4] = ["a", "b", "c", "d"];

#[derive(Clone, Copy, Debug, PartialEq, Eq, Serialize, Deserialize)]
pub enum Op {
    Lt,
    Le,
    Gt,
    Ge,
    Eq,
    Ne,
}

impl Op {
    pub fn text(&self) -> &'static str {
        match self {
            Op::Lt => "<",
            Op::Le => "<=",
            Op::Gt => ">",
            Op::Ge => ">=",
            Op::Eq => "==",
            Op::Ne => "!=",
        }
    }
    pub fn holds(&self, o: std::cmp::Ordering) -> bool {
        use std::cmp::Ordering::*;
        match self {
            Op::Lt => o == Less,
            Op::Le => o != Greater,
            Op::Gt => o == Greater,
            Op::Ge => o != Less,
            Op::Eq => o == Equal,
            Op::Ne => o != Equal,
        }
    }
}

/// Step / not-clause filter.  `field` is a field of the *current* event.
#[derive(Clone, Debug, PartialEq, Serialize, Deserialize)]
pub enum Filter {
    /// `field op const`
    Const { field: String, op: Op, c: V },
    /// `field op alias.rfield`  (SASE CompareRef path)
    Ref { field: String, op: Op, alias: String, rfield: String },
    /// `alias.rfield op field`  (falls back to the expression evaluator path)
    RefLeft { alias: String, rfield: String, op: Op, field: String },
    And(Box<Filter>, Box<Filter>),
    Or(Box<Filter>, Box<Filter>),
    Not(Box<Filter>),
}

fn lit(v: &V) -> String {
    match v {
        V::Int(i) => {
            if *i < 0 {
                format!("({})", i)
            } else {
                format!("{}", i)
            }
        }
        V::Float(f) => {
            let s = format!("{:?}", f.0);
            if f.0 < 0.0 {
                format!("({})", s)
            } else {
                s
            }
        }
        V::Str(s) => format!("\"{}\"", s),
        V::Bool(b) => format!("{}", b),
        _ => "null".into(),
    }
}

impl Filter {
    pub fn render(&self) -> String {
        match self {
            Filter::Const { field, op, c } => format!("{} {} {}", field, op.text(), lit(c)),
            Filter::Ref { field, op, alias, rfield } => format!("{} {} {}.{}", field, op.text(), alias, rfield),
            Filter::RefLeft { alias, rfield, op, field } => format!("{}.{} {} {}", alias, rfield, op.text(), field),
            Filter::And(a, b) => format!("({} and {})", a.render(), b.render()),
            Filter::Or(a, b) => format!("({} or {})", a.render(), b.render()),
            Filter::Not(a) => format!("not ({})", a.render()),
        }
    }
    pub fn aliases(&self, out: &mut Vec<String>) {
        match self {
            Filter::Const { .. } => {}
            Filter::Ref { alias, .. } | Filter::RefLeft { alias, .. } => out.push(alias.clone()),
            Filter::And(a, b) | Filter::Or(a, b) => {
                a.aliases(out);
                b.aliases(out);
            }
            Filter::Not(a) => a.aliases(out),
        }
    }
    pub fn has_ref(&self) -> bool {
        let mut v = vec![];
        self.aliases(&mut v);
        !v.is_empty()
    }
    /// Independent evaluation.  `None` = not decidable in the harness's domain (missing
    /// field / type mix) — generators avoid that, callers discard such cases.
    pub fn eval(&self, ev: &Ev, caps: &BTreeMap<String, &Ev>) -> Option<bool> {
        match self {
            Filter::Const { field, op, c } => cmp(ev.get(field)?, c).map(|o| op.holds(o)),
            Filter::Ref { field, op, alias, rfield } => {
                let r = caps.get(alias)?.get(rfield)?;
                cmp(ev.get(field)?, r).map(|o| op.holds(o))
            }
            Filter::RefLeft { alias, rfield, op, field } => {
                let r = caps.get(alias)?.get(rfield)?;
                cmp(r, ev.get(field)?).map(|o| op.holds(o))
            }
            Filter::And(a, b) => Some(a.eval(ev, caps)? && b.eval(ev, caps)?),
            Filter::Or(a, b) => Some(a.eval(ev, caps)? || b.eval(ev, caps)?),
            Filter::Not(a) => Some(!a.eval(ev, caps)?),
        }
    }
}

/// comparison within one type only (int/int, float/float (finite), str/str, bool eq)
fn cmp(a: &V, b: &V) -> Option<std::cmp::Ordering> {
    match (a, b) {
        (V::Int(x), V::Int(y)) => Some(x.cmp(y)),
        (V::Float(x), V::Float(y)) if x.0.is_finite() && y.0.is_finite() => x.0.partial_cmp(&y.0),
        (V::Str(x), V::Str(y)) => Some(x.cmp(y)),
        _ => None,
    }
}

#[derive(Clone, Debug, PartialEq, Serialize, Deserialize)]
pub struct Step {
    pub ty: String,
    pub alias: String,
    pub all: bool,
    pub filter: Option<Filter>,
}

#[derive(Clone, Debug, PartialEq, Serialize, Deserialize)]
pub struct NotClause {
    pub ty: String,
    pub filter: Option<Filter>,
}

#[derive(Clone, Debug, PartialEq, Serialize, Deserialize)]
pub struct Pat {
    pub steps: Vec<Step>,
    pub partition: bool,
    pub not: Option<NotClause>,
    /// true: `sequence(a: A where f, ...)` surface form (no `all`); false: `A as a -> B where f as b`
    pub seq_form: bool,
}

pub const KEY: &str = "k";

impl Pat {
    pub fn has_all(&self) -> bool {
        self.steps.iter().any(|s| s.all)
    }
    /// arrow form cannot carry a filter on its first step
    pub fn can_arrow(&self) -> bool {
        self.steps[0].filter.is_none() && self.steps.len() >= 2
    }
    pub fn can_seq_form(&self) -> bool {
        !self.has_all()
    }
    /// VPL source of a stream `M` emitting one `<alias>_id` per step (plus `<alias>_k`).
    pub fn render(&self, stream: &str) -> String {
        let mut s = String::new();
        if self.seq_form {
            let steps: Vec<String> = self
                .steps
                .iter()
                .map(|st| match &st.filter {
                    Some(f) => format!("{}: {} where {}", st.alias, st.ty, f.render()),
                    None => format!("{}: {}", st.alias, st.ty),
                })
                .collect();
            s.push_str(&format!("stream {} = sequence({})\n", stream, steps.join(", ")));
        } else {
            let f = &self.steps[0];
            if f.all {
                s.push_str(&format!("stream {} = all {} as {}\n", stream, f.ty, f.alias));
            } else {
                s.push_str(&format!("stream {} = {} as {}\n", stream, f.ty, f.alias));
            }
            for st in &self.steps[1..] {
                s.push_str("    -> ");
                if st.all {
                    s.push_str("all ");
                }
                s.push_str(&st.ty);
                if let Some(f) = &st.filter {
                    s.push_str(&format!(" where {}", f.render()));
                }
                s.push_str(&format!(" as {}\n", st.alias));
            }
        }
        if self.partition {
            s.push_str(&format!("    .partition_by({})\n", KEY));
        }
        if let Some(n) = &self.not {
            match &n.filter {
                Some(f) => s.push_str(&format!("    .not({} where {})\n", n.ty, f.render())),
                None => s.push_str(&format!("    .not({})\n", n.ty)),
            }
        }
        let em: Vec<String> = self.steps.iter().map(|st| format!("{a}_id: {a}.id", a = st.alias)).collect();
        s.push_str(&format!("    .emit({})\n", em.join(", ")));
        s
    }
    pub fn types(&self) -> Vec<String> {
        let mut t: Vec<String> = self.steps.iter().map(|s| s.ty.clone()).collect();
        if let Some(n) = &self.not {
            t.push(n.ty.clone());
        }
        t.sort();
        t.dedup();
        t
    }
}

/// partition value of an event as the engine sees it (None = missing key)
pub fn key_of(ev: &Ev) -> Option<String> {
    ev.get(KEY).map(|v| match v {
        V::Int(i) => i.to_string(),
        V::Str(s) => s.clone(),
        other => other.canon(),
    })
}

// ------------------------------------------------------------------ strategies

#[derive(Clone, Copy, Debug, PartialEq, Eq, Serialize, Deserialize)]
pub enum VKind {
    Int,
    Float,
}

fn vval(kind: VKind) -> BoxedStrategy<V> {
    match kind {
        VKind::Int => (-2i64..5).prop_map(V::Int).boxed(),
        VKind::Float => (-4i32..10).prop_map(|i| V::f(i as f64 * 0.5)).boxed(),
    }
}

fn op() -> impl Strategy<Value = Op> {
    prop_oneof![Just(Op::Lt), Just(Op::Le), Just(Op::Gt), Just(Op::Ge), Just(Op::Eq), Just(Op::Ne)]
}

/// atomic filter for a step that may reference `aliases` (earlier steps)
fn atom(kind: VKind, aliases: Vec<String>) -> BoxedStrategy<Filter> {
    let c = prop_oneof![
        3 => (op(), vval(kind)).prop_map(|(op, c)| Filter::Const { field: "v".into(), op, c }),
        1 => (prop_oneof![Just(Op::Eq), Just(Op::Ne)], prop_oneof![Just("x"), Just("y")]).prop_map(|(op, s)| Filter::Const { field: "s".into(), op, c: V::s(s) }),
    ];
    if aliases.is_empty() {
        c.boxed()
    } else {
        let a1 = aliases.clone();
        let a2 = aliases;
        prop_oneof![
            3 => c,
            3 => (op(), proptest::sample::select(a1)).prop_map(|(op, alias)| Filter::Ref { field: "v".into(), op, alias, rfield: "v".into() }),
            1 => (op(), proptest::sample::select(a2.clone())).prop_map(|(op, alias)| Filter::RefLeft { alias, rfield: "v".into(), op, field: "v".into() }),
            1 => (prop_oneof![Just(Op::Eq), Just(Op::Ne)], proptest::sample::select(a2)).prop_map(|(op, alias)| Filter::Ref { field: "s".into(), op, alias, rfield: "s".into() }),
        ]
        .boxed()
    }
}

pub fn filter(kind: VKind, aliases: Vec<String>) -> BoxedStrategy<Filter> {
    let a = atom(kind, aliases.clone());
    let b = atom(kind, aliases.clone());
    let c = atom(kind, aliases);
    prop_oneof![
        5 => a.clone(),
        1 => (a.clone(), b.clone()).prop_map(|(x, y)| Filter::And(Box::new(x), Box::new(y))),
        1 => (a.clone(), b).prop_map(|(x, y)| Filter::Or(Box::new(x), Box::new(y))),
        1 => c.prop_map(|x| Filter::Not(Box::new(x))),
    ]
    .boxed()
}

#[derive(Clone, Copy, Debug)]
pub struct PatOpts {
    pub allow_all: bool,
    pub allow_not: bool,
    pub allow_partition: bool,
    pub max_steps: usize,
}

/// Pattern strategy.  Types are drawn from the first `ntypes` of TYPES so that streams hit often.
pub fn pat(kind: VKind, o: PatOpts) -> BoxedStrategy<Pat> {
    (1..=o.max_steps, proptest::collection::vec((0usize..3, any::<bool>(), 0u8..10, any::<u64>()), 4), 0u8..10, 0u8..10, 0usize..4, any::<bool>(), any::<u64>())
        .prop_flat_map(move |(n, raw, part, notp, not_ty, seq_form, _salt)| {
            // build steps with filters that may only reference earlier aliases
            let mut step_strats: Vec<BoxedStrategy<Step>> = vec![];
            for (i, (ty, all, fsel, _)) in raw.iter().take(n).enumerate() {
                let ty = TYPES[*ty].to_string();
                let alias = ALIASES[i].to_string();
                let earlier: Vec<String> = ALIASES[..i].iter().map(|s| s.to_string()).collect();
                let all = o.allow_all && *all && (n > 1);
                let want_filter = *fsel < 6;
                let st: BoxedStrategy<Step> = if want_filter {
                    filter(kind, earlier).prop_map(move |f| Step { ty: ty.clone(), alias: alias.clone(), all, filter: Some(f) }).boxed()
                } else {
                    Just(Step { ty, alias, all, filter: None }).boxed()
                };
                step_strats.push(st);
            }
            let partition = o.allow_partition && part < 4;
            let want_not = o.allow_not && notp < 4;
            let not_ty = TYPES[not_ty].to_string();
            let not_s: BoxedStrategy<Option<NotClause>> = if want_not {
                let nt = not_ty.clone();
                prop_oneof![
                    1 => Just(Some(NotClause { ty: nt.clone(), filter: None })),
                    2 => filter(kind, vec!["a".to_string()]).prop_map(move |f| Some(NotClause { ty: nt.clone(), filter: Some(f) })),
                ]
                .boxed()
            } else {
                Just(None).boxed()
            };
            (step_strats, not_s).prop_map(move |(steps, not)| {
                let mut p = Pat { steps, partition, not, seq_form };
                normalise(&mut p);
                p
            })
        })
        .boxed()
}

/// Make the pattern expressible in one of the two surface forms and keep the `.not`
/// clause inside the judged domain (see DESIGN §2.3).
pub fn normalise(p: &mut Pat) {
    // an `all` step cannot be written in sequence() form
    if p.has_all() {
        p.seq_form = false;
    }
    if !p.seq_form && !p.can_arrow() {
        if p.can_seq_form() && p.steps.len() < 2 {
            p.seq_form = true;
        } else {
            // arrow form: drop the first-step filter
            p.steps[0].filter = None;
            if p.steps.len() < 2 {
                p.steps[0].all = false;
                p.seq_form = true;
            }
        }
    }
    if p.steps.len() == 1 {
        p.steps[0].all = false;
        p.seq_form = true;
    }
    if let Some(n) = &mut p.not {
        // sentinel events use the first step's type: the not-clause must not name it
        if n.ty == p.steps[0].ty {
            n.ty = TYPES.iter().find(|t| **t != p.steps[0].ty).unwrap().to_string();
        }
        // references to `a` only make sense when `a` is a single captured event
        if p.steps[0].all {
            if let Some(f) = &n.filter {
                if f.has_ref() {
                    n.filter = None;
                }
            }
        }
    }
}

/// Events over the pattern's alphabet: unique ids 1.., key in 1..=nkeys (or missing), v, s.
pub fn events(kind: VKind, max: usize, nkeys: i64, missing_key: bool, str_keys: bool) -> BoxedStrategy<Vec<Ev>> {
    let one = (0usize..4, 0i64..nkeys.max(1), 0u8..10, vval(kind), prop_oneof![Just("x"), Just("y")]);
    proptest::collection::vec(one, 0..max)
        .prop_map(move |raw| {
            raw.into_iter()
                .enumerate()
                .map(|(i, (ty, k, miss, v, s))| {
                    let mut e = Ev::new(TYPES[ty], (i as i64) * 10).with("id", V::Int(i as i64 + 1));
                    if !(missing_key && miss == 0) {
                        e = e.with(KEY, if str_keys { V::Str(format!("key{}", k + 1)) } else { V::Int(k + 1) });
                    }
                    e.with("v", v).with("s", V::s(s))
                })
                .collect()
        })
        .boxed()
}

/// Sentinel events (reserved ids >= 1_000_000) that flush runs sitting in the accept state:
/// one per partition value present (and one for the missing key), of the first step's type.
pub const SENTINEL_BASE: i64 = 1_000_000;

pub fn sentinels(p: &Pat, evs: &[Ev], kind: VKind) -> Vec<Ev> {
    let mut out = vec![];
    let v = match kind {
        VKind::Int => V::Int(0),
        VKind::Float => V::f(0.0),
    };
    let base_ts = evs.len() as i64 * 10 + 100;
    let mk = |n: i64, key: Option<V>| {
        let mut e = Ev::new(&p.steps[0].ty, base_ts + n).with("id", V::Int(SENTINEL_BASE + n));
        if let Some(k) = key {
            e = e.with(KEY, k);
        }
        e.with("v", v.clone()).with("s", V::s("x"))
    };
    if p.partition {
        let mut keys: Vec<Option<V>> = vec![];
        for e in evs {
            let k = e.get(KEY).cloned();
            if !keys.contains(&k) {
                keys.push(k);
            }
        }
        for (i, k) in keys.into_iter().enumerate() {
            out.push(mk(i as i64, k));
        }
    } else {
        out.push(mk(0, Some(V::Int(1))));
    }
    out
}

// ------------------------------------------------------------------ reference semantics (no `all`)

#[derive(Clone, Debug, PartialEq, Eq, PartialOrd, Ord)]
pub struct RefMatch {
    pub ids: Vec<i64>,
}

pub struct RefResult {
    /// matches that must be emitted exactly once
    pub definite: Vec<RefMatch>,
    /// matches whose completing event itself satisfies the `.not` clause: the statement does not decide them
    pub either: Vec<RefMatch>,
    /// some filter was undecidable in the harness domain (generator bug)
    pub undecidable: bool,
    /// number of start events whose run was killed by a not-event
    pub killed_by_not: usize,
    /// max number of simultaneously open runs
    pub max_open: usize,
}

/// Earliest-completion semantics of C02: for every event that satisfies step 1, walk forward
/// taking at every step the first later event of the same partition that satisfies the step
/// under the current captures; a not-event (any partition: the clause is per stream)
/// arriving before the completion kills the start.
pub fn reference(p: &Pat, evs: &[Ev]) -> RefResult {
    let mut res = RefResult { definite: vec![], either: vec![], undecidable: false, killed_by_not: 0, max_open: 0 };
    let n = p.steps.len();
    let mut open_intervals: Vec<(usize, usize)> = vec![];
    for i in 0..evs.len() {
        let e0 = &evs[i];
        let s0 = &p.steps[0];
        if e0.ty != s0.ty {
            continue;
        }
        let empty: BTreeMap<String, &Ev> = BTreeMap::new();
        match s0.filter.as_ref().map(|f| f.eval(e0, &empty)) {
            Some(None) => {
                res.undecidable = true;
                continue;
            }
            Some(Some(false)) => continue,
            _ => {}
        }
        let part = key_of(e0);
        let mut caps: BTreeMap<String, &Ev> = BTreeMap::new();
        caps.insert(s0.alias.clone(), e0);
        let mut ids = vec![e0.id()];
        let mut next = 1;
        let mut end = evs.len();
        if next == n {
            res.definite.push(RefMatch { ids });
            continue;
        }
        let mut m = i + 1;
        while m < evs.len() {
            let e = &evs[m];
            // not-clause first (engine order; also the statement: "before that completion")
            let mut not_hit = false;
            if let Some(nc) = &p.not {
                if e.ty == nc.ty {
                    not_hit = match &nc.filter {
                        None => true,
                        Some(f) => match f.eval(e, &caps) {
                            Some(b) => b,
                            None => {
                                res.undecidable = true;
                                false
                            }
                        },
                    };
                }
            }
            let st = &p.steps[next];
            let same_part = !p.partition || key_of(e) == part;
            let step_ok = same_part
                && e.ty == st.ty
                && match st.filter.as_ref().map(|f| f.eval(e, &caps)) {
                    Some(None) => {
                        res.undecidable = true;
                        false
                    }
                    Some(Some(b)) => b,
                    None => true,
                };
            if not_hit {
                if step_ok && next + 1 == n {
                    // the completing event itself satisfies the not clause: undecided by the statement
                    let mut ids2 = ids.clone();
                    ids2.push(e.id());
                    res.either.push(RefMatch { ids: ids2 });
                }
                res.killed_by_not += 1;
                end = m;
                ids.clear();
                break;
            }
            if step_ok {
                caps.insert(st.alias.clone(), e);
                ids.push(e.id());
                next += 1;
                if next == n {
                    res.definite.push(RefMatch { ids: ids.clone() });
                    end = m;
                    ids.clear();
                    break;
                }
            }
            m += 1;
        }
        open_intervals.push((i, end));
    }
    // max overlap of run lifetimes
    for &(s, _) in &open_intervals {
        let c = open_intervals.iter().filter(|(a, b)| *a <= s && s < *b).count();
        res.max_open = res.max_open.max(c);
    }
    res
}

// ------------------------------------------------------------------ direct SaseEngine construction

/// Build a `SaseEngine` for the stream `stream` of VPL source `src` the way `Engine::load`
/// wires it (public compiler functions), so that `SaseEngine::process` can be driven
/// directly and the full match `stack` observed.
pub fn direct_sase(src: &str, stream: &str) -> Result<varpulis_runtime::sase::SaseEngine, String> {
    use varpulis_core::ast::{Stmt, StreamOp};
    use varpulis_runtime::engine::compiler;
    let program = varpulis_parser::parse(src).map_err(|e| format!("parse: {}", e))?;
    for st in &program.statements {
        if let Stmt::StreamDecl { name, source, ops, .. } = &st.node {
            if name != stream {
                continue;
            }
            let mut fb = vec![];
            let mut neg = vec![];
            let mut part = None;
            for op in ops {
                match op {
                    StreamOp::FollowedBy(c) => fb.push(c.clone()),
                    StreamOp::Not(c) => neg.push(c.clone()),
                    StreamOp::PartitionBy(varpulis_core::ast::Expr::Ident(f)) => part = Some(f.clone()),
                    _ => {}
                }
            }
            let resolver = |_: &str| -> Option<compiler::DerivedStreamInfo> { None };
            let pattern = compiler::compile_to_sase_pattern_with_resolver(source, &fb, &neg, None, &resolver).ok_or("pattern did not compile")?;
            let mut eng = varpulis_runtime::sase::SaseEngine::new(pattern);
            if let Some(k) = part {
                eng = eng.with_partition_by(k);
            }
            for c in &neg {
                let pred = c.filter.as_ref().and_then(compiler::expr_to_sase_predicate);
                eng.add_negation(c.event_type.clone(), pred);
            }
            return Ok(eng);
        }
    }
    Err(format!("stream {} not found", stream))
}

// ------------------------------------------------------------------ C01 validity predicate

/// One reported match: for every step the events attributed to it (ids, in stack order).
pub type StepIds = Vec<Vec<i64>>;

/// Validity of a reported match against the *input* events (C01).  Returns Err((sig, detail)).
pub fn validate_match(p: &Pat, evs: &[Ev], steps: &StepIds) -> Result<(), (String, String)> {
    let idx_of = |id: i64| evs.iter().position(|e| e.id() == id);
    let mut flat: Vec<(usize, usize)> = vec![]; // (step, event index)
    for (si, ids) in steps.iter().enumerate() {
        if ids.is_empty() {
            return Err(("step-without-event".into(), format!("step {} has no event", si)));
        }
        if !p.steps[si].all && ids.len() != 1 {
            return Err(("single-step-multiple-events".into(), format!("step {} has {:?}", si, ids)));
        }
        for id in ids {
            match idx_of(*id) {
                Some(i) => flat.push((si, i)),
                None => return Err(("unknown-event".into(), format!("id {} is not an input event", id))),
            }
        }
    }
    if !flat.windows(2).all(|w| w[0].1 < w[1].1) {
        return Err(("not-in-arrival-order".into(), format!("{:?}", steps)));
    }
    let part = key_of(&evs[flat[0].1]);
    let mut caps: BTreeMap<String, &Ev> = BTreeMap::new();
    for (si, ei) in &flat {
        let st = &p.steps[*si];
        let e = &evs[*ei];
        if e.ty != st.ty {
            return Err(("wrong-event-type".into(), format!("step {} expects {} got {} (id {})", si, st.ty, e.ty, e.id())));
        }
        if p.partition && key_of(e) != part {
            return Err(("mixed-partitions".into(), format!("ids {:?}", steps)));
        }
        if let Some(f) = &st.filter {
            match f.eval(e, &caps) {
                Some(true) => {}
                Some(false) => return Err(("step-filter-false".into(), format!("step {} filter `{}` false for id {} (captures {:?})", si, f.render(), e.id(), caps.iter().map(|(k, v)| (k.clone(), v.id())).collect::<Vec<_>>()))),
                None => return Err(("undecidable".into(), String::new())),
            }
        }
        caps.insert(st.alias.clone(), e);
    }
    if let Some(nc) = &p.not {
        let (first, last) = (flat[0].1, flat[flat.len() - 1].1);
        for m in first + 1..last {
            let e = &evs[m];
            if e.ty != nc.ty {
                continue;
            }
            // captures at the time the not-event arrived
            let mut caps: BTreeMap<String, &Ev> = BTreeMap::new();
            for (si, ei) in &flat {
                if *ei < m {
                    caps.insert(p.steps[*si].alias.clone(), &evs[*ei]);
                }
            }
            let hit = match &nc.filter {
                None => true,
                Some(f) => match f.eval(e, &caps) {
                    Some(b) => b,
                    None => return Err(("undecidable".into(), String::new())),
                },
            };
            if hit {
                return Err(("not-event-inside-match".into(), format!("event id {} satisfies the .not clause between ids {} and {}", e.id(), evs[first].id(), evs[last].id())));
            }
        }
    }
    Ok(())
}
