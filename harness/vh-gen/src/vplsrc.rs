//! VPL *source text* generation for the text-level properties (parser, language server,
//! connector injection): the on-disk corpus of `.vpl` / `.evt` files, a tape-driven
//! program generator over the pest grammar, a tokeniser and grammar-aware /
//! byte-level mutation operators.
//!
//! Everything is driven by a `Tape` (a `Vec<u16>` drawn by proptest) so that a case is a
//! pure function of serialisable data and shrinks towards the first alternative of
//! every choice (a tape that ran out yields 0).

use std::path::{Path, PathBuf};
use std::sync::OnceLock;
use vh_common::idx::pick;

// ------------------------------------------------------------------ corpus

fn repo_root() -> PathBuf {
    PathBuf::from(std::env::var("VERIF_CORPUS_ROOT").unwrap_or_else(|_| "/repo".to_string()))
}

fn walk(dir: &Path, ext: &str, out: &mut Vec<PathBuf>, depth: usize) {
    if depth > 8 {
        return;
    }
    let Ok(rd) = std::fs::read_dir(dir) else { return };
    let mut entries: Vec<PathBuf> = rd.filter_map(|e| e.ok().map(|e| e.path())).collect();
    entries.sort();
    for p in entries {
        let name = p.file_name().and_then(|n| n.to_str()).unwrap_or("");
        if name == "target" || name == "node_modules" || name.starts_with('.') {
            continue;
        }
        if p.is_dir() {
            walk(&p, ext, out, depth + 1);
        } else if p.extension().and_then(|e| e.to_str()) == Some(ext) {
            out.push(p);
        }
    }
}

fn load(ext: &str) -> Vec<(String, String)> {
    let root = repo_root();
    let mut files = vec![];
    for sub in ["examples", "tests", "benchmarks", "demos", "docs", "crates"] {
        walk(&root.join(sub), ext, &mut files, 0);
    }
    files.sort();
    files
        .into_iter()
        .filter_map(|p| {
            let txt = std::fs::read_to_string(&p).ok()?;
            // keep the corpus handy for mutation: of very large files only the head is kept
            let mut txt = txt;
            if txt.len() > 64 * 1024 {
                let mut cut = 64 * 1024;
                while !txt.is_char_boundary(cut) {
                    cut -= 1;
                }
                let cut = txt[..cut].rfind('\n').map(|i| i + 1).unwrap_or(cut);
                txt.truncate(cut);
            }
            Some((p.strip_prefix(&root).unwrap_or(&p).display().to_string(), txt))
        })
        .collect()
}

/// All `.vpl` files of the repository (path relative to the repo root, text), sorted.
pub fn corpus_vpl() -> &'static [(String, String)] {
    static C: OnceLock<Vec<(String, String)>> = OnceLock::new();
    C.get_or_init(|| load("vpl"))
}

/// All `.evt` files of the repository (first 64 KiB of each), sorted.
pub fn corpus_evt() -> &'static [(String, String)] {
    static C: OnceLock<Vec<(String, String)>> = OnceLock::new();
    C.get_or_init(|| load("evt"))
}

// ------------------------------------------------------------------ tape

#[derive(Clone, Debug)]
pub struct Tape<'a> {
    data: &'a [u16],
    pos: usize,
}

impl<'a> Tape<'a> {
    pub fn new(data: &'a [u16]) -> Tape<'a> {
        Tape { data, pos: 0 }
    }
    pub fn next(&mut self) -> u16 {
        let v = self.data.get(self.pos).copied().unwrap_or(0);
        self.pos += 1;
        v
    }
    /// choice in 0..n, monotone in the tape value
    pub fn below(&mut self, n: usize) -> usize {
        pick(self.next(), n)
    }
    pub fn of<T: Copy>(&mut self, xs: &[T]) -> T {
        xs[self.below(xs.len())]
    }
    pub fn chance(&mut self, num: usize, den: usize) -> bool {
        self.below(den) >= den - num
    }
    pub fn exhausted(&self) -> bool {
        self.pos >= self.data.len()
    }
}

// ------------------------------------------------------------------ program generator

pub const EVENT_NAMES: &[&str] = &["Trade", "Sensor", "Login", "A", "B", "C", "Tick", "Order", "E1"];
pub const FIELD_NAMES: &[&str] = &["value", "price", "user_id", "temp", "x", "y", "symbol", "ts", "amount", "kind"];
pub const VAR_NAMES: &[&str] = &["a", "b", "n", "total", "acc", "i", "k", "thr", "input", "notify", "island", "format"];
pub const FN_NAMES: &[&str] = &["sum", "avg", "count", "max", "min", "abs", "len", "f", "helper", "last", "first"];
pub const TYPES: &[&str] = &["int", "float", "bool", "str", "timestamp", "duration", "[int]", "{str: float}", "(int, str)", "Stream<int>", "int?", "Trade", "[[str]]?"];
pub const STRINGS: &[&str] = &["\"\"", "\"abc\"", "\"a b\"", "\"x\\\"y\"", "\"tab\\t\"", "\"é日本\"", "\"😀\"", "\"#not a comment\"", "\"/* no */\"", "\"(\"", "\"back\\\\\""];
pub const DURATIONS: &[&str] = &["5s", "1m", "100ms", "2h", "1d", "10us", "7ns", "0s"];

fn ident(t: &mut Tape, pool: &[&str]) -> String {
    let base = t.of(pool);
    match t.below(6) {
        0..=3 => base.to_string(),
        4 => format!("{}{}", base, t.below(100)),
        _ => format!("_{}_x", base),
    }
}

fn literal(t: &mut Tape) -> String {
    match t.below(9) {
        0 => format!("{}", t.below(1000)),
        1 => format!("{}.{}", t.below(100), t.below(100)),
        2 => t.of(STRINGS).to_string(),
        3 => t.of(DURATIONS).to_string(),
        4 => "true".into(),
        5 => "false".into(),
        6 => "null".into(),
        7 => t.of(&["@2024-01-15", "@2024-01-15T10:30:00Z", "@2024-01-15T10:30:00+02:00"]).to_string(),
        _ => t.of(&["1.5e3", "2.0E-2", "9223372036854775807", "0", "00012", "99999999999999999999", "1.0e999"]).to_string(),
    }
}

pub fn expr(t: &mut Tape, depth: usize) -> String {
    if depth == 0 || t.exhausted() {
        return match t.below(3) {
            0 => ident(t, FIELD_NAMES),
            1 => literal(t),
            _ => format!("{}.{}", ident(t, VAR_NAMES), ident(t, FIELD_NAMES)),
        };
    }
    let d = depth - 1;
    match t.below(20) {
        0 => ident(t, FIELD_NAMES),
        1 => literal(t),
        2 => format!("{}.{}", ident(t, VAR_NAMES), ident(t, FIELD_NAMES)),
        3 => {
            let op = t.of(&["+", "-", "*", "/", "%", "**", "<<", ">>", "&", "|", "^"]);
            format!("{} {} {}", expr(t, d), op, expr(t, d))
        }
        4 => {
            let op = t.of(&["==", "!=", "<", ">", "<=", ">=", "in", "not in", "is"]);
            format!("{} {} {}", expr(t, d), op, expr(t, d))
        }
        5 => {
            let op = t.of(&["and", "or"]);
            format!("{} {} {}", expr(t, d), op, expr(t, d))
        }
        6 => format!("not {}", expr(t, d)),
        7 => format!("-{}", expr(t, d)),
        8 => format!("({})", expr(t, d)),
        9 => {
            let n = t.below(4);
            let args: Vec<String> = (0..n).map(|_| if t.chance(1, 4) { format!("{}: {}", ident(t, FIELD_NAMES), expr(t, d)) } else { expr(t, d) }).collect();
            format!("{}({})", ident(t, FN_NAMES), args.join(", "))
        }
        10 => {
            let n = t.below(4);
            let items: Vec<String> = (0..n).map(|_| expr(t, d)).collect();
            format!("[{}]", items.join(", "))
        }
        11 => {
            let n = t.below(3);
            let items: Vec<String> = (0..n)
                .map(|_| {
                    let k = if t.chance(1, 2) { t.of(STRINGS).to_string() } else { ident(t, FIELD_NAMES) };
                    format!("{}: {}", k, expr(t, d))
                })
                .collect();
            format!("{{{}}}", items.join(", "))
        }
        12 => format!("{}[{}]", ident(t, VAR_NAMES), expr(t, d)),
        13 => match t.below(4) {
            0 => format!("{}[{}:{}]", ident(t, VAR_NAMES), expr(t, 0), expr(t, 0)),
            1 => format!("{}[:{}]", ident(t, VAR_NAMES), expr(t, 0)),
            2 => format!("{}[{}:]", ident(t, VAR_NAMES), expr(t, 0)),
            _ => format!("{}[:]", ident(t, VAR_NAMES)),
        },
        14 => format!("if {} then {} else {}", expr(t, d), expr(t, d), expr(t, d)),
        15 => match t.below(3) {
            0 => format!("{} => {}", ident(t, VAR_NAMES), expr(t, d)),
            1 => format!("({}, {}) => {}", ident(t, VAR_NAMES), ident(t, VAR_NAMES), expr(t, d)),
            _ => format!("({}) => {{ let q = {}\n {} }}", ident(t, VAR_NAMES), expr(t, d), expr(t, d)),
        },
        16 => format!("{}..{}", expr(t, 0), expr(t, 0)),
        17 => format!("{}?.{}", ident(t, VAR_NAMES), ident(t, FIELD_NAMES)),
        18 => format!("{}.{}({})", ident(t, VAR_NAMES), ident(t, FN_NAMES), expr(t, d)),
        _ => format!("~{}", expr(t, d)),
    }
}

fn named_args(t: &mut Tape, depth: usize, min: usize) -> String {
    let n = min + t.below(3);
    (0..n).map(|_| format!("{}: {}", ident(t, FIELD_NAMES), expr(t, depth))).collect::<Vec<_>>().join(", ")
}

pub fn connector_params(t: &mut Tape) -> String {
    let n = t.below(4);
    (0..n)
        .map(|_| {
            let k = t.of(&["host", "port", "topic", "qos", "client_id", "url", "brokers", "tls"]);
            let v = match t.below(7) {
                0 => t.of(STRINGS).to_string(),
                1 => format!("{}", t.below(70000)),
                2 => "1.5".to_string(),
                3 => t.of(DURATIONS).to_string(),
                4 => "true".to_string(),
                5 => "[1, \"a\", [2s]]".to_string(),
                _ => ident(t, VAR_NAMES),
            };
            format!("{}: {}", k, v)
        })
        .collect::<Vec<_>>()
        .join(", ")
}

fn stream_op(t: &mut Tape, depth: usize) -> String {
    match t.below(34) {
        0 => format!(".where({})", expr(t, depth)),
        1 => format!(".select({}, {}: {})", ident(t, FIELD_NAMES), ident(t, FIELD_NAMES), expr(t, depth)),
        2 => match t.below(4) {
            0 => format!(".window({})", t.below(50) + 1),
            1 => format!(".window({})", t.of(DURATIONS)),
            2 => format!(".window({}, sliding: {})", t.of(DURATIONS), t.of(DURATIONS)),
            _ => format!(".window(session: {})", t.of(DURATIONS)),
        },
        3 => format!(".aggregate({})", named_args(t, depth.min(1), 1)),
        4 => format!(".having({})", expr(t, depth)),
        5 => format!(".partition_by({})", ident(t, FIELD_NAMES)),
        6 => format!(".order_by({} {})", ident(t, FIELD_NAMES), t.of(&["desc", "asc", ""])),
        7 => format!(".limit({})", t.below(100)),
        8 => format!(".distinct({})", if t.chance(1, 2) { ident(t, FIELD_NAMES) } else { String::new() }),
        9 => format!(".map({})", expr(t, depth)),
        10 => format!(".filter({})", expr(t, depth)),
        11 => format!(".tap({})", named_args(t, 0, 1)),
        12 => format!(".print({})", expr(t, 0)),
        13 => format!(".log({})", named_args(t, 0, 0)),
        14 => format!(".emit({})", named_args(t, depth, 0)),
        15 => format!(".emit as {}({})", ident(t, EVENT_NAMES), named_args(t, depth, 1)),
        16 => {
            let p = connector_params(t);
            format!(".to({}{}{})", ident(t, EVENT_NAMES), if p.is_empty() { "" } else { ", " }, p)
        }
        17 => format!(".pattern(p: {} -> {})", ident(t, EVENT_NAMES), ident(t, EVENT_NAMES)),
        18 => format!(".pattern(p: evs => {})", expr(t, depth)),
        19 => format!(".pattern(p: ({} and not {}) or {} xor {})", ident(t, EVENT_NAMES), ident(t, EVENT_NAMES), ident(t, EVENT_NAMES), ident(t, EVENT_NAMES)),
        20 => format!(".process({})", expr(t, depth)),
        21 => format!(".within({})", t.of(DURATIONS)),
        22 => format!(".not({} where {})", ident(t, EVENT_NAMES), expr(t, depth)),
        23 => format!(".fork(l: .where({}).emit(), r: .limit(3))", expr(t, 0)),
        24 => format!(".any({})", t.below(5)),
        25 => ".all()".into(),
        26 => ".first()".into(),
        27 => format!(".watermark(out_of_order: {})", t.of(DURATIONS)),
        28 => format!(".allowed_lateness({})", t.of(DURATIONS)),
        29 => ".trend_aggregate(n: count_trends(), e: count_events(rising))".into(),
        30 => ".score(model: \"m.onnx\", inputs: [x, y], outputs: [p])".into(),
        31 => format!(".forecast(confidence: 0.7, horizon: {})", t.of(DURATIONS)),
        32 => format!(".enrich(Api, key: {}, fields: [f1, f2], cache_ttl: 5m, fallback: \"u\")", expr(t, 0)),
        _ => format!(".context({})", ident(t, VAR_NAMES)),
    }
}

fn stream_source(t: &mut Tape) -> String {
    match t.below(10) {
        0..=2 => ident(t, EVENT_NAMES),
        3 => format!("{} as {}", ident(t, EVENT_NAMES), ident(t, VAR_NAMES)),
        4 => format!("all {} as {}", ident(t, EVENT_NAMES), ident(t, VAR_NAMES)),
        5 => format!("merge({}, stream S2 = {}.where({}))", ident(t, EVENT_NAMES), ident(t, EVENT_NAMES), expr(t, 1)),
        6 => format!("join({}, stream J2 = {}.on({}))", ident(t, EVENT_NAMES), ident(t, EVENT_NAMES), expr(t, 1)),
        7 => format!("sequence(s1: {} where {}, s2: {}.within({}))", ident(t, EVENT_NAMES), expr(t, 1), ident(t, EVENT_NAMES), t.of(DURATIONS)),
        8 => format!("timer({}, initial_delay: {})", t.of(DURATIONS), t.of(DURATIONS)),
        _ => {
            let p = connector_params(t);
            format!("{}.from({}{}{})", ident(t, EVENT_NAMES), ident(t, EVENT_NAMES), if p.is_empty() { "" } else { ", " }, p)
        }
    }
}

pub fn stream_decl(t: &mut Tape, depth: usize) -> String {
    let mut s = format!("stream {}", ident(t, EVENT_NAMES));
    if t.chance(1, 8) {
        s.push_str(&format!(": {}", t.of(TYPES)));
    }
    s.push_str(" = ");
    s.push_str(&stream_source(t));
    let nseq = if t.chance(1, 3) { 1 + t.below(3) } else { 0 };
    let multiline = t.chance(2, 3);
    let sep = |s: &mut String| {
        if multiline {
            s.push_str("\n    ");
        }
    };
    for _ in 0..nseq {
        sep(&mut s);
        s.push_str(if multiline { "-> " } else { " -> " });
        if t.chance(1, 3) {
            s.push_str("all ");
        }
        s.push_str(&ident(t, EVENT_NAMES));
        if t.chance(1, 2) {
            s.push_str(&format!(" where {} == {}.{}", ident(t, FIELD_NAMES), ident(t, VAR_NAMES), ident(t, FIELD_NAMES)));
        }
        if t.chance(1, 2) {
            s.push_str(&format!(" as {}", ident(t, VAR_NAMES)));
        }
    }
    let nops = t.below(5);
    for _ in 0..nops {
        sep(&mut s);
        s.push_str(&stream_op(t, depth));
    }
    s.push('\n');
    s
}

fn block_stmt(t: &mut Tape, depth: usize, indent: usize, out: &mut String) {
    let pad = " ".repeat(indent);
    let inner = depth > 0 && !t.exhausted();
    match t.below(if inner { 12 } else { 8 }) {
        0 => out.push_str(&format!("{}let {} = {}\n", pad, ident(t, VAR_NAMES), expr(t, 2))),
        1 => out.push_str(&format!("{}var {}: {} = {}\n", pad, ident(t, VAR_NAMES), t.of(TYPES), expr(t, 1))),
        2 => out.push_str(&format!("{}{} := {}\n", pad, ident(t, VAR_NAMES), expr(t, 2))),
        3 => out.push_str(&format!("{}return {}\n", pad, expr(t, 2))),
        4 => out.push_str(&format!("{}emit {}({})\n", pad, ident(t, EVENT_NAMES), named_args(t, 1, 0))),
        5 => out.push_str(&format!("{}{}\n", pad, t.of(&["break", "continue", "return"]))),
        6 => out.push_str(&format!("{}{}\n", pad, expr(t, 2))),
        7 => out.push_str(&format!("{}# comment {}\n", pad, t.of(&["plain", "with (", "é", "{i}"]))),
        8 => {
            out.push_str(&format!("{}if {}:\n", pad, expr(t, 1)));
            block(t, depth - 1, indent + 4, out);
            let nelif = t.below(3);
            for _ in 0..nelif {
                out.push_str(&format!("{}elif {}:\n", pad, expr(t, 1)));
                block(t, depth - 1, indent + 4, out);
            }
            if t.chance(1, 2) {
                out.push_str(&format!("{}else:\n", pad));
                block(t, depth - 1, indent + 4, out);
            }
        }
        9 => {
            out.push_str(&format!("{}for {} in {}:\n", pad, ident(t, VAR_NAMES), expr(t, 1)));
            block(t, depth - 1, indent + 4, out);
        }
        10 => {
            out.push_str(&format!("{}while {}:\n", pad, expr(t, 1)));
            block(t, depth - 1, indent + 4, out);
        }
        _ => {
            out.push_str(&format!("{}for {} in 0..{}:\n", pad, ident(t, VAR_NAMES), ident(t, VAR_NAMES)));
            block(t, depth - 1, indent + 4, out);
        }
    }
}

fn block(t: &mut Tape, depth: usize, indent: usize, out: &mut String) {
    let n = 1 + t.below(3);
    for _ in 0..n {
        block_stmt(t, depth, indent, out);
    }
}

pub fn sase_pattern(t: &mut Tape, depth: usize) -> String {
    let item = |t: &mut Tape| {
        let mut s = String::new();
        if t.chance(1, 5) {
            s.push_str("NOT ");
        }
        s.push_str(&ident(t, EVENT_NAMES));
        s.push_str(t.of(&["", "", "+", "*", "?"]));
        if t.chance(1, 3) {
            s.push_str(&format!(" where {}", expr(t, 1)));
        }
        if t.chance(1, 3) {
            s.push_str(&format!(" as {}", ident(t, VAR_NAMES)));
        }
        s
    };
    if depth == 0 || t.exhausted() {
        return item(t);
    }
    match t.below(6) {
        0 | 1 => {
            let n = 1 + t.below(4);
            let items: Vec<String> = (0..n).map(|_| item(t)).collect();
            format!("SEQ({})", items.join(", "))
        }
        2 => format!("{} AND {}", sase_pattern(t, depth - 1), sase_pattern(t, depth - 1)),
        3 => format!("{} OR {}", sase_pattern(t, depth - 1), sase_pattern(t, depth - 1)),
        4 => format!("({})", sase_pattern(t, depth - 1)),
        _ => format!("NOT {}", sase_pattern(t, depth - 1)),
    }
}

/// One top-level statement (always newline-terminated).
pub fn statement(t: &mut Tape, depth: usize) -> String {
    match t.below(16) {
        0..=3 => stream_decl(t, depth),
        4 => {
            let mut s = format!("event {}{}:\n", ident(t, EVENT_NAMES), if t.chance(1, 5) { " extends Base" } else { "" });
            let n = 1 + t.below(4);
            for _ in 0..n {
                s.push_str(&format!("    {}: {}{}\n", ident(t, FIELD_NAMES), t.of(TYPES), if t.chance(1, 5) { "?" } else { "" }));
            }
            s
        }
        5 => {
            let mut s = format!("pattern {} = {}", ident(t, EVENT_NAMES), sase_pattern(t, 2));
            if t.chance(1, 2) {
                s.push_str(&format!(" within {}", t.of(DURATIONS)));
            }
            if t.chance(1, 2) {
                s.push_str(&format!(" partition by {}", ident(t, FIELD_NAMES)));
            }
            s.push('\n');
            s
        }
        6 | 7 => {
            let np = t.below(3);
            let params: Vec<String> = (0..np).map(|_| format!("{}: {}", ident(t, VAR_NAMES), t.of(TYPES))).collect();
            let mut s = format!("fn {}({})", ident(t, FN_NAMES), params.join(", "));
            if t.chance(1, 2) {
                s.push_str(&format!(" -> {}", t.of(TYPES)));
            }
            s.push_str(":\n");
            block(t, 2, 4, &mut s);
            s
        }
        8 => format!("connector {} = {} ({})\n", ident(t, EVENT_NAMES), t.of(&["mqtt", "kafka", "http", "nats", "file", "custom_thing"]), connector_params(t)),
        9 => match t.below(2) {
            0 => format!("context {}\n", ident(t, VAR_NAMES)),
            _ => format!("context {} (cores: [{}, {}])\n", ident(t, VAR_NAMES), t.below(8), t.below(8)),
        },
        10 => match t.below(2) {
            0 => format!("config mqtt {{\n    host: \"h\",\n    port: {}\n    tags: [1, \"a\"]\n}}\n", t.below(70000)),
            _ => format!("config:\n    mode: \"fast\"\n    limit: {}\n", t.below(100)),
        },
        11 => format!("{} {}{} = {}\n", t.of(&["let", "var", "const"]), ident(t, VAR_NAMES), if t.chance(1, 3) { format!(": {}", t.of(TYPES)) } else { String::new() }, expr(t, depth)),
        12 => format!("type {} = {}\n", ident(t, EVENT_NAMES), t.of(TYPES)),
        13 => format!("import {}{}\n", t.of(STRINGS), if t.chance(1, 2) { " as lib" } else { "" }),
        14 => {
            // top-level declaration loop (compile-time expansion)
            let a = t.below(4) as i64 - 1;
            let len = t.below(5) as i64;
            let incl = t.chance(1, 3);
            let mut s = format!("for i in {}..{}{}:\n", a, if incl { "=" } else { "" }, if incl { a + len - 1 } else { a + len });
            let n = 1 + t.below(2);
            for _ in 0..n {
                match t.below(3) {
                    0 => s.push_str("    context c{i}\n"),
                    1 => s.push_str(&format!("    stream S{{i}} = {}\n        .where(x > {{i}})\n        .emit(k: {{i}})\n", ident(t, EVENT_NAMES))),
                    _ => s.push_str("    # tile {i}\n\n"),
                }
            }
            s
        }
        _ => format!("/* block {} */\n# line comment\n\n", t.of(&["comment", "é", "(", "\"", "*"])),
    }
}

/// A whole program: 1..=6 statements.
pub fn program(t: &mut Tape) -> String {
    let n = 1 + t.below(6);
    let mut s = String::new();
    for _ in 0..n {
        s.push_str(&statement(t, 3));
        if t.chance(1, 3) {
            s.push('\n');
        }
    }
    s
}

// ------------------------------------------------------------------ tokeniser

/// Split a source text into tokens (identifier/number runs, strings, comments,
/// newline+indent runs, other whitespace runs, multi-char operators, single chars).
/// Concatenating the tokens gives the text back.
pub fn tokenize(src: &str) -> Vec<&str> {
    let b = src.as_bytes();
    let mut out = vec![];
    let mut i = 0;
    while i < b.len() {
        let start = i;
        let c = b[i];
        if c.is_ascii_alphanumeric() || c == b'_' {
            while i < b.len() && (b[i].is_ascii_alphanumeric() || b[i] == b'_') {
                i += 1;
            }
        } else if c == b'"' {
            i += 1;
            while i < b.len() && b[i] != b'"' && b[i] != b'\n' {
                if b[i] == b'\\' && i + 1 < b.len() {
                    i += 1;
                }
                i += 1;
            }
            if i < b.len() && b[i] == b'"' {
                i += 1;
            }
            while i < b.len() && !src.is_char_boundary(i) {
                i += 1;
            }
        } else if c == b'#' {
            while i < b.len() && b[i] != b'\n' {
                i += 1;
            }
        } else if c == b'\n' {
            i += 1;
            while i < b.len() && (b[i] == b' ' || b[i] == b'\t') {
                i += 1;
            }
        } else if c == b' ' || c == b'\t' || c == b'\r' {
            while i < b.len() && (b[i] == b' ' || b[i] == b'\t' || b[i] == b'\r') {
                i += 1;
            }
        } else if c < 0x80 {
            let two = if i + 1 < b.len() { &b[i..i + 2] } else { &b[i..i + 1] };
            let is2 = matches!(two, b"->" | b"=>" | b"==" | b"!=" | b"<=" | b">=" | b":=" | b".." | b"**" | b"<<" | b">>" | b"?." | b"/*" | b"*/");
            i += if is2 { 2 } else { 1 };
        } else {
            i += 1;
            while i < b.len() && !src.is_char_boundary(i) {
                i += 1;
            }
        }
        out.push(&src[start..i]);
    }
    out
}

// ------------------------------------------------------------------ mutation

pub const TOKEN_POOL: &[&str] = &[
    "(", ")", "[", "]", "{", "}", ",", ":", ".", "->", "=>", "=", "==", ":=", "..", "..=", "?", "?.", "+", "-", "*", "/", "\"", "\\", "#", "/*", "*/", "@", "stream", "event", "fn", "if", "else:", "elif", "for", "while", "in", "not", "and", "or", "all", "as", "where", "within",
    "pattern", "SEQ", "NOT", "AND", "config", "connector", "context", "return", "emit", "let", "var", "const", "import", "type", "then", "0", "1", "5s", "1.5", "\"s\"", "true", "null", "x", "for i in 0..3:", "\nfor i in 0..=2:\n  ", "\nfor i in -9223372036854775808..9223372036854775807:\n    ", "\nfor k in 0..=9223372036854775807:\n    ", "\nfor i in 0..10001:\n    ", "\nfor i in 5..2:\n    ", "{i}", "{k}", "{", "\n", "\n    ", "\n        ", "\n\t", " ", "\r\n",
];

pub const HOSTILE_TEXT: &[&str] = &[
    "é", "日本語", "😀", "\u{00AB}INDENT\u{00BB}", "\u{00AB}DEDENT\u{00BB}", "\u{00AB}", "\u{00BB}", "\u{feff}", "\u{2028}", "\u{0}", "\r", "\t", "\u{a0}", "\u{3000}", "\u{2003}\u{2003}", "\u{85}", "\u{b}", "\u{c}", "ß", "İ", "e\u{301}", "\u{202e}", "𝒳", "\u{fffd}",
    "\n\u{3000}\u{3000}x", "\n\u{a0}\u{a0}\u{a0}y", "\"", "\\", "\\\"", "'", "`", "$", "!", "&&", "||", ";", "\u{7f}",
];

fn char_pos(s: &str, sel: u16) -> usize {
    // a char boundary chosen proportionally
    let mut p = pick(sel, s.len() + 1);
    while !s.is_char_boundary(p) {
        p -= 1;
    }
    p
}

/// Depth from which nested *index* brackets (`a[a[a[…`) are left out of the generated
/// domain: the grammar re-parses the bracket content for `slice_access` and then
/// `index_access`, i.e. parse time doubles per level (≈0.6 s at 17, ≈80 s at 24, the
/// parser's own nesting cap).  Time is not a verdict in these checks, so such inputs only
/// burn the budget; the blow-up itself is documented by C41's `nesting_profile` evidence.
pub const MAX_INDEX_NEST: usize = 15;

/// Maximal number of simultaneously open postfix-index brackets (`x[`, `)[`, `][`) in a
/// text, ignoring strings and comments only approximately (over-approximation is fine:
/// it is used to leave the exponential zone out of the domain, see `MAX_INDEX_NEST`).
pub fn index_nest_depth(src: &str) -> usize {
    let b = src.as_bytes();
    let mut stack: Vec<bool> = vec![];
    let mut open_idx = 0usize;
    let mut max = 0usize;
    let mut prev = b' ';
    for &c in b {
        match c {
            b'[' | b'(' | b'{' => {
                let is_index = c == b'[' && (prev.is_ascii_alphanumeric() || prev == b'_' || prev == b']' || prev == b')');
                stack.push(is_index);
                if is_index {
                    open_idx += 1;
                    max = max.max(open_idx);
                }
            }
            b']' | b')' | b'}' => {
                if let Some(true) = stack.pop() {
                    open_idx -= 1;
                }
            }
            _ => {}
        }
        if !(c == b' ' || c == b'\t' || c == b'\r' || c == b'\n') {
            prev = c;
        }
    }
    max
}

fn nest_run(t: &mut Tape) -> (String, String) {
    let depth = match t.below(4) {
        0 => 1 + t.below(4),
        1 => 5 + t.below(16),
        2 => 20 + t.below(10),
        _ => 30 + t.below(11),
    };
    let style = t.below(6);
    let mut open = String::new();
    let mut close = String::new();
    let mut index_levels = 0;
    for k in 0..depth {
        let (mut o, mut c) = match style {
            0 => ("(", ")"),
            1 => ("[", "]"),
            2 => ("{", "}"),
            3 => ("f(", ")"),
            4 => ("a[", "]"),
            _ => [("(", ")"), ("[", "]"), ("{a: ", "}"), ("f(", ")"), ("x[", "]"), ("-(", ")"), ("not (", ")")][(k + t.below(7)) % 7],
        };
        if o.ends_with('[') && o.len() == 2 {
            index_levels += 1;
            // beyond the parser's cap (24) the pre-scan rejects the text before pest runs
            if index_levels > MAX_INDEX_NEST && depth <= 26 {
                o = "(";
                c = ")";
            }
        }
        open.push_str(o);
        close.insert_str(0, c);
    }
    (open, close)
}

/// Apply one mutation drawn from the tape; returns the mutated text and a label.
pub fn mutate_once(src: &str, t: &mut Tape, other: &[(String, String)]) -> (String, &'static str) {
    let toks = tokenize(src);
    let n = toks.len();
    let join = |v: &[&str]| v.concat();
    let kind = t.below(20);
    match kind {
        0 if n > 0 => {
            let i = t.below(n);
            let mut v = toks.clone();
            v.remove(i);
            (join(&v), "del_token")
        }
        1 if n > 0 => {
            let i = t.below(n);
            let mut v = toks.clone();
            v.insert(i, toks[i]);
            (join(&v), "dup_token")
        }
        2 if n > 1 => {
            let i = t.below(n);
            let j = t.below(n);
            let mut v = toks.clone();
            v.swap(i, j);
            (join(&v), "swap_tokens")
        }
        3 if n > 0 => {
            let i = t.below(n);
            let mut v = toks.clone();
            v[i] = t.of(TOKEN_POOL);
            (join(&v), "replace_token")
        }
        4 => {
            let i = t.below(n + 1);
            let mut v = toks.clone();
            v.insert(i, t.of(TOKEN_POOL));
            (join(&v), "insert_token")
        }
        5 => {
            // unbalance: drop one bracket token or insert a lone one
            let br: Vec<usize> = toks.iter().enumerate().filter(|(_, s)| matches!(**s, "(" | ")" | "[" | "]" | "{" | "}")).map(|(i, _)| i).collect();
            let mut v = toks.clone();
            if !br.is_empty() && t.chance(1, 2) {
                v.remove(br[t.below(br.len())]);
            } else {
                let i = t.below(n + 1);
                v.insert(i, t.of(&["(", ")", "[", "]", "{", "}"]));
            }
            (join(&v), "unbalance_bracket")
        }
        6 | 7 => {
            // deep nesting around an expression-ish token, balanced or not
            let (open, close) = nest_run(t);
            let i = t.below(n + 1);
            let mut s = String::new();
            for (k, tk) in toks.iter().enumerate() {
                if k == i {
                    s.push_str(&open);
                    s.push_str(tk);
                    match t.below(4) {
                        0 => {}
                        1 => s.push_str(&close[..close.len() / 2]),
                        _ => s.push_str(&close),
                    }
                } else {
                    s.push_str(tk);
                }
            }
            if i == n {
                s.push_str(&open);
                s.push('1');
                if t.chance(1, 2) {
                    s.push_str(&close);
                }
            }
            (s, "deep_nesting")
        }
        8 | 9 => {
            // indentation change on one line
            let mut lines: Vec<String> = src.split('\n').map(|l| l.to_string()).collect();
            let li = t.below(lines.len());
            let l = lines[li].clone();
            let body = l.trim_start_matches([' ', '\t']).to_string();
            let cur = l.len() - body.len();
            lines[li] = match t.below(8) {
                0 => format!("{}{}", " ".repeat(cur + 1 + t.below(8)), body),
                1 => format!("{}{}", " ".repeat(cur.saturating_sub(1 + t.below(4))), body),
                2 => format!("\t{}", body),
                3 => format!("{}\t{}", &l[..cur], body),
                4 => body,
                5 => format!("{}{}", t.of(&["\u{a0}", "\u{3000}", "\u{2003}", "\u{3000}\u{3000}", " \u{a0}", "\u{85}"]), body),
                6 => format!("{}{}", " ".repeat(t.below(40)), body),
                _ => format!("{}{}", &l[..cur], t.of(&["\u{3000}", "\u{a0}\u{a0}"])) + &body,
            };
            (lines.join("\n"), "indent_change")
        }
        10 | 11 => {
            let p = char_pos(src, t.next());
            let ins = t.of(HOSTILE_TEXT);
            (format!("{}{}{}", &src[..p], ins, &src[p..]), "insert_hostile_text")
        }
        12 => {
            let p = char_pos(src, t.next());
            let mut q = (p + 1 + t.below(12)).min(src.len());
            while !src.is_char_boundary(q) {
                q += 1;
            }
            (format!("{}{}", &src[..p], &src[q..]), "delete_chars")
        }
        13 => {
            let p = char_pos(src, t.next());
            (src[..p].to_string(), "truncate")
        }
        14 if !other.is_empty() => {
            // splice some lines of another file
            let (_, o) = &other[t.below(other.len())];
            let ol: Vec<&str> = o.split('\n').collect();
            let s0 = t.below(ol.len());
            let cnt = 1 + t.below(6);
            let mut lines: Vec<&str> = src.split('\n').collect();
            let at = t.below(lines.len() + 1);
            for (k, l) in ol[s0..(s0 + cnt).min(ol.len())].iter().enumerate() {
                lines.insert(at + k, l);
            }
            (lines.join("\n"), "splice_lines")
        }
        15 => (src.replace('\n', "\r\n"), "crlf"),
        16 => {
            // wrap some top-level lines into a declaration loop
            let lines: Vec<&str> = src.split('\n').collect();
            let at = t.below(lines.len());
            let cnt = 1 + t.below(5);
            let a = t.below(3) as i64;
            let b = a + t.below(6) as i64;
            let mut out: Vec<String> = lines[..at].iter().map(|s| s.to_string()).collect();
            out.push(format!("for {} in {}..{}{}:", t.of(&["i", "k", "idx"]), a, t.of(&["", "="]), b));
            let end = (at + cnt).min(lines.len());
            for l in &lines[at..end] {
                out.push(format!("    {}", l));
            }
            out.extend(lines[end..].iter().map(|s| s.to_string()));
            (out.join("\n"), "wrap_decl_loop")
        }
        17 => {
            // duplicate a line range
            let lines: Vec<&str> = src.split('\n').collect();
            let at = t.below(lines.len());
            let cnt = 1 + t.below(4);
            let end = (at + cnt).min(lines.len());
            let mut out: Vec<&str> = lines[..end].to_vec();
            out.extend_from_slice(&lines[at..end]);
            out.extend_from_slice(&lines[end..]);
            (out.join("\n"), "dup_lines")
        }
        18 => {
            // delete a line
            let mut lines: Vec<&str> = src.split('\n').collect();
            let at = t.below(lines.len());
            lines.remove(at);
            (lines.join("\n"), "del_line")
        }
        _ => {
            // replace an identifier/number token by a non-ASCII or huge one
            let ids: Vec<usize> = toks.iter().enumerate().filter(|(_, s)| s.as_bytes().first().map(|c| c.is_ascii_alphanumeric()).unwrap_or(false)).map(|(i, _)| i).collect();
            if ids.is_empty() {
                return (format!("{}é", src), "replace_word");
            }
            let mut v = toks.clone();
            v[ids[t.below(ids.len())]] = t.of(&["é", "naïve", "变量", "x😀", "99999999999999999999999", "0x1F", "1e", "1.", "5xs", "@2024-13-45", "@20", "00:00", "1__2", "_"]);
            (join(&v), "replace_word")
        }
    }
}

/// Apply `k` mutations; returns text + labels.
pub fn mutate(src: &str, k: usize, t: &mut Tape, other: &[(String, String)]) -> (String, Vec<&'static str>) {
    let mut s = src.to_string();
    let mut labels = vec![];
    for _ in 0..k {
        let (n, l) = mutate_once(&s, t, other);
        s = n;
        labels.push(l);
        if s.len() > 48 * 1024 {
            break;
        }
    }
    (s, labels)
}
