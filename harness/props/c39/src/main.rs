//! C39 Injected connector declarations carry exactly the stored parameters.
//!
//! Cluster connectors accepted by `validate_connector`, with parameter values from a
//! hostile pool, are injected (`inject_connectors`) into pipeline sources that reference
//! them.  Oracle: the injected source parses; its statements are the injected connector
//! declarations followed by exactly the statements of the original source (modulo
//! spans); loading the declarations into an `Engine` gives `get_connector(name)` whose
//! address/topic/properties are exactly the stored strings.
use proptest::prelude::*;
use serde::{Deserialize, Serialize};
use std::collections::{BTreeMap, HashMap};
use varpulis_core::ast::{Program, Stmt};
use varpulis_core::span::{Span, Spanned};
use vh_common::{guard, Check, Outcome};
use vh_gen::vplsrc::{self, Tape};
use vh_server::varpulis_cluster::connector_config::{find_missing_connectors, inject_connectors, validate_connector};
use vh_server::varpulis_cluster::ClusterConnector;

#[derive(Clone, Debug, Serialize, Deserialize)]
struct Conn {
    name: String,
    ctype: String,
    params: Vec<(String, String)>,
}

#[derive(Clone, Debug, Serialize, Deserialize)]
struct Case {
    connectors: Vec<Conn>,
    source: String,
}

// ---------------------------------------------------------------- generation

const NAMES: &[&str] = &["MqttIn", "kafka_out", "Market", "_c1", "Http2", "NatsBus", "all", "from", "to", "connector", "mqtt", "X"];
const TYPES: &[(&str, &str)] = &[("mqtt", "host"), ("kafka", "brokers"), ("http", "url"), ("nats", "servers"), ("console", "")];
const KEYS: &[&str] = &["port", "topic", "client_id", "qos", "username", "password", "group_id", "tls", "keep_alive", "path", "method", "partition", "custom_key", "_x", "K9"];

const PLAIN: &[&str] = &["localhost", "broker.example.com:9092", "http://example.com/api?x=1&y=2", "nats://localhost:4222", "sensors/#", "events", "true", "false", "a b c", "x,y", "k: v", "(paren)", "[1, 2]", "{}", "# not a comment", "/* c */", "5s", "10ms", "null"];
const NUMERIC: &[&str] = &[
    "1883", "0", "1", "007", "00", "-5", "+5", "-0", "1.5", "1.0", "1.50", "0.1", ".5", "5.", "1e5", "1E5", "1e-3", "1.5e3", "inf", "-inf", "+inf", "nan", "NaN", "infinity", "Infinity", "9223372036854775807", "9223372036854775808", "-9223372036854775808",
    "18446744073709551616", "1e400", "0x10", "1_000", " 5", "5 ", "٣",
];
const UNICODE: &[&str] = &["é", "日本語", "😀", "naïve café", "\u{a0}pad\u{a0}", "\u{2028}", "a\u{301}", "\u{00AB}INDENT\u{00BB}", "tab\there"];
const BACKSLASH: &[&str] = &["a\\b", "C:\\data\\in", "\\\\server\\share", "\\n", "x\\\"y", "\\", "trailing\\", "two\\\\"];
const QUOTE: &[&str] = &["say \"hi\"", "\"", "\"\"", "a\")\nstream Evil = Tick", "a\")\nstream Evil = Tick # ", "'single'", "a\"b"];
const NEWLINE: &[&str] = &["line1\nline2", "a\n  b", "cr\r\nlf", "\n", "end\n"];

/// A value that cannot be written between double quotes as a VPL string literal reading
/// back as itself (the language has no escape processing; a backslash makes the lexer skip
/// the next character and both stay in the value): a line break, a double quote that is not
/// skipped by a preceding backslash, or a dangling backslash at the end.  Harness-side model
/// (written independently of `is_representable_param_value`).
fn unrepresentable(v: &str) -> bool {
    if v.contains('\n') || v.contains('\r') {
        return true;
    }
    let cs: Vec<char> = v.chars().collect();
    let mut i = 0;
    while i < cs.len() {
        if cs[i] == '\\' {
            if i + 1 >= cs.len() {
                return true;
            }
            i += 2;
        } else if cs[i] == '"' {
            return true;
        } else {
            i += 1;
        }
    }
    false
}

fn value(t: &mut Tape, allow_unrepresentable: bool) -> String {
    let v = match t.below(12) {
        0..=2 => t.of(PLAIN).to_string(),
        3..=6 => t.of(NUMERIC).to_string(),
        7 => String::new(),
        8 => t.of(UNICODE).to_string(),
        9 => t.of(BACKSLASH).to_string(),
        10 => t.of(QUOTE).to_string(),
        _ => t.of(NEWLINE).to_string(),
    };
    if !allow_unrepresentable && unrepresentable(&v) {
        // excluded class (known finding): keep the flavour, drop the unrepresentable characters
        let mut s: String = v.chars().filter(|c| *c != '"' && *c != '\n' && *c != '\r').collect();
        while unrepresentable(&s) {
            s.pop();
        }
        return s;
    }
    v
}

fn connector(t: &mut Tape, name: &str, allow_unrepresentable: bool) -> Conn {
    let (ctype, required) = t.of(TYPES);
    let mut params: Vec<(String, String)> = vec![];
    if !required.is_empty() {
        params.push((required.to_string(), value(t, allow_unrepresentable)));
    }
    let n = t.below(5);
    for _ in 0..n {
        // parameter names that are not VPL identifiers (a small minority: validation decides
        // whether they are in the domain at all)
        let k = if t.chance(1, 200) { t.of(&["group.id", "client-id", "a b", "", "é", "9lives", "k:"]) } else { t.of(KEYS) };
        if !params.iter().any(|(pk, _)| pk == k) {
            params.push((k.to_string(), value(t, allow_unrepresentable)));
        }
    }
    Conn { name: name.to_string(), ctype: ctype.to_string(), params }
}

const TAIL_OPS: &[&str] = &["\n    .where(x > 1)", "\n    .window(5)\n    .aggregate(total: sum(x))", "\n    .emit(x: x, tag: \"t\")", "", "\n    .partition_by(symbol)\n    .limit(3)"];

fn pipeline_source(t: &mut Tape, names: &[String]) -> String {
    let mut s = String::new();
    if t.chance(1, 3) {
        s.push_str("# pipeline\n\n");
    }
    if t.chance(1, 2) {
        s.push_str("event Tick:\n    x: int\n    symbol: str\n\n");
    }
    let n = 1 + t.below(3);
    for k in 0..n {
        let c = &names[t.below(names.len())];
        match t.below(5) {
            0 | 1 => s.push_str(&format!("stream In{} = Tick.from({}, topic: \"in/{}\"){}\n", k, c, k, t.of(TAIL_OPS))),
            2 => s.push_str(&format!("stream In{} = Tick.from({})\n", k, c)),
            3 => s.push_str(&format!("stream Out{} = Tick{}\n    .to({}, topic: \"out\")\n", k, t.of(TAIL_OPS), c)),
            _ => {
                let c2 = &names[t.below(names.len())];
                s.push_str(&format!("stream Both{} = Tick.from({}, topic: \"a\")\n    .where(x > {})\n    .to({}, topic: \"b\", qos: 1)\n", k, c, k, c2))
            }
        }
        if t.chance(1, 3) {
            // some unrelated generated statement
            s.push_str(&vplsrc::statement(t, 2));
        }
    }
    if t.chance(1, 4) {
        s.push_str("fn helper(a: int) -> int:\n    return a + 1\n");
    }
    if t.chance(1, 6) {
        // declared inline: the cluster definition of that name must not be injected
        let c = &names[t.below(names.len())];
        s = format!("connector {} = mqtt (host: \"inline\", port: 1)\n{}", c, s);
    }
    if t.chance(1, 5) {
        while s.ends_with('\n') {
            s.pop();
        }
    }
    s
}

fn gen_case(tape: &[u16], allow_unrepresentable: bool) -> Case {
    let mut t = Tape::new(tape);
    let n = 1 + t.below(3);
    let mut names: Vec<String> = vec![];
    while names.len() < n {
        let base = t.of(NAMES);
        let name = if names.iter().any(|x| x == base) { format!("{}{}", base, names.len()) } else { base.to_string() };
        names.push(name);
    }
    let connectors: Vec<Conn> = names.iter().map(|nm| connector(&mut t, nm, allow_unrepresentable)).collect();
    // the pipeline may reference a subset
    let used = 1 + t.below(names.len());
    let source = pipeline_source(&mut t, &names[..used]);
    Case { connectors, source }
}

// ---------------------------------------------------------------- oracle

fn strip(s: &mut Spanned<Stmt>) {
    s.span = Span::dummy();
    let blocks: Vec<&mut Vec<Spanned<Stmt>>> = match &mut s.node {
        Stmt::FnDecl { body, .. } | Stmt::For { body, .. } | Stmt::While { body, .. } => vec![body],
        Stmt::If { then_branch, elif_branches, else_branch, .. } => {
            let mut v = vec![then_branch];
            v.extend(elif_branches.iter_mut().map(|(_, b)| b));
            if let Some(b) = else_branch {
                v.push(b);
            }
            v
        }
        _ => vec![],
    };
    for b in blocks {
        for st in b {
            strip(st);
        }
    }
}

fn normalised(mut p: Program) -> Vec<Spanned<Stmt>> {
    for s in &mut p.statements {
        strip(s);
    }
    p.statements
}

fn value_class(v: &str) -> &'static str {
    if unrepresentable(v) {
        "unrepresentable-string"
    } else if v.parse::<i64>().is_ok() || v.parse::<f64>().is_ok() {
        "numeric-looking"
    } else if v.contains('\\') {
        "backslash"
    } else if v.is_empty() {
        "empty"
    } else if !v.is_ascii() {
        "unicode"
    } else {
        "plain"
    }
}

/// worst class among the parameters of the connectors that get injected
fn case_class(conns: &[&Conn]) -> &'static str {
    let ident = |k: &str| !k.is_empty() && !k.as_bytes()[0].is_ascii_digit() && k.bytes().all(|b| b.is_ascii_alphanumeric() || b == b'_');
    if conns.iter().any(|c| c.params.iter().any(|(k, _)| !ident(k))) {
        return "non-identifier-key";
    }
    let order = ["unrepresentable-string", "numeric-looking", "backslash", "empty", "unicode", "plain"];
    let mut best = order.len() - 1;
    for c in conns {
        for (_, v) in &c.params {
            let i = order.iter().position(|o| *o == value_class(v)).unwrap();
            best = best.min(i);
        }
    }
    order[best]
}

/// What the engine should know about a connector, from the stored strings.
fn expected_config(c: &Conn) -> (String, String, Option<String>, BTreeMap<String, String>) {
    let mut url = String::new();
    let mut topic = None;
    let mut props = BTreeMap::new();
    for (k, v) in &c.params {
        match k.as_str() {
            "url" | "host" | "brokers" | "servers" => url = v.clone(),
            "topic" => topic = Some(v.clone()),
            other => {
                props.insert(other.to_string(), v.clone());
            }
        }
    }
    (c.ctype.clone(), url, topic, props)
}

fn judge(c: &Case) -> Outcome {
    let mut map: HashMap<String, ClusterConnector> = HashMap::new();
    for k in &c.connectors {
        let cc = ClusterConnector { name: k.name.clone(), connector_type: k.ctype.clone(), params: k.params.iter().cloned().collect(), description: None };
        let ident = |k: &str| !k.is_empty() && !k.as_bytes()[0].is_ascii_digit() && k.bytes().all(|b| b.is_ascii_alphanumeric() || b == b'_');
        let bad_value = k.params.iter().any(|(_, v)| unrepresentable(v));
        let bad_key = k.params.iter().any(|(p, _)| !ident(p));
        if validate_connector(&cc).is_err() {
            // outside the property's domain.  Expected exactly for definitions that cannot be
            // rendered as a declaration; anything else is only counted.
            return if bad_value {
                Outcome::pass().nontrivial(true).class("validation_rejects:unrepresentable_value")
            } else if bad_key {
                Outcome::pass().class("validation_rejects:non_identifier_key")
            } else {
                Outcome::discard("connector rejected by validate_connector for another reason")
            };
        }
        // accepted by validation: in the domain, whatever the harness model says about its
        // values -- the full oracle below decides (an accepted unrepresentable value that
        // breaks the injected source is a violation)
        if k.params.iter().map(|(p, _)| p).collect::<std::collections::BTreeSet<_>>().len() != k.params.len() {
            return Outcome::discard("duplicate parameter key");
        }
        map.insert(k.name.clone(), cc);
    }
    let original = match varpulis_parser::parse(&c.source) {
        Ok(p) => normalised(p),
        Err(_) => return Outcome::discard("pipeline source does not parse on its own"),
    };
    let missing = find_missing_connectors(&c.source);
    let injected_conns: Vec<&Conn> = missing.iter().filter_map(|m| c.connectors.iter().find(|k| &k.name == m)).collect();
    let class = case_class(&injected_conns);
    let (injected_src, _lines) = match guard(|| inject_connectors(&c.source, &map)) {
        Ok(r) => r,
        Err(p) => return Outcome::fail(format!("inject-{}", p.sig()), format!("inject_connectors panicked at {}:{}: {}", p.file, p.line, p.message)),
    };
    let show = |what: &str| format!("{}\n--- connectors ---\n{:?}\n--- injected source ---\n{}", what, injected_conns, vh_common::truncate(&injected_src, 900));

    let parsed = match varpulis_parser::parse(&injected_src) {
        Ok(p) => normalised(p),
        Err(e) => return Outcome::fail(format!("injected-source-does-not-parse:{}", class), show(&format!("parse error: {}", e))),
    };
    let k = injected_conns.len();
    if parsed.len() != original.len() + k {
        return Outcome::fail(format!("statement-count-changed:{}", class), show(&format!("original has {} statements, {} connectors injected, result has {}", original.len(), k, parsed.len())));
    }
    if parsed[k..] != original[..] {
        let i = parsed[k..].iter().zip(original.iter()).position(|(a, b)| a != b).unwrap_or(0);
        return Outcome::fail(format!("rest-of-program-changed:{}", class), show(&format!("statement {} of the original changed: before={:?} after={:?}", i, original[i].node, parsed[k + i].node)));
    }
    // the injected declarations, loaded into an engine
    let decls = Program { statements: parsed[..k].to_vec() };
    for (st, conn) in decls.statements.iter().zip(injected_conns.iter()) {
        match &st.node {
            Stmt::ConnectorDecl { name, connector_type, .. } if name == &conn.name && connector_type == &conn.ctype => {}
            other => return Outcome::fail(format!("injected-declaration-wrong-header:{}", class), show(&format!("expected connector {} = {}, got {:?}", conn.name, conn.ctype, other))),
        }
    }
    if k > 0 {
        let eng = match vh_gen::engine::Eng::from_program(&decls) {
            Ok(e) => e,
            Err(e) => return Outcome::fail(format!("injected-declarations-do-not-load:{}", class), show(&e)),
        };
        for conn in &injected_conns {
            let Some(cfg) = eng.engine.get_connector(&conn.name) else {
                return Outcome::fail(format!("connector-not-registered:{}", class), show(&conn.name));
            };
            let (ty, url, topic, props) = expected_config(conn);
            let got_props: BTreeMap<String, String> = cfg.properties.iter().map(|(a, b)| (a.clone(), b.clone())).collect();
            if cfg.connector_type != ty || cfg.url != url || cfg.topic != topic || got_props != props {
                // name the first differing parameter's class for the signature
                let mut pclass = "plain";
                for (pk, pv) in &conn.params {
                    let got = match pk.as_str() {
                        "url" | "host" | "brokers" | "servers" => Some(cfg.url.clone()),
                        "topic" => cfg.topic.clone(),
                        other => cfg.properties.get(other).cloned(),
                    };
                    if got.as_deref() != Some(pv.as_str()) {
                        pclass = value_class(pv);
                        break;
                    }
                }
                return Outcome::fail(
                    format!("parameters-differ:{}", pclass),
                    show(&format!("connector {}: stored type={:?} address={:?} topic={:?} properties={:?}; engine has type={:?} address={:?} topic={:?} properties={:?}", conn.name, ty, url, topic, props, cfg.connector_type, cfg.url, cfg.topic, got_props)),
                );
            }
        }
    }
    let hostile = injected_conns.iter().any(|cn| cn.params.iter().any(|(_, v)| matches!(value_class(v), "numeric-looking" | "backslash" | "unrepresentable-string")));
    let mut out = Outcome::pass().nontrivial(k > 0 && hostile).class(format!("injected:{}", k)).class(format!("class:{}", class)).class_if(c.source.contains("connector "), "source_declares_inline");
    for cn in &injected_conns {
        for (_, v) in &cn.params {
            out = out.class(format!("value:{}", value_class(v)));
        }
    }
    out.class_if(c.connectors.len() > k, "has_unreferenced_connector")
}

fn main() {
    let check = Check::new("C39", "exploration");
    check.rule("1-3 cluster connectors (valid names incl. keyword-like ones, all 5 types with their required parameter, 0-4 further parameters with identifier keys) whose values come from a hostile pool (plain, numeric-looking incl. leading zeros/signs/exponents/inf/nan/overflow, empty, Unicode, backslashes), injected into generated pipeline sources that reference a subset of them via .from()/.to() (also declared inline, unreferenced connectors, unrelated statements, missing final newline); oracle: injected source parses, statements = injected declarations + original statements modulo spans, engine.get_connector(name) has exactly the stored address/topic/properties; non-trivial = >=1 injected connector with a numeric-looking or backslash value (distinct by case)");
    check.assume("only connectors accepted by validate_connector; at most one of url/host/brokers/servers per connector (the runtime folds them into one address field); no `client_id_mode` parameter (documented source rewriting, outside this property); values that cannot be written as a VPL string (line break, unskipped double quote, dangling backslash) keep being generated in the `unrepresentable_values` sub-check: validation must reject them, and if it accepts one the full oracle applies");
    check.explore("inject", || proptest::collection::vec(any::<u16>(), 0..200).prop_map(|tape| gen_case(&tape, false)), 5_000, 80_000, judge);
    // values that cannot be written as a VPL literal: validation has to keep them out of the
    // domain; if it lets one through, the oracle above judges the injected source as usual
    check.explore("unrepresentable_values", || proptest::collection::vec(any::<u16>(), 0..200).prop_map(|tape| gen_case(&tape, true)), 300, 3_000, |c: &Case| {
        let o = judge(c);
        o.class("sub:unrepresentable_pool")
    });
    check.finish();
}
