//! C38 In Raft mode every change a coordinator acknowledges or makes on its own is reflected in the
//! replicated state, so re-synchronising never reverts it; a follower's view equals the leader's.
//!
//! Single-node in-process Raft (`raft::bootstrap`), the real API through `cluster_routes_with_raft`
//! (`warp::test`), mock workers on loopback, health ticks mirroring the loop of varpulis-cli/src/main.rs.
use proptest::prelude::*;
use serde::{Deserialize, Serialize};
use serde_json::json;
use std::collections::{BTreeMap, BTreeSet};
use std::sync::atomic::{AtomicUsize, Ordering};
use std::sync::{Arc, OnceLock};
use std::time::Duration;
use vh_common::{Check, Outcome};
use vh_server::varpulis_cluster as vc;

use vc::api::SharedCoordinator;
use vc::coordinator::{Coordinator, ScalingPolicy};
use vc::raft::ClusterCommand;
use vc::{RbacConfig, WorkerId};

type J = serde_json::Value;

// ------------------------------------------------------------------ case

#[derive(Clone, Debug, Serialize, Deserialize, PartialEq)]
struct PSpec {
    affinity: Option<u8>,
    replicas: u8,
}

#[derive(Clone, Debug, Serialize, Deserialize, PartialEq)]
enum Op {
    Register { w: u8 },
    Heartbeat { w: u8, running: u8 },
    DeleteWorker { w: u8 },
    Deploy { g: u8, pipes: Vec<PSpec> },
    Teardown { idx: u8 },
    Migrate { idx: u8, p: u8, rep: Option<u8>, target: u8 },
    Drain { w: u8 },
    Rebalance,
    ConnCreate { n: u8, v: u8 },
    ConnUpdate { n: u8, v: u8 },
    ConnDelete { n: u8 },
    Tick,
}

impl Op {
    fn kind(&self) -> &'static str {
        match self {
            Op::Register { .. } => "register-worker",
            Op::Heartbeat { .. } => "heartbeat",
            Op::DeleteWorker { .. } => "delete-worker",
            Op::Deploy { .. } => "deploy",
            Op::Teardown { .. } => "teardown",
            Op::Migrate { .. } => "migrate",
            Op::Drain { .. } => "drain",
            Op::Rebalance => "rebalance",
            Op::ConnCreate { .. } => "connector-create",
            Op::ConnUpdate { .. } => "connector-update",
            Op::ConnDelete { .. } => "connector-delete",
            Op::Tick => "tick",
        }
    }
}

#[derive(Clone, Debug, Serialize, Deserialize)]
struct Case {
    /// 0 = generated search: components of the recorded known-finding classes are not judged (counted as
    ///     excluded) until local and replicated state agree again;
    /// 1 = strict: every divergence is judged (replays of the known findings);
    /// 2 = only "sync reverts a local change" is judged (replays of the known findings about reverts)
    mode: u8,
    /// judging starts at this operation index (replays that demonstrate a class which needs a prefix that
    /// itself diverges); generated cases: 0
    #[serde(default)]
    judge_from: u16,
    /// `--heartbeat-timeout 0` (every silent worker is failed at the next tick) instead of the default 15 s
    timeout_zero: bool,
    /// a scaling policy given on the command line
    policy: bool,
    ops: Vec<Op>,
    /// per operation: take worker / connector / pipeline names literally (may hit unknown names and be
    /// rejected) instead of steering them to existing entries
    #[serde(default)]
    literal: Vec<bool>,
}

fn op() -> impl Strategy<Value = Op> {
    let w = 0u8..3;
    prop_oneof![
        5 => w.clone().prop_map(|w| Op::Register { w }),
        3 => (w.clone(), 0u8..4).prop_map(|(w, running)| Op::Heartbeat { w, running }),
        1 => w.clone().prop_map(|w| Op::DeleteWorker { w }),
        4 => (0u8..3, proptest::collection::vec((proptest::option::weighted(0.6, 0u8..3), 1u8..3).prop_map(|(affinity, replicas)| PSpec { affinity, replicas }), 1..4)).prop_map(|(g, pipes)| Op::Deploy { g, pipes }),
        2 => (0u8..3).prop_map(|idx| Op::Teardown { idx }),
        3 => (0u8..3, 0u8..3, proptest::option::weighted(0.3, 0u8..2), w.clone()).prop_map(|(idx, p, rep, target)| Op::Migrate { idx, p, rep, target }),
        1 => w.clone().prop_map(|w| Op::Drain { w }),
        2 => Just(Op::Rebalance),
        3 => (0u8..3, 0u8..12).prop_map(|(n, v)| Op::ConnCreate { n, v }),
        2 => (0u8..3, 0u8..12).prop_map(|(n, v)| Op::ConnUpdate { n, v }),
        1 => (0u8..3).prop_map(|n| Op::ConnDelete { n }),
        6 => Just(Op::Tick),
    ]
}

fn case() -> impl Strategy<Value = Case> {
    (proptest::bool::weighted(0.3), proptest::bool::weighted(0.2), proptest::collection::vec(op(), 1..=30), proptest::collection::vec(proptest::bool::weighted(0.15), 30)).prop_map(|(timeout_zero, policy, ops, literal)| Case { mode: 0, judge_from: 0, timeout_zero, policy, ops, literal })
}

// ------------------------------------------------------------------ environment: runtime + mock workers

struct Env {
    rt: tokio::runtime::Runtime,
    /// w0, w1 answer deploy / delete; w2's address refuses connections
    addrs: [String; 3],
}

static ENV: OnceLock<Env> = OnceLock::new();
static DEPLOY_SEQ: AtomicUsize = AtomicUsize::new(0);
static NOT_LEADER_IN_BUDGET: AtomicUsize = AtomicUsize::new(0);

fn mock_worker() -> impl warp::Filter<Extract = (impl warp::Reply,), Error = warp::Rejection> + Clone {
    use warp::Filter;
    let base = warp::path("api").and(warp::path("v1")).and(warp::path("pipelines"));
    let deploy = base.and(warp::path::end()).and(warp::post()).and(warp::body::json::<J>()).map(|body: J| {
        let name = body["name"].as_str().unwrap_or("unknown").to_string();
        let id = format!("pid-{}-{}", name, DEPLOY_SEQ.fetch_add(1, Ordering::Relaxed));
        warp::reply::with_status(warp::reply::json(&json!({"id": id, "name": name, "status": "running"})), warp::http::StatusCode::CREATED)
    });
    let delete = base.and(warp::path::param::<String>()).and(warp::path::end()).and(warp::delete()).map(|_id: String| warp::reply::json(&json!({"deleted": true})));
    deploy.or(delete)
}

fn env() -> &'static Env {
    ENV.get_or_init(|| {
        let rt = tokio::runtime::Builder::new_multi_thread().worker_threads(4).enable_all().build().unwrap();
        let mut addrs: Vec<String> = vec![];
        for _ in 0..2 {
            let (addr, fut) = rt.block_on(async { warp::serve(mock_worker()).bind_ephemeral(([127, 0, 0, 1], 0)) });
            rt.spawn(fut);
            addrs.push(format!("http://{}", addr));
        }
        let dead = {
            let l = std::net::TcpListener::bind("127.0.0.1:0").unwrap();
            let p = l.local_addr().unwrap().port();
            drop(l);
            format!("http://127.0.0.1:{}", p)
        };
        addrs.push(dead);
        Env { rt, addrs: [addrs[0].clone(), addrs[1].clone(), addrs[2].clone()] }
    })
}

// ------------------------------------------------------------------ projection of a coordinator view

#[derive(Clone, Debug, PartialEq)]
struct Proj {
    /// id -> (status, sorted assigned pipelines)
    workers: BTreeMap<String, (String, Vec<String>)>,
    groups: BTreeMap<String, J>,
    connectors: BTreeMap<String, J>,
    policy: J,
}

fn proj(c: &Coordinator) -> Proj {
    Proj {
        workers: c
            .workers
            .iter()
            .map(|(id, w)| {
                let mut a = w.assigned_pipelines.clone();
                a.sort();
                (id.0.clone(), (w.status.to_string(), a))
            })
            .collect(),
        groups: c.pipeline_groups.iter().map(|(k, g)| (k.clone(), serde_json::to_value(g).unwrap())).collect(),
        connectors: c.connectors.iter().map(|(k, g)| (k.clone(), serde_json::to_value(g).unwrap())).collect(),
        policy: serde_json::to_value(&c.scaling_policy).unwrap(),
    }
}

const COMPONENTS: [&str; 7] = ["worker-set", "worker.status", "worker.assigned_pipelines", "group-set", "group", "connectors", "scaling_policy"];

/// Components in which two views differ, each with a short description.
fn diff(a: &Proj, b: &Proj, an: &str, bn: &str) -> BTreeMap<&'static str, String> {
    let mut d = BTreeMap::new();
    let ka: BTreeSet<_> = a.workers.keys().collect();
    let kb: BTreeSet<_> = b.workers.keys().collect();
    if ka != kb {
        d.insert("worker-set", format!("{an} has workers {:?}, {bn} has {:?}", ka, kb));
    }
    for (id, (sa, pa)) in &a.workers {
        if let Some((sb, pb)) = b.workers.get(id) {
            if sa != sb {
                d.entry("worker.status").or_insert(format!("worker {id}: {an} says {sa}, {bn} says {sb}"));
            }
            if pa != pb {
                d.entry("worker.assigned_pipelines").or_insert(format!("worker {id}: {an} has {:?}, {bn} has {:?}", pa, pb));
            }
        }
    }
    let ga: BTreeSet<_> = a.groups.keys().collect();
    let gb: BTreeSet<_> = b.groups.keys().collect();
    if ga != gb {
        d.insert("group-set", format!("{an} has {} group(s) {:?}, {bn} has {} {:?}", ga.len(), ga, gb.len(), gb));
    }
    for (id, va) in &a.groups {
        if let Some(vb) = b.groups.get(id) {
            if va != vb {
                d.entry("group").or_insert(format!("group {id}: {an} placements/status {} | {bn} {}", brief_group(va), brief_group(vb)));
            }
        }
    }
    if a.connectors != b.connectors {
        d.insert("connectors", format!("{an} {:?} | {bn} {:?}", a.connectors, b.connectors));
    }
    if a.policy != b.policy {
        d.insert("scaling_policy", format!("{an} {} | {bn} {}", a.policy, b.policy));
    }
    d
}

fn brief_group(g: &J) -> String {
    let mut pl: Vec<String> = g["placements"].as_object().map(|m| m.iter().map(|(k, v)| format!("{k}@{}:{}#{}", v["worker_id"], v["status"], v["epoch"])).collect()).unwrap_or_default();
    pl.sort();
    format!("{} {:?}", g["status"], pl)
}

// ------------------------------------------------------------------ known-finding classes (not judged in generated cases)

/// (component, operation kind) pairs whose divergence is a recorded known finding (see /verif/known_findings):
/// the leader changes these without replicating them.
const MASK: &[(&str, &str)] = &[
    // worker.assigned_pipelines is replicated only by reconcile_placements
    ("worker.assigned_pipelines", "deploy"),
    ("worker.assigned_pipelines", "teardown"),
    ("worker.assigned_pipelines", "migrate"),
    ("worker.assigned_pipelines", "rebalance-with-migrations"),
    // drain replicates nothing: worker removal, moved placements, assigned pipelines
    ("worker-set", "drain"),
    ("group", "drain"),
    ("worker.assigned_pipelines", "drain"),
    // migrations started by the health loop (auto-rebalance after reconcile) are not replicated
    ("worker.assigned_pipelines", "tick-reconcile-rebalance"),
    ("group", "tick-reconcile-rebalance"),
    // a heartbeat that recovers an unhealthy worker is not replicated
    ("worker.status", "heartbeat-recovery"),
    // sync_from_raft never moves a worker back to ready: a follower keeps "unhealthy" after the worker re-registers
    ("worker.status", "register-worker"),
];

fn masked(comp: &str, opkind: &str) -> bool {
    // VERIF_C38_SURVEY=1 (development aid): nothing is judged, the class histogram lists every divergence class
    static SURVEY: OnceLock<bool> = OnceLock::new();
    *SURVEY.get_or_init(|| std::env::var("VERIF_C38_SURVEY").is_ok()) || MASK.iter().any(|(c, o)| *c == comp && *o == opkind)
}

// ------------------------------------------------------------------ the health tick, mirrored from varpulis-cli/src/main.rs

/// `coord.<call>(` sequence of the loop body in main.rs that `tick` mirrors; checked against the source text.
const TICK_CALLS: &[&str] = &[
    "update_raft_role",
    "cluster_metrics.update_raft_metrics",
    "sync_from_raft",
    "ha_role.is_writer",
    "health_sweep",
    "handle_worker_failure",
    "check_connector_health",
    "cleanup_completed_migrations",
    "reconcile_placements",
    "rebalance",
    "evaluate_scaling",
    "fire_scaling_webhook",
];

fn tick_mirror_is_current(verif_dir: &std::path::Path) -> Result<(), String> {
    let cargo = std::fs::read_to_string(verif_dir.join("harness/Cargo.toml")).map_err(|e| format!("harness/Cargo.toml: {e}"))?;
    let line = cargo.lines().find(|l| l.starts_with("varpulis-cli")).ok_or("no varpulis-cli path in harness/Cargo.toml")?;
    let path = line.split('"').nth(1).ok_or("cannot parse varpulis-cli path")?;
    let src = std::fs::read_to_string(std::path::Path::new(path).join("src/main.rs")).map_err(|e| format!("{path}/src/main.rs: {e}"))?;
    let start = src.find("// Spawn periodic health sweep").ok_or("health loop start marker not found")?;
    let end = src[start..].find("// Health endpoint").ok_or("health loop end marker not found")? + start;
    let body = &src[start..end];
    let mut calls: Vec<String> = vec![];
    let mut rest = body;
    while let Some(i) = rest.find("coord.") {
        let tail = &rest[i + 6..];
        let name: String = tail.chars().take_while(|c| c.is_ascii_alphanumeric() || *c == '_' || *c == '.').collect();
        let after = &tail[name.len()..];
        let name = name.trim_end_matches('.').to_string();
        // calls only (fields read like coord.raft_handle / coord.pending_rebalance are not calls)
        if after.starts_with('(') {
            calls.push(name);
        }
        rest = &tail[1..];
    }
    let want: Vec<String> = TICK_CALLS.iter().map(|s| s.to_string()).collect();
    if calls != want {
        return Err(format!("health loop in {path}/src/main.rs calls {:?}, the harness mirrors {:?}", calls, want));
    }
    for needle in ["WorkerStatusChanged", "status: \"unhealthy\".to_string()", "handle.raft.client_write(cmd).await", "if coord.pending_rebalance {", "from_secs(3600)", "if !result.workers_marked_unhealthy.is_empty()"] {
        if !body.contains(needle) {
            return Err(format!("health loop no longer contains `{needle}`"));
        }
    }
    Ok(())
}

struct TickInfo {
    reverted: BTreeMap<&'static str, String>,
    failed_workers: usize,
    reconciled: usize,
    rebalanced: usize,
    was_writer: bool,
}

async fn tick(coordinator: &SharedCoordinator) -> TickInfo {
    let mut coord = coordinator.write().await;
    coord.update_raft_role();
    if let Some(ref handle) = coord.raft_handle {
        let metrics = handle.raft.metrics().borrow().clone();
        let role = if metrics.current_leader == Some(metrics.id) { 2.0 } else { 0.0 };
        coord.cluster_metrics.update_raft_metrics(role, metrics.current_term as f64, metrics.last_applied.map(|l| l.index as f64).unwrap_or(0.0));
    }
    let before = proj(&coord);
    coord.sync_from_raft();
    let after = proj(&coord);
    let mut info = TickInfo { reverted: diff(&before, &after, "before sync", "after sync"), failed_workers: 0, reconciled: 0, rebalanced: 0, was_writer: true };
    if !coord.ha_role.is_writer() {
        info.was_writer = false;
        return info;
    }
    let result = coord.health_sweep();
    if !result.workers_marked_unhealthy.is_empty() {
        let failed_workers: Vec<WorkerId> = result.workers_marked_unhealthy.clone();
        info.failed_workers = failed_workers.len();
        if let Some(ref handle) = coord.raft_handle {
            for wid in &failed_workers {
                let cmd = ClusterCommand::WorkerStatusChanged { id: wid.0.clone(), status: "unhealthy".to_string() };
                let _ = handle.raft.client_write(cmd).await;
            }
        }
        for wid in failed_workers {
            coord.handle_worker_failure(&wid).await;
        }
    }
    let _ = coord.check_connector_health();
    coord.cleanup_completed_migrations(Duration::from_secs(3600));
    if coord.pending_rebalance {
        info.reconciled = coord.reconcile_placements().await;
        if let Ok(ids) = coord.rebalance().await {
            info.rebalanced = ids.len();
        }
    }
    let _ = coord.evaluate_scaling();
    coord.fire_scaling_webhook().await;
    info
}

// ------------------------------------------------------------------ running a history

fn connector_body(name: &str, v: u8) -> J {
    match if v == 11 { 3 } else { v % 3 } {
        0 => json!({"name": name, "connector_type": "mqtt", "params": {"host": format!("h{v}")}}),
        1 => json!({"name": name, "connector_type": "kafka", "params": {"brokers": "b:9092"}, "description": "d"}),
        2 => json!({"name": name, "connector_type": "console", "params": {}}),
        // invalid (mqtt without host): the API rejects it
        _ => json!({"name": name, "connector_type": "mqtt", "params": {}}),
    }
}

#[derive(Default)]
struct Stats {
    acked: BTreeMap<&'static str, usize>,
    rejected: BTreeMap<&'static str, usize>,
    excluded: BTreeSet<String>,
    notes: BTreeSet<String>,
    ticks_after_interesting: usize,
    failover_ticks: usize,
    recoveries: usize,
    tick_rebalances: usize,
    checks: usize,
}

async fn send(routes: &(impl warp::Filter<Extract = (impl warp::Reply + Send,), Error = warp::Rejection> + Clone + Send + Sync + 'static), method: &str, path: &str, body: Option<J>) -> (u16, J) {
    let mut req = warp::test::request().method(method).path(path);
    if let Some(b) = &body {
        req = req.json(b);
    }
    let resp = req.reply(routes).await;
    let status = resp.status().as_u16();
    let v = serde_json::from_slice(resp.body()).unwrap_or(J::Null);
    (status, v)
}

async fn run_history(c: &Case) -> Result<Stats, Outcome> {
    let e = env();
    let peer = "http://127.0.0.1:1".to_string();
    let boot = match vc::raft::bootstrap(1, &[peer.clone()], None).await {
        Ok(b) => b,
        Err(err) => return Err(Outcome::discard(format!("raft bootstrap failed: {err}"))),
    };
    let raft = boot.raft.clone();
    if raft.wait(Some(Duration::from_secs(10))).metrics(|m| m.current_leader == Some(1), "leader").await.is_err() {
        NOT_LEADER_IN_BUDGET.fetch_add(1, Ordering::Relaxed);
        let _ = raft.shutdown().await;
        return Err(Outcome::discard("single node not leader within 10 s"));
    }
    let peers: BTreeMap<u64, String> = [(1u64, peer)].into_iter().collect();
    let mut leader = Coordinator::with_raft(raft.clone(), boot.shared_state.clone(), peers.clone(), None);
    // the configuration block of main.rs
    leader.heartbeat_timeout = if c.timeout_zero { Duration::ZERO } else { Duration::from_secs(15) };
    if c.policy {
        leader.scaling_policy = Some(ScalingPolicy { min_workers: 1, max_workers: 5, scale_up_threshold: 5.0, scale_down_threshold: 1.0, cooldown_secs: 60, webhook_url: None });
    }
    let coordinator: SharedCoordinator = Arc::new(tokio::sync::RwLock::new(leader));
    let routes = vc::api::cluster_routes_with_raft(coordinator.clone(), Arc::new(RbacConfig::disabled()), raft.clone(), None);
    // a second coordinator on the same replicated state: what a follower shows after its periodic sync
    let mut follower = Coordinator::with_raft(raft.clone(), boot.shared_state.clone(), peers, None);

    let mut stats = Stats::default();
    let mut tainted: BTreeSet<&'static str> = BTreeSet::new();
    let mut groups: Vec<String> = vec![];
    let mut interesting_since_tick = false;
    let res: Result<(), Outcome> = async {
        // startup configuration is not a change: the policy component starts tainted when one is configured
        if c.policy {
            tainted.insert("scaling_policy");
        }
        for (oi, op) in c.ops.iter().enumerate() {
            let mut opkind: String = op.kind().to_string();
            let mut acked = true;
            let mut reverted: BTreeMap<&'static str, String> = BTreeMap::new();
            let pre_status: BTreeMap<String, String> = coordinator.read().await.workers.iter().map(|(k, w)| (k.0.clone(), w.status.to_string())).collect();
            let lit = c.literal.get(oi).copied().unwrap_or(true);
            // steer a worker index to a registered worker / a connector index to an existing (or free) name
            let known_workers: Vec<String> = pre_status.keys().cloned().collect();
            let worker_name = |w: u8| -> String {
                if lit || known_workers.is_empty() {
                    format!("w{w}")
                } else {
                    known_workers[w as usize % known_workers.len()].clone()
                }
            };
            let known_conns: Vec<String> = {
                let g = coordinator.read().await;
                let mut v: Vec<String> = g.connectors.keys().cloned().collect();
                v.sort();
                v
            };
            let existing_conn = |n: u8| -> String {
                if lit || known_conns.is_empty() {
                    format!("c{n}")
                } else {
                    known_conns[n as usize % known_conns.len()].clone()
                }
            };
            let free_conn = |n: u8| -> String {
                if lit {
                    return format!("c{n}");
                }
                (0..4u8).map(|k| format!("c{}", (n + k) % 4)).find(|c| !known_conns.contains(c)).unwrap_or(format!("c{n}"))
            };
            // steered operations need something to act on
            let needs_worker = matches!(op, Op::Heartbeat { .. } | Op::DeleteWorker { .. } | Op::Drain { .. });
            let needs_conn = matches!(op, Op::ConnUpdate { .. } | Op::ConnDelete { .. });
            if !lit && ((needs_worker && known_workers.is_empty()) || (needs_conn && known_conns.is_empty())) {
                stats.notes.insert("op_skipped:nothing_to_act_on".into());
                continue;
            }
            match op {
                Op::Register { w } => {
                    let body = json!({"worker_id": format!("w{w}"), "address": e.addrs[*w as usize], "api_key": "k", "capacity": {"cpu_cores": 4, "pipelines_running": 0, "max_pipelines": 100}});
                    let (s, _) = send(&routes, "POST", "/api/v1/cluster/workers/register", Some(body)).await;
                    acked = (200..300).contains(&s);
                }
                Op::Heartbeat { w, running } => {
                    let wn = worker_name(*w);
                    let (s, _) = send(&routes, "POST", &format!("/api/v1/cluster/workers/{wn}/heartbeat"), Some(json!({"events_processed": 10 * oi, "pipelines_running": running}))).await;
                    acked = (200..300).contains(&s);
                    if acked && pre_status.get(&wn).map(|s| s == "unhealthy").unwrap_or(false) {
                        opkind = "heartbeat-recovery".into();
                        stats.recoveries += 1;
                        interesting_since_tick = true;
                    }
                }
                Op::DeleteWorker { w } => {
                    let (s, _) = send(&routes, "DELETE", &format!("/api/v1/cluster/workers/{}", worker_name(*w)), None).await;
                    acked = (200..300).contains(&s);
                }
                Op::Deploy { g, pipes } => {
                    let pipelines: Vec<J> = pipes.iter().enumerate().map(|(i, p)| json!({"name": format!("p{i}"), "source": "stream S = E", "worker_affinity": p.affinity.map(|a| format!("w{a}")), "replicas": p.replicas})).collect();
                    let (s, v) = send(&routes, "POST", "/api/v1/cluster/pipeline-groups", Some(json!({"name": format!("g{g}"), "pipelines": pipelines}))).await;
                    acked = (200..300).contains(&s);
                    if acked {
                        if let Some(id) = v["id"].as_str() {
                            groups.push(id.to_string());
                        }
                        interesting_since_tick = true;
                    }
                }
                Op::Teardown { idx } => {
                    if groups.is_empty() {
                        stats.notes.insert("op_skipped:no_group".into());
                        continue;
                    }
                    let gid = groups.remove(*idx as usize % groups.len());
                    let (s, _) = send(&routes, "DELETE", &format!("/api/v1/cluster/pipeline-groups/{gid}"), None).await;
                    acked = (200..300).contains(&s);
                }
                Op::Migrate { idx, p, rep, target } => {
                    if groups.is_empty() {
                        stats.notes.insert("op_skipped:no_group".into());
                        continue;
                    }
                    let gid = &groups[*idx as usize % groups.len()];
                    // steer to a placement that exists and to a worker that is not its current one
                    let (pname, tname) = {
                        let g = coordinator.read().await;
                        let mut names: Vec<(String, String)> = g.pipeline_groups.get(gid).map(|gr| gr.placements.iter().map(|(k, d)| (k.clone(), d.worker_id.0.clone())).collect()).unwrap_or_default();
                        names.sort();
                        if lit || names.is_empty() {
                            (match rep { Some(r) => format!("p{p}#{r}"), None => format!("p{p}") }, format!("w{target}"))
                        } else {
                            let (pn, cur) = names[*p as usize % names.len()].clone();
                            let others: Vec<&String> = known_workers.iter().filter(|w| **w != cur).collect();
                            let t = if others.is_empty() { format!("w{target}") } else { others[*target as usize % others.len()].clone() };
                            (pn, t)
                        }
                    };
                    let pname_enc = pname.replace('#', "%23");
                    let (s, _) = send(&routes, "POST", &format!("/api/v1/cluster/pipelines/{gid}/{pname_enc}/migrate"), Some(json!({"target_worker_id": tname}))).await;
                    acked = (200..300).contains(&s);
                    interesting_since_tick |= acked;
                }
                Op::Drain { w } => {
                    let (s, _) = send(&routes, "POST", &format!("/api/v1/cluster/workers/{}/drain", worker_name(*w)), Some(json!({"timeout_secs": null}))).await;
                    acked = (200..300).contains(&s);
                    interesting_since_tick |= acked;
                }
                Op::Rebalance => {
                    let (s, v) = send(&routes, "POST", "/api/v1/cluster/rebalance", None).await;
                    acked = (200..300).contains(&s);
                    if acked && v["migrations_started"].as_u64().unwrap_or(0) > 0 {
                        opkind = "rebalance-with-migrations".into();
                        interesting_since_tick = true;
                    }
                }
                Op::ConnCreate { n, v } => {
                    let (s, _) = send(&routes, "POST", "/api/v1/cluster/connectors", Some(connector_body(&free_conn(*n), *v))).await;
                    acked = (200..300).contains(&s);
                    interesting_since_tick |= acked;
                }
                Op::ConnUpdate { n, v } => {
                    let cn = existing_conn(*n);
                    let (s, _) = send(&routes, "PUT", &format!("/api/v1/cluster/connectors/{cn}"), Some(connector_body(&cn, *v))).await;
                    acked = (200..300).contains(&s);
                    interesting_since_tick |= acked;
                }
                Op::ConnDelete { n } => {
                    let (s, _) = send(&routes, "DELETE", &format!("/api/v1/cluster/connectors/{}", existing_conn(*n)), None).await;
                    acked = (200..300).contains(&s);
                    interesting_since_tick |= acked;
                }
                Op::Tick => {
                    let info = tick(&coordinator).await;
                    if !info.was_writer {
                        return Err(Outcome::discard("single node lost leadership"));
                    }
                    reverted = info.reverted;
                    if info.failed_workers > 0 {
                        opkind = "tick-failover".into();
                        stats.failover_ticks += 1;
                    } else if info.reconciled > 0 || info.rebalanced > 0 {
                        opkind = "tick-reconcile-rebalance".into();
                        stats.tick_rebalances += 1;
                    }
                    if interesting_since_tick {
                        stats.ticks_after_interesting += 1;
                    }
                    interesting_since_tick = info.failed_workers > 0;
                }
            }
            let kind_static = op.kind();
            if acked {
                *stats.acked.entry(kind_static).or_insert(0) += 1;
            } else {
                *stats.rejected.entry(kind_static).or_insert(0) += 1;
            }

            // (2) re-synchronising must not revert anything
            let judging = oi >= c.judge_from as usize;
            for (comp, what) in &reverted {
                if !judging {
                    continue;
                }
                if c.mode != 2 && tainted.contains(comp) {
                    stats.excluded.insert(format!("excluded:sync-reverts:{comp}"));
                } else {
                    return Err(Outcome::fail(format!("sync-reverts:{comp}"), format!("op#{oi} tick: sync_from_raft changed the leader's view: {what}")));
                }
            }

            // (1)+(3) the view derived from the replicated state (a follower after its sync) equals the leader's view
            follower.sync_from_raft();
            let pf = proj(&follower);
            let pl = proj(&*coordinator.read().await);
            let d = diff(&pl, &pf, "leader", "follower");
            stats.checks += 1;
            for comp in COMPONENTS {
                match d.get(comp) {
                    None => {
                        tainted.remove(comp);
                    }
                    Some(what) => {
                        if tainted.contains(comp) {
                            stats.excluded.insert(format!("excluded:still-diverged:{comp}"));
                        } else if !acked {
                            // a rejected request is not an acknowledged change: counted, not judged
                            stats.notes.insert(format!("note:rejected-{opkind}-left-{comp}-diverged"));
                            tainted.insert(comp);
                        } else if c.mode == 2 || !judging {
                            tainted.insert(comp);
                        } else if c.mode == 0 && masked(comp, &opkind) {
                            stats.excluded.insert(format!("excluded:desync:{comp}:after-{opkind}"));
                            tainted.insert(comp);
                        } else {
                            return Err(Outcome::fail(format!("desync:{comp}:after-{opkind}"), format!("op#{oi} {:?} acknowledged, then {what}", op)));
                        }
                    }
                }
            }
        }
        Ok(())
    }
    .await;
    let _ = raft.shutdown().await;
    res.map(|_| stats)
}

fn run_case(c: &Case) -> Outcome {
    let e = env();
    match e.rt.block_on(run_history(c)) {
        Err(o) => o,
        Ok(s) => {
            let nt = s.ticks_after_interesting > 0;
            let mut o = Outcome::pass()
                .nontrivial(nt)
                .class_if(nt, "tick_after_deploy_migration_recovery_or_connector_change")
                .class_if(s.failover_ticks > 0, "tick_with_failover_attempt")
                .class_if(s.recoveries > 0, "heartbeat_recovery")
                .class_if(s.tick_rebalances > 0, "tick_with_reconcile_or_rebalance")
                .class_if(c.timeout_zero, "cfg:heartbeat_timeout_0")
                .class_if(c.policy, "cfg:scaling_policy");
            for (k, _) in s.acked {
                o = o.class(format!("acked:{k}"));
            }
            for (k, _) in s.rejected {
                o = o.class(format!("rejected:{k}"));
            }
            for k in s.excluded {
                o = o.class(k);
            }
            for k in s.notes {
                o = o.class(k);
            }
            o
        }
    }
}

fn main() {
    let check = Check::new("C38", "exploration");
    check.rule(
        "histories of 1..30 API operations (register / heartbeat / delete / drain worker, deploy with affinity+replicas, teardown, manual migrate, rebalance, connector create/update/delete incl. invalid ones) through the real warp routes of a single-node in-process Raft coordinator with two answering mock workers and one unreachable worker, \
         interleaved with health ticks that replay the loop body of varpulis-cli/src/main.rs (checked against its source text); configs: heartbeat timeout 15 s or 0, optional scaling policy. \
         After every acknowledged operation and every tick: view of a second coordinator synced from the replicated state == leader view (worker set, status, assigned pipelines, groups incl. placements, connectors, scaling policy); inside every tick: sync_from_raft must not change the leader's view. \
         non-trivial = a tick that follows a deploy, migration, drain, rebalance with migrations, heartbeat recovery, failover attempt or connector change.",
    );
    check.assume("mock workers accept every deploy/delete; checkpoint/restore endpoints are absent (the coordinator treats them as best effort)");
    check.assume("3-node variant not run: follower view is represented by a second coordinator object reading the same replicated state");
    match tick_mirror_is_current(&check.verif_dir) {
        Ok(()) => {}
        Err(e) => {
            check.inconclusive(format!("harness stale: {e}"));
            check.finish();
        }
    }
    check.explore("single_node", case, 4000, 100_000, run_case);
    let n = NOT_LEADER_IN_BUDGET.load(Ordering::Relaxed);
    if n > 0 {
        check.inconclusive(format!("{n} histories: the single Raft node did not become leader within 10 s"));
    }
    check.finish();
}
