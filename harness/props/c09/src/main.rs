//! C09 A filter selects the same events in a stream `.where(...)` and in a sequence step.
use proptest::prelude::*;
use serde::{Deserialize, Serialize};
use std::collections::BTreeSet;
use varpulis_core::ast::{BinOp, Expr, UnaryOp};
use varpulis_core::Value;
use vh_common::{Check, Outcome};
use vh_gen::expr::{fold, Op, E};
use vh_gen::{engine::Eng, Ev, F, V};

#[derive(Clone, Debug, Serialize, Deserialize)]
struct Case {
    filter: E,
    /// per event: values of f1..f3 (absent name = missing field)
    events: Vec<Vec<(String, V)>>,
    /// replay-only: keep the events of the classes recorded as known findings
    #[serde(default)]
    raw: bool,
}

const SENTINEL: i64 = 900;

fn eval(e: &Expr, ev: &varpulis_runtime::event::Event) -> Option<Value> {
    varpulis_runtime::engine::eval_filter_expr(e, ev, varpulis_runtime::sequence::SequenceContext::empty())
}

// ------------------------------------------------------------------ attribution model
// A model of how the SASE side judges a filter (sase.rs eval_predicate / compare_values over the
// translation done by compiler.rs expr_to_sase_predicate).  It is NOT the oracle (the oracle is the
// real engine on both sides); it only names the known root cause of a divergence and lets the
// generator drop exactly the events of those classes.

fn lit_value(e: &Expr) -> Option<Value> {
    match e {
        Expr::Int(n) => Some(Value::Int(*n)),
        Expr::Float(f) => Some(Value::Float(*f)),
        Expr::Str(s) => Some(Value::Str(s.clone().into())),
        Expr::Bool(b) => Some(Value::Bool(*b)),
        _ => None,
    }
}

fn sase_equal(l: &Value, r: &Value) -> bool {
    match (l, r) {
        (Value::Int(a), Value::Int(b)) => a == b,
        (Value::Float(a), Value::Float(b)) => (a - b).abs() < f64::EPSILON,
        (Value::Int(a), Value::Float(b)) | (Value::Float(b), Value::Int(a)) => (*a as f64 - b).abs() < f64::EPSILON,
        (Value::Str(a), Value::Str(b)) => a == b,
        (Value::Bool(a), Value::Bool(b)) => a == b,
        _ => false,
    }
}

fn sase_cmp(l: &Value, r: &Value) -> Option<std::cmp::Ordering> {
    use varpulis_runtime::engine::evaluator::{cmp_float_int, cmp_int_float};
    match (l, r) {
        (Value::Int(a), Value::Int(b)) => Some(a.cmp(b)),
        (Value::Float(a), Value::Float(b)) => a.partial_cmp(b),
        (Value::Int(a), Value::Float(b)) => cmp_int_float(*a, *b),
        (Value::Float(a), Value::Int(b)) => cmp_float_int(*a, *b),
        (Value::Str(a), Value::Str(b)) => Some(a.cmp(b)),
        _ => None,
    }
}

fn sase_compare(l: &Value, r: &Value, op: BinOp) -> bool {
    use std::cmp::Ordering::*;
    match op {
        BinOp::Eq => sase_equal(l, r),
        BinOp::NotEq => !sase_equal(l, r),
        BinOp::Lt => sase_cmp(l, r) == Some(Less),
        BinOp::Le => matches!(sase_cmp(l, r), Some(Less | Equal)),
        BinOp::Gt => sase_cmp(l, r) == Some(Greater),
        BinOp::Ge => matches!(sase_cmp(l, r), Some(Greater | Equal)),
        _ => false,
    }
}

fn is_cmp(op: BinOp) -> bool {
    matches!(op, BinOp::Eq | BinOp::NotEq | BinOp::Lt | BinOp::Le | BinOp::Gt | BinOp::Ge)
}

fn is_bool(v: &Option<Value>) -> bool {
    matches!(v, Some(Value::Bool(_)))
}

/// returns the SASE-side verdict for `e`, collecting the known-divergence tags met on the way
fn walk(e: &Expr, ev: &varpulis_runtime::event::Event, tags: &mut BTreeSet<&'static str>) -> bool {
    match e {
        Expr::Binary { op: BinOp::And, left, right } => {
            let (l, r) = (walk(left, ev, tags), walk(right, ev, tags));
            l && r
        }
        Expr::Binary { op: BinOp::Or, left, right } => {
            let (l, r) = (walk(left, ev, tags), walk(right, ev, tags));
            if (l || r) && (!is_bool(&eval(left, ev)) || !is_bool(&eval(right, ev))) {
                tags.insert("or-with-undefined-operand");
            }
            l || r
        }
        Expr::Unary { op: UnaryOp::Not, expr: inner } => {
            let s = walk(inner, ev, tags);
            if !s && !is_bool(&eval(inner, ev)) {
                tags.insert("not-of-undefined");
            }
            !s
        }
        Expr::Binary { op, left, right } if is_cmp(*op) && matches!(left.as_ref(), Expr::Ident(_)) && lit_value(right).is_some() => {
            let Expr::Ident(f) = left.as_ref() else { unreachable!() };
            let lit = lit_value(right).unwrap();
            let s = ev.get(f).is_some_and(|v| sase_compare(v, &lit, *op));
            let v = eval(e, ev) == Some(Value::Bool(true));
            if s != v {
                let fv = ev.get(f);
                let tag = match (op, fv, &lit) {
                    (BinOp::Eq | BinOp::NotEq, Some(Value::Int(_)), Value::Float(_)) | (BinOp::Eq | BinOp::NotEq, Some(Value::Float(_)), Value::Int(_)) => "eq-int-vs-float",
                    (BinOp::Eq | BinOp::NotEq, Some(Value::Float(_)), Value::Float(_)) => "eq-float-epsilon",
                    (BinOp::Lt | BinOp::Le | BinOp::Gt | BinOp::Ge, Some(Value::Str(_)), Value::Str(_)) => "order-on-strings",
                    _ => "compare-unexplained",
                };
                tags.insert(tag);
            }
            s
        }
        other => eval(other, ev) == Some(Value::Bool(true)),
    }
}

const KNOWN_TAGS: [&str; 5] = ["eq-int-vs-float", "eq-float-epsilon", "order-on-strings", "not-of-undefined", "or-with-undefined-operand"];

/// (model predicts a divergence, tags)
/// `step_filter`: what the sequence step gets (the parser's constant folder does not visit stream
/// sources, so it is the unfolded expression); `where_filter`: what `.where` gets (folded).
fn predict(step_filter: &Expr, where_filter: &Expr, ev: &varpulis_runtime::event::Event) -> (bool, BTreeSet<&'static str>) {
    let mut tags = BTreeSet::new();
    let s = walk(step_filter, ev, &mut tags);
    let v = eval(where_filter, ev) == Some(Value::Bool(true));
    (s != v, tags)
}

// ------------------------------------------------------------------ check

fn event_of(k: usize, fields: &[(String, V)]) -> Ev {
    let mut ev = Ev::new("A", k as i64).with("id", V::Int(k as i64 + 1));
    for (n, v) in fields {
        ev = ev.with(n, v.clone());
    }
    ev
}

fn has_kind(e: &E, f: &dyn Fn(&E) -> bool) -> bool {
    if f(e) {
        return true;
    }
    match e {
        E::Neg(x) | E::Not(x) => has_kind(x, f),
        E::Bin(_, l, r) => has_kind(l, f) || has_kind(r, f),
        E::Arr(a) | E::Call(_, a) => a.iter().any(|x| has_kind(x, f)),
        _ => false,
    }
}

fn run(c: &Case) -> Outcome {
    let text = c.filter.render();
    let src = format!("stream S = A.where({t}).emit(id: id)\nstream P = sequence(a: A where {t}).emit(id: a.id)\n", t = text);
    let mut eng = match Eng::new(&src) {
        Ok(e) => e,
        Err(e) => return Outcome::discard(format!("program rejected: {} :: {}", e.chars().take(80).collect::<String>(), text)),
    };
    let unfolded = c.filter.to_ast();
    let parsed = fold(&unfolded);
    if std::env::var("C09_DEBUG").is_ok() {
        eprintln!("{:#?}", varpulis_parser::parse(&src).map(|p| p.statements.into_iter().map(|s| s.node).collect::<Vec<_>>()));
    }
    // exclusion by construction of the known classes
    let mut kept: Vec<(usize, Ev, BTreeSet<&'static str>, bool)> = vec![];
    let mut excluded: BTreeSet<&'static str> = BTreeSet::new();
    for (k, f) in c.events.iter().enumerate() {
        let ev = event_of(k, f);
        let (div, tags) = predict(&unfolded, &parsed, &ev.to_event());
        let all_known = !tags.is_empty() && tags.iter().all(|t| KNOWN_TAGS.contains(t));
        if !c.raw && div && all_known {
            excluded.extend(tags.iter());
            continue;
        }
        kept.push((k, ev, tags, div));
    }
    let mut s_ids: BTreeSet<i64> = BTreeSet::new();
    let mut p_ids: BTreeSet<i64> = BTreeSet::new();
    let mut feed: Vec<Ev> = kept.iter().map(|(_, e, _, _)| e.clone()).collect();
    for j in 0..2 {
        feed.push(Ev::new("A", 1000 + j).with("id", V::Int(SENTINEL + j)));
    }
    for ev in &feed {
        let outs = match eng.process(ev) {
            Ok(o) => vh_gen::engine::norm(&o),
            Err(e) => return Outcome::fail("engine-error", e),
        };
        if std::env::var("C09_DEBUG").is_ok() {
            eprintln!("in {:?} -> {:?}", ev.fields, outs);
        }
        for o in outs {
            let Some(id) = o.get_int("id") else { return Outcome::fail("output-without-id", format!("{:?}", o)) };
            if id >= SENTINEL {
                continue;
            }
            let set = if o.ty == "S" { &mut s_ids } else { &mut p_ids };
            if !set.insert(id) {
                return Outcome::fail(format!("duplicate-output:{}", o.ty), format!("id {} emitted twice by {} for filter `{}`", id, o.ty, text));
            }
        }
    }
    let diff: Vec<i64> = s_ids.symmetric_difference(&p_ids).cloned().collect();
    if let Some(id) = diff.first() {
        let (_, ev, tags, div) = kept.iter().find(|(k, ..)| *k as i64 + 1 == *id).expect("id belongs to a fed event");
        let sig = if tags.is_empty() || !div { "diverge:unexplained".to_string() } else { format!("diverge:{}", tags.iter().cloned().collect::<Vec<_>>().join("+")) };
        return Outcome::fail(
            sig,
            format!("filter `{}` on event {:?}: stream .where accepts={} sequence step accepts={} (all: where {:?} / sequence {:?})", text, ev.fields, s_ids.contains(id), p_ids.contains(id), s_ids, p_ids),
        );
    }
    let n = kept.len();
    let some_missing_or_other_type = c.events.iter().any(|f| f.len() < 3) || kept.iter().any(|(_, ev, _, _)| ev.fields.iter().any(|(_, v)| matches!(v, V::Str(_) | V::Bool(_))));
    let nt = !s_ids.is_empty() && s_ids.len() < n && some_missing_or_other_type;
    let mut out = Outcome::pass()
        .nontrivial(nt)
        .class_if(!s_ids.is_empty() && s_ids.len() < n, "accepts_some_rejects_some")
        .class_if(s_ids.is_empty(), "accepts_none")
        .class_if(n > 0 && s_ids.len() == n, "accepts_all")
        .class_if(has_kind(&c.filter, &|e| matches!(e, E::Not(_))), "has_not")
        .class_if(has_kind(&c.filter, &|e| matches!(e, E::Bin(Op::Or, ..))), "has_or")
        .class_if(has_kind(&c.filter, &|e| matches!(e, E::Bin(Op::And, ..))), "has_and")
        .class_if(has_kind(&c.filter, &|e| matches!(e, E::Bin(op, l, r) if op.is_cmp() && matches!(**l, E::Id(_)) && matches!(**r, E::Id(_)))), "field_vs_field")
        .class_if(has_kind(&c.filter, &|e| matches!(e, E::Bin(op, l, r) if op.is_cmp() && matches!(**l, E::Id(_)) && !matches!(**r, E::Id(_)))), "field_vs_literal")
        .class_if(has_kind(&c.filter, &|e| matches!(e, E::Bin(op, l, _) if op.is_cmp() && !matches!(**l, E::Id(_)))), "literal_or_expr_on_the_left")
        .class_if(has_kind(&c.filter, &|e| matches!(e, E::Bin(Op::In | Op::NotIn, ..))), "has_in");
    for t in excluded {
        out = out.class(format!("excluded:{}(known)", t));
    }
    out
}

// ------------------------------------------------------------------ generator

fn field() -> impl Strategy<Value = E> {
    proptest::sample::select(vec!["f1", "f2", "f3"]).prop_map(E::id)
}

fn value_pool() -> impl Strategy<Value = V> {
    prop_oneof![
        12 => proptest::sample::select(vec![0i64, 1, 2, 5]).prop_map(V::Int),
        2 => proptest::sample::select(vec![-1i64, (1 << 53) + 1]).prop_map(V::Int),
        6 => proptest::sample::select(vec![1.0f64, 2.0, 0.5, 2.5]).prop_map(V::f),
        2 => proptest::sample::select(vec![0.0f64, -1.0, 0.3, 0.30000000000000004, 1e-17, 9007199254740992.0]).prop_map(V::f),
        4 => proptest::sample::select(vec!["a", "b"]).prop_map(V::s),
        1 => proptest::sample::select(vec!["", "5"]).prop_map(V::s),
        2 => any::<bool>().prop_map(V::Bool),
    ]
}

fn literal() -> impl Strategy<Value = E> {
    value_pool().prop_map(|v| E::lit(&v).expect("pool values have literal forms"))
}

fn cmp_op() -> impl Strategy<Value = Op> {
    proptest::sample::select(Op::CMP.to_vec())
}

fn atom() -> impl Strategy<Value = E> {
    prop_oneof![
        8 => (cmp_op(), field(), literal()).prop_map(|(op, f, l)| E::bin(op, f, l)),
        2 => (cmp_op(), literal(), field()).prop_map(|(op, l, f)| E::bin(op, l, f)),
        3 => (cmp_op(), field(), field()).prop_map(|(op, a, b)| E::bin(op, a, b)),
        1 => field(),
        // (addend never 0: `f + 0` is rewritten to `f` only on the .where side, which is C10's known finding, not C09's subject)
        1 => (cmp_op(), field(), 1i64..3, literal()).prop_map(|(op, f, a, b)| E::bin(op, E::bin(Op::Add, f, E::Int(a)), b)),
        1 => (any::<bool>(), field(), proptest::collection::vec(literal(), 1..3)).prop_map(|(neg, f, items)| E::bin(if neg { Op::NotIn } else { Op::In }, f, E::Arr(items))),
    ]
}

fn combine(inner: BoxedStrategy<E>) -> BoxedStrategy<E> {
    prop_oneof![
        2 => (inner.clone(), inner.clone()).prop_map(|(a, b)| E::bin(Op::And, a, b)),
        2 => (inner.clone(), inner.clone()).prop_map(|(a, b)| E::bin(Op::Or, a, b)),
        2 => inner.prop_map(|a| E::Not(Box::new(a))),
    ]
    .boxed()
}

fn filter() -> impl Strategy<Value = E> {
    let d0 = atom().boxed();
    let d1 = prop_oneof![1 => d0.clone(), 2 => combine(d0.clone())].boxed();
    let d2 = prop_oneof![1 => d1.clone(), 2 => combine(d1.clone())].boxed();
    let d3 = combine(d2.clone());
    prop_oneof![3 => d0, 4 => d1, 3 => d2, 1 => d3]
}

fn event_fields() -> impl Strategy<Value = Vec<(String, V)>> {
    (proptest::option::weighted(0.9, value_pool()), proptest::option::weighted(0.85, value_pool()), proptest::option::weighted(0.8, value_pool())).prop_map(|(a, b, c)| {
        let mut v = vec![];
        for (n, x) in [("f1", a), ("f2", b), ("f3", c)] {
            if let Some(x) = x {
                v.push((n.to_string(), x));
            }
        }
        v
    })
}

fn strat() -> impl Strategy<Value = Case> {
    (filter(), proptest::collection::vec(event_fields(), 3..9)).prop_map(|(filter, events)| Case { filter, events, raw: false })
}

fn main() {
    let _ = F(0.0);
    let check = Check::new("C09", "exploration");
    check.rule("filters of depth<=3 (and/or/not over comparisons field-vs-literal, literal-vs-field, field-vs-field, arithmetic-vs-literal, bare bool field, in/not in) over 3 fields; 3-8 events whose fields are int/float/string/bool/missing from small colliding pools (incl. 2^53+1, 0.1+0.2, 1e-17); one engine runs `A.where(f).emit(id: id)` and `sequence(a: A where f).emit(id: a.id)` on the same events + 2 sentinels (a one-step sequence emits on the next routed event); oracle: equal accepted-id sets, no duplicates; a harness-side model of the SASE predicate path only names known root causes and drops exactly the events it predicts to diverge for those; non-trivial = the filter accepts some and rejects some events and a field is missing or of another type");
    check.assume("both programs run in the real Engine; sentinels have reserved ids >= 900; attribution model is not part of the verdict (an unpredicted divergence is reported as diverge:unexplained)");
    check.explore("where_vs_sequence", strat, 8_000, 160_000, run);
    check.finish();
}
