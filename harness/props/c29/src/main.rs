//! C29 Every API endpoint enforces its required role.
//!
//! The required access of every route comes from the documentation
//! (`docs/api/openapi.yaml`: "Requires X role", "No authentication required", the
//! `security:` scheme of the operation), never from the filters in the code.  Routes that the
//! user documentation does not mention (the `/raft/*` RPC routes) are "undocumented": for
//! them only the statement's minimum is checked (with authentication enabled a missing or
//! wrong key is never served; rejected requests change nothing).
//!
//! The complete matrix route x credential x configuration is enumerated against the real
//! warp filters (`cluster_routes_with_raft` + `handle_rejection`, `api_routes` +
//! `auth::handle_rejection`), each cell on a freshly built world, with state snapshots of
//! coordinator, Raft node and tenant manager around the request.
use proptest::prelude::*;
use serde::{Deserialize, Serialize};
use serde_json::{json, Value as Json};
use std::collections::BTreeMap;
use std::sync::Arc;
use vh_common::{Check, Outcome};
use vh_server::varpulis_cli::api as cli_api;
use vh_server::varpulis_cluster as vc;
use vh_server::varpulis_runtime::tenant::{SharedTenantManager, TenantManager, TenantQuota};
use warp::Filter;

const K_VIEWER: &str = "viewer-key-v";
const K_OPERATOR: &str = "operator-key-o";
const K_ADMIN: &str = "admin-key-a";
const K_TENANT: &str = "tenant-key-t";
const K_TENANT2: &str = "tenant-key-2";
const K_WRONG: &str = "wrong-key-w";

// ------------------------------------------------------------------ documented requirements

#[derive(Clone, Copy, Debug, PartialEq, Eq, Serialize, Deserialize)]
enum Need {
    Public,
    Viewer,
    Operator,
    Admin,
    /// per-tenant key in x-api-key (SaaS API)
    TenantKey,
    /// admin key in x-admin-key (tenant administration)
    ServerAdmin,
    /// not mentioned in the user documentation
    Undocumented,
}

/// (METHOD, path template) -> requirement, read from the OpenAPI document.
fn documented_requirements() -> Result<BTreeMap<(String, String), Need>, String> {
    let root = std::env::var("VERIF_CORPUS_ROOT").unwrap_or_else(|_| "/repo".to_string());
    let txt = std::fs::read_to_string(format!("{}/docs/api/openapi.yaml", root)).map_err(|e| format!("openapi.yaml: {}", e))?;
    let mut out = BTreeMap::new();
    let mut in_paths = false;
    let mut path: Option<String> = None;
    let mut method: Option<String> = None;
    let mut text = String::new();
    let flush = |path: &Option<String>, method: &Option<String>, text: &str, out: &mut BTreeMap<(String, String), Need>| {
        if let (Some(p), Some(m)) = (path, method) {
            let role_words: Vec<&str> = ["Requires Viewer role", "Requires Operator role", "Requires Admin role", "No authentication required"].into_iter().filter(|w| text.contains(w)).collect();
            let need = if role_words.len() == 1 {
                match role_words[0] {
                    "Requires Viewer role" => Some(Need::Viewer),
                    "Requires Operator role" => Some(Need::Operator),
                    "Requires Admin role" => Some(Need::Admin),
                    _ => Some(Need::Public),
                }
            } else if role_words.len() > 1 {
                None
            } else if text.contains("- AdminKeyAuth: []") {
                Some(Need::ServerAdmin)
            } else if text.contains("- ApiKeyAuth: []") {
                Some(Need::TenantKey)
            } else if !text.contains("security:") && (p == "/health" || p == "/ready") {
                Some(Need::Public)
            } else {
                None
            };
            if let Some(n) = need {
                out.insert((m.to_uppercase(), p.clone()), n);
            } else {
                out.insert((m.to_uppercase(), p.clone()), Need::Undocumented);
            }
        }
    };
    for line in txt.lines() {
        if line.starts_with("paths:") {
            in_paths = true;
            continue;
        }
        if !in_paths {
            continue;
        }
        if !line.starts_with(' ') && !line.trim().is_empty() && !line.starts_with('#') {
            break; // next top-level key
        }
        if line.starts_with("  /") && line.trim_end().ends_with(':') {
            flush(&path, &method, &text, &mut out);
            path = Some(line.trim().trim_end_matches(':').to_string());
            method = None;
            text.clear();
            continue;
        }
        let t = line.trim_end();
        if let Some(m) = ["get", "post", "put", "delete", "patch"].iter().find(|m| t == format!("    {}:", m)) {
            flush(&path, &method, &text, &mut out);
            method = Some(m.to_string());
            text.clear();
            continue;
        }
        text.push_str(line);
        text.push('\n');
    }
    flush(&path, &method, &text, &mut out);
    Ok(out)
}

// ------------------------------------------------------------------ probes

#[derive(Clone, Copy, Debug, PartialEq, Eq, Serialize, Deserialize)]
enum Family {
    Cluster,
    Raft,
    Tenant,
}

#[derive(Clone, Debug)]
struct Probe {
    method: &'static str,
    /// path template as written in the documentation
    doc_path: &'static str,
    /// concrete path (ids exist in the prepared world unless the handler needs HTTP to a worker)
    path: &'static str,
    body: Option<Json>,
    family: Family,
    /// a served request changes state
    mutating: bool,
}

fn raft_vote_body() -> Json {
    serde_json::to_value(openraft::raft::VoteRequest::<u64>::new(openraft::Vote::new(1, 1), None)).unwrap()
}
fn raft_append_body() -> Json {
    let r: openraft::raft::AppendEntriesRequest<vc::raft::TypeConfig> = openraft::raft::AppendEntriesRequest { vote: openraft::Vote::new_committed(1, 1), prev_log_id: None, entries: vec![], leader_commit: None };
    serde_json::to_value(r).unwrap()
}
fn raft_snapshot_body() -> Json {
    let r: openraft::raft::InstallSnapshotRequest<vc::raft::TypeConfig> = openraft::raft::InstallSnapshotRequest {
        vote: openraft::Vote::new_committed(1, 1),
        meta: openraft::SnapshotMeta { last_log_id: None, last_membership: openraft::StoredMembership::default(), snapshot_id: "s1".to_string() },
        offset: 0,
        data: vec![],
        done: true,
    };
    serde_json::to_value(r).unwrap()
}

fn probes() -> Vec<Probe> {
    use Family::*;
    let p = |method, doc_path, path, body: Option<Json>, family, mutating| Probe { method, doc_path, path, body, family, mutating };
    let worker_body = json!({"worker_id": "w2", "address": "http://127.0.0.1:1", "api_key": "wk", "capacity": {"cpu_cores": 2, "pipelines_running": 0, "max_pipelines": 8}});
    let connector = |name: &str| json!({"name": name, "connector_type": "mqtt", "params": {"host": "localhost"}});
    let src = "stream A = E .where(x > 1) .emit(v: x)";
    vec![
        // ---- cluster (docs/api/openapi.yaml)
        p("POST", "/api/v1/cluster/workers/register", "/api/v1/cluster/workers/register", Some(worker_body), Cluster, true),
        p("POST", "/api/v1/cluster/workers/{id}/heartbeat", "/api/v1/cluster/workers/w1/heartbeat", Some(json!({"events_processed": 5, "pipelines_running": 1})), Cluster, true),
        p("GET", "/api/v1/cluster/workers", "/api/v1/cluster/workers", None, Cluster, false),
        p("GET", "/api/v1/cluster/workers/{id}", "/api/v1/cluster/workers/w1", None, Cluster, false),
        p("DELETE", "/api/v1/cluster/workers/{id}", "/api/v1/cluster/workers/w1", None, Cluster, true),
        p("POST", "/api/v1/cluster/workers/{id}/drain", "/api/v1/cluster/workers/w1/drain", Some(json!({"timeout_secs": 1})), Cluster, true),
        p("POST", "/api/v1/cluster/pipeline-groups", "/api/v1/cluster/pipeline-groups", Some(json!({"name": "g-new", "pipelines": [{"name": "p1", "source": src}]})), Cluster, true),
        p("GET", "/api/v1/cluster/pipeline-groups", "/api/v1/cluster/pipeline-groups", None, Cluster, false),
        p("GET", "/api/v1/cluster/pipeline-groups/{id}", "/api/v1/cluster/pipeline-groups/g-none", None, Cluster, false),
        p("DELETE", "/api/v1/cluster/pipeline-groups/{id}", "/api/v1/cluster/pipeline-groups/g-none", None, Cluster, false),
        p("POST", "/api/v1/cluster/pipeline-groups/{id}/inject", "/api/v1/cluster/pipeline-groups/g-none/inject", Some(json!({"event_type": "E", "fields": {"x": 1}})), Cluster, false),
        p("POST", "/api/v1/cluster/pipeline-groups/{id}/inject-batch", "/api/v1/cluster/pipeline-groups/g-none/inject-batch", Some(json!({"events_text": "E { x: 1 }"})), Cluster, false),
        p("GET", "/api/v1/cluster/topology", "/api/v1/cluster/topology", None, Cluster, false),
        p("POST", "/api/v1/cluster/validate", "/api/v1/cluster/validate", Some(json!({"source": src})), Cluster, false),
        p("POST", "/api/v1/cluster/rebalance", "/api/v1/cluster/rebalance", None, Cluster, false),
        p("GET", "/api/v1/cluster/migrations", "/api/v1/cluster/migrations", None, Cluster, false),
        p("GET", "/api/v1/cluster/migrations/{id}", "/api/v1/cluster/migrations/m-none", None, Cluster, false),
        p("POST", "/api/v1/cluster/pipelines/{group}/{pipeline}/migrate", "/api/v1/cluster/pipelines/g-none/p1/migrate", Some(json!({"target_worker_id": "w1"})), Cluster, false),
        p("GET", "/api/v1/cluster/connectors", "/api/v1/cluster/connectors", None, Cluster, false),
        p("POST", "/api/v1/cluster/connectors", "/api/v1/cluster/connectors", Some(connector("c2")), Cluster, true),
        p("GET", "/api/v1/cluster/connectors/{name}", "/api/v1/cluster/connectors/c1", None, Cluster, false),
        p("PUT", "/api/v1/cluster/connectors/{name}", "/api/v1/cluster/connectors/c1", Some(json!({"name": "c1", "connector_type": "mqtt", "params": {"host": "other"}})), Cluster, true),
        p("DELETE", "/api/v1/cluster/connectors/{name}", "/api/v1/cluster/connectors/c1", None, Cluster, true),
        p("GET", "/api/v1/cluster/metrics", "/api/v1/cluster/metrics", None, Cluster, false),
        p("GET", "/api/v1/cluster/prometheus", "/api/v1/cluster/prometheus", None, Cluster, false),
        p("GET", "/api/v1/cluster/scaling", "/api/v1/cluster/scaling", None, Cluster, false),
        p("GET", "/api/v1/cluster/summary", "/api/v1/cluster/summary", None, Cluster, false),
        p("GET", "/api/v1/cluster/raft", "/api/v1/cluster/raft", None, Cluster, false),
        p("GET", "/api/v1/cluster/models", "/api/v1/cluster/models", None, Cluster, false),
        p("POST", "/api/v1/cluster/models", "/api/v1/cluster/models", Some(json!({"name": "m2", "inputs": ["a"], "outputs": ["b"], "data_base64": "AAAA"})), Cluster, true),
        p("DELETE", "/api/v1/cluster/models/{name}", "/api/v1/cluster/models/m1", None, Cluster, true),
        p("GET", "/api/v1/cluster/models/{name}/download", "/api/v1/cluster/models/m1/download", None, Cluster, false),
        p("POST", "/api/v1/cluster/chat", "/api/v1/cluster/chat", Some(json!({"messages": [{"role": "user", "content": "hi"}]})), Cluster, false),
        p("GET", "/api/v1/cluster/chat/config", "/api/v1/cluster/chat/config", None, Cluster, false),
        p("PUT", "/api/v1/cluster/chat/config", "/api/v1/cluster/chat/config", Some(json!({"endpoint": "http://127.0.0.1:1", "model": "m", "provider": "openai-compatible"})), Cluster, true),
        // ---- Raft RPC (not in the user documentation)
        p("POST", "/raft/vote", "/raft/vote", Some(raft_vote_body()), Raft, true),
        p("POST", "/raft/append", "/raft/append", Some(raft_append_body()), Raft, true),
        p("POST", "/raft/snapshot", "/raft/snapshot", Some(raft_snapshot_body()), Raft, true),
        p("POST", "/raft/init", "/raft/init", Some(json!({"members": {"2": "http://127.0.0.1:2"}})), Raft, true),
        p("POST", "/raft/add-learner", "/raft/add-learner", Some(json!({"node_id": 3, "addr": "http://127.0.0.1:3"})), Raft, false),
        p("POST", "/raft/change-membership", "/raft/change-membership", Some(json!({"members": [2]})), Raft, false),
        p("GET", "/raft/metrics", "/raft/metrics", None, Raft, false),
        // ---- SaaS / tenant API
        p("POST", "/api/v1/pipelines", "/api/v1/pipelines", Some(json!({"name": "new", "source": src})), Tenant, true),
        p("GET", "/api/v1/pipelines", "/api/v1/pipelines", None, Tenant, false),
        p("GET", "/api/v1/pipelines/{id}", "/api/v1/pipelines/{PID}", None, Tenant, false),
        p("DELETE", "/api/v1/pipelines/{id}", "/api/v1/pipelines/{PID}", None, Tenant, true),
        p("POST", "/api/v1/pipelines/{id}/events", "/api/v1/pipelines/{PID}/events", Some(json!({"event_type": "E", "fields": {"x": 5}})), Tenant, true),
        p("POST", "/api/v1/pipelines/{id}/events-batch", "/api/v1/pipelines/{PID}/events-batch", Some(json!({"events": [{"event_type": "E", "fields": {"x": 5}}]})), Tenant, true),
        p("POST", "/api/v1/pipelines/{id}/checkpoint", "/api/v1/pipelines/{PID}/checkpoint", None, Tenant, false),
        p("POST", "/api/v1/pipelines/{id}/restore", "/api/v1/pipelines/{PID}/restore", Some(json!({"checkpoint": "{CHECKPOINT}"})), Tenant, true),
        p("GET", "/api/v1/pipelines/{id}/metrics", "/api/v1/pipelines/{PID}/metrics", None, Tenant, false),
        p("POST", "/api/v1/pipelines/{id}/reload", "/api/v1/pipelines/{PID}/reload", Some(json!({"source": "stream B = E .where(x > 3) .emit(w: x)"})), Tenant, true),
        p("GET", "/api/v1/pipelines/{id}/logs", "/api/v1/pipelines/{PID}/logs", None, Tenant, false),
        p("GET", "/api/v1/usage", "/api/v1/usage", None, Tenant, false),
        p("POST", "/api/v1/tenants", "/api/v1/tenants", Some(json!({"name": "newcorp"})), Tenant, true),
        p("GET", "/api/v1/tenants", "/api/v1/tenants", None, Tenant, false),
        p("GET", "/api/v1/tenants/{id}", "/api/v1/tenants/{TID}", None, Tenant, false),
        p("DELETE", "/api/v1/tenants/{id}", "/api/v1/tenants/{TID}", None, Tenant, true),
    ]
}

// ------------------------------------------------------------------ credentials / configurations

#[derive(Clone, Copy, Debug, PartialEq, Eq, Serialize, Deserialize)]
enum Cred {
    None,
    Wrong,
    Viewer,
    Operator,
    Admin,
    TenantKey,
}
const CREDS: [Cred; 6] = [Cred::None, Cred::Wrong, Cred::Viewer, Cred::Operator, Cred::Admin, Cred::TenantKey];

fn cred_key(c: Cred) -> Option<&'static str> {
    match c {
        Cred::None => None,
        Cred::Wrong => Some(K_WRONG),
        Cred::Viewer => Some(K_VIEWER),
        Cred::Operator => Some(K_OPERATOR),
        Cred::Admin => Some(K_ADMIN),
        Cred::TenantKey => Some(K_TENANT),
    }
}

#[derive(Clone, Copy, Debug, PartialEq, Eq, Serialize, Deserialize)]
enum Config {
    // coordinator
    SingleKey,
    MultiKeyFile,
    /// keys file with operator + viewer keys only => no Raft admin key
    MultiKeyFileNoAdmin,
    /// no keys: anonymous access with admin role (`RbacConfig::disabled`), no Raft admin key
    Disabled,
    /// keys file + `allow_anonymous` with the viewer role
    MultiKeyAnonymousViewer,
    // single-node server
    ServerAdminKey,
    ServerNoAdminKey,
    /// `--api-key K`: K is the admin key and the key of the auto-provisioned default tenant
    ServerAdminKeyIsTenant,
}
const COORD_CONFIGS: [Config; 5] = [Config::SingleKey, Config::MultiKeyFile, Config::MultiKeyFileNoAdmin, Config::Disabled, Config::MultiKeyAnonymousViewer];
const SERVER_CONFIGS: [Config; 3] = [Config::ServerAdminKey, Config::ServerNoAdminKey, Config::ServerAdminKeyIsTenant];

#[derive(Clone, Copy, Debug, PartialEq, Eq, PartialOrd, Ord)]
enum Role {
    Viewer,
    Operator,
    Admin,
}

/// Role a credential holds on the coordinator -- written from the documentation of the
/// configurations (rbac module docs), not by calling `authenticate`.
fn coord_role(c: Cred, cfg: Config) -> Option<Role> {
    let by_key = |with_admin: bool| match c {
        Cred::Viewer => Some(Role::Viewer),
        Cred::Operator => Some(Role::Operator),
        Cred::Admin if with_admin => Some(Role::Admin),
        _ => None,
    };
    match cfg {
        Config::Disabled => Some(Role::Admin),
        Config::SingleKey => (c == Cred::Admin).then_some(Role::Admin),
        Config::MultiKeyFile => by_key(true),
        Config::MultiKeyFileNoAdmin => by_key(false),
        Config::MultiKeyAnonymousViewer => {
            if c == Cred::None {
                Some(Role::Viewer)
            } else {
                by_key(true)
            }
        }
        _ => None,
    }
}

fn auth_enabled(cfg: Config) -> bool {
    cfg != Config::Disabled
}

fn raft_admin_key_set(cfg: Config) -> bool {
    matches!(cfg, Config::SingleKey | Config::MultiKeyFile | Config::MultiKeyAnonymousViewer)
}

/// Does the documentation grant `cred` access to a route with requirement `need`?
/// None = the documentation does not decide it.
fn granted(need: Need, family: Family, c: Cred, cfg: Config) -> Option<bool> {
    match need {
        Need::Public => Some(true),
        Need::Viewer | Need::Operator | Need::Admin => {
            let req = match need {
                Need::Viewer => Role::Viewer,
                Need::Operator => Role::Operator,
                _ => Role::Admin,
            };
            Some(coord_role(c, cfg).map(|r| r >= req).unwrap_or(false))
        }
        Need::TenantKey => Some(match cfg {
            Config::ServerAdminKeyIsTenant => c == Cred::TenantKey || c == Cred::Admin,
            _ => c == Cred::TenantKey,
        }),
        Need::ServerAdmin => Some(match cfg {
            Config::ServerNoAdminKey => false,
            _ => c == Cred::Admin,
        }),
        Need::Undocumented => {
            let _ = family;
            None
        }
    }
}

// ------------------------------------------------------------------ worlds

struct Resp {
    status: u16,
    body: String,
}

/// refusal produced by the routing layer / auth filters (no handler ran)
fn refused(r: &Resp) -> bool {
    if r.status == 401 || r.status == 403 {
        return true;
    }
    let msg = serde_json::from_str::<Json>(&r.body).ok().and_then(|j| j["error"].as_str().map(|s| s.to_string())).unwrap_or_default();
    let generic = ["Not found", "Method not allowed", "Internal server error", "Unsupported media type", "Request payload too large", "Invalid query parameters"];
    (r.status >= 400) && (generic.contains(&msg.as_str()) || msg.starts_with("Invalid request body"))
}

fn build_rbac(cfg: Config, dir: &std::path::Path) -> Arc<vc::RbacConfig> {
    let file = |entries: &[(&str, &str)]| {
        let path = dir.join("keys.json");
        let keys: Vec<Json> = entries.iter().map(|(k, r)| json!({"key": k, "role": r, "name": r})).collect();
        std::fs::write(&path, json!({ "keys": keys }).to_string()).unwrap();
        vc::RbacConfig::from_file(&path).expect("keys file loads")
    };
    Arc::new(match cfg {
        Config::SingleKey => vc::RbacConfig::single_key(K_ADMIN.to_string()),
        Config::MultiKeyFile => file(&[(K_ADMIN, "admin"), (K_OPERATOR, "operator"), (K_VIEWER, "viewer")]),
        Config::MultiKeyFileNoAdmin => file(&[(K_OPERATOR, "operator"), (K_VIEWER, "viewer")]),
        Config::Disabled => vc::RbacConfig::disabled(),
        Config::MultiKeyAnonymousViewer => {
            let mut c = file(&[(K_ADMIN, "admin"), (K_OPERATOR, "operator"), (K_VIEWER, "viewer")]);
            c.allow_anonymous = true;
            c.anonymous_role = vc::Role::Viewer;
            c
        }
        _ => unreachable!(),
    })
}

struct Request {
    method: String,
    path: String,
    headers: Vec<(String, String)>,
    body: Option<Json>,
}

async fn coord_snapshot(coord: &vc::SharedCoordinator, raft: &vc::raft::VarpulisRaft) -> String {
    let c = coord.read().await;
    let mut workers: Vec<String> = c
        .workers
        .iter()
        .map(|(id, w)| format!("{}|{}|{}|{:?}|{}/{}/{}|{:?}|{}|{:?}", id.0, w.address, w.api_key, w.status, w.capacity.cpu_cores, w.capacity.pipelines_running, w.capacity.max_pipelines, w.assigned_pipelines, w.events_processed, w.last_heartbeat))
        .collect();
    workers.sort();
    let mut groups: Vec<String> = c.pipeline_groups.iter().map(|(k, g)| format!("{}={}", k, serde_json::to_string(g).unwrap_or_default())).collect();
    groups.sort();
    let mut conns: Vec<String> = c.connectors.iter().map(|(k, v)| format!("{}={}", k, serde_json::to_value(v).map(|j| j.to_string()).unwrap_or_default())).collect();
    conns.sort();
    let mut models: Vec<String> = c.model_registry.iter().map(|(k, v)| format!("{}={}", k, serde_json::to_string(v).unwrap_or_default())).collect();
    models.sort();
    let mut migs: Vec<String> = c.active_migrations.keys().cloned().collect();
    migs.sort();
    let mut wm: Vec<String> = c.worker_metrics.iter().map(|(k, v)| format!("{}={}", k.0, v.len())).collect();
    wm.sort();
    let m = raft.metrics().borrow().clone();
    format!(
        "workers={:?} groups={:?} connectors={:?} models={:?} migrations={:?} worker_metrics={:?} llm={:?} pending_rebalance={} raft[term={} vote={:?} last_log={:?} applied={:?} membership={:?} state={:?} leader={:?}]",
        workers,
        groups,
        conns,
        models,
        migs,
        wm,
        c.llm_config.as_ref().map(|l| serde_json::to_string(l).unwrap_or_default()),
        c.pending_rebalance,
        m.current_term,
        m.vote,
        m.last_log_index,
        m.last_applied,
        m.membership_config,
        m.state,
        m.current_leader
    )
}

async fn tenant_snapshot(mgr: &SharedTenantManager) -> String {
    let m = mgr.read().await;
    let mut ts: Vec<String> = vec![];
    for t in m.list_tenants() {
        let mut ps: Vec<String> = vec![];
        for (id, p) in &t.pipelines {
            let eng = p.engine.lock().await;
            ps.push(format!("{}|{}|{}|{}|{:?}|{}|{}", id, p.name, p.source, p.status, eng.event_counters(), serde_json::to_value(eng.create_checkpoint()).map(|j| j.to_string()).unwrap_or_default(), p.output_rx.len()));
        }
        ps.sort();
        ts.push(format!("{}|{}|{}|{}/{}/{}|{}|{:?}", t.id, t.name, t.api_key, t.usage.events_processed, t.usage.output_events_emitted, t.usage.active_pipelines, t.quota.max_pipelines, ps));
    }
    ts.sort();
    format!("{:?}", ts)
}

struct Observed {
    resp: Resp,
    changed: bool,
    before: String,
    after: String,
}

fn to_warp(req: &Request) -> warp::test::RequestBuilder {
    let mut r = warp::test::request().method(&req.method).path(&req.path);
    for (k, v) in &req.headers {
        r = r.header(k.as_str(), v.as_str());
    }
    if let Some(b) = &req.body {
        r = r.json(b);
    }
    r
}

/// Run one request against a freshly prepared coordinator (+ Raft node).
fn run_coordinator(cfg: Config, req: &Request) -> Result<Observed, String> {
    let dir = tempfile::Builder::new().prefix("vh-c29-").tempdir().map_err(|e| e.to_string())?;
    let rt = tokio::runtime::Builder::new_current_thread().enable_all().build().map_err(|e| e.to_string())?;
    let rbac = build_rbac(cfg, dir.path());
    let out = rt.block_on(async {
        let coord = vc::shared_coordinator();
        {
            let mut c = coord.write().await;
            let mut w = vc::worker::WorkerNode::new(vc::worker::WorkerId("w1".into()), "http://127.0.0.1:1".into(), "wk".into());
            w.status = vc::worker::WorkerStatus::Ready;
            w.capacity = vc::worker::WorkerCapacity { cpu_cores: 2, pipelines_running: 0, max_pipelines: 8 };
            c.register_worker(w);
            if let Some(w) = c.workers.get_mut(&vc::worker::WorkerId("w1".into())) {
                w.status = vc::worker::WorkerStatus::Ready;
            }
            let mut params = std::collections::HashMap::new();
            params.insert("host".to_string(), "localhost".to_string());
            c.create_connector(vc::ClusterConnector { name: "c1".into(), connector_type: "mqtt".into(), params, description: None }).map_err(|e| format!("prepare connector: {}", e))?;
            c.model_registry.insert(
                "m1".into(),
                vc::model_registry::ModelRegistryEntry { name: "m1".into(), s3_key: "models/m1.onnx".into(), format: "onnx".into(), inputs: vec!["a".into()], outputs: vec!["b".into()], size_bytes: 3, uploaded_at: "2026-01-01T00:00:00Z".into(), description: String::new() },
            );
        }
        // node 2 of a two-node cluster: stays uninitialised (only node 1 bootstraps membership)
        let boot = vc::raft::bootstrap(2, &["http://127.0.0.1:1".to_string(), "http://127.0.0.1:2".to_string()], rbac.any_admin_key()).await.map_err(|e| format!("raft bootstrap: {}", e))?;
        let raft = boot.raft.clone();
        let routes = vc::api::cluster_routes_with_raft(coord.clone(), rbac.clone(), raft.clone(), None).recover(vc::api::handle_rejection);
        let before = coord_snapshot(&coord, &raft).await;
        let r = to_warp(req).reply(&routes).await;
        let after = coord_snapshot(&coord, &raft).await;
        let _ = raft.shutdown().await;
        Ok::<_, String>(Observed { resp: Resp { status: r.status().as_u16(), body: String::from_utf8_lossy(r.body()).to_string() }, changed: before != after, before, after })
    });
    drop(rt);
    out
}

/// Run one request against a freshly prepared single-node server (tenant API).
fn run_server(cfg: Config, req: &Request) -> Result<Observed, String> {
    let rt = tokio::runtime::Builder::new_current_thread().enable_all().build().map_err(|e| e.to_string())?;
    rt.block_on(async {
        let mut mgr = TenantManager::new();
        let t1 = mgr.create_tenant("t1".into(), K_TENANT.into(), TenantQuota::default()).map_err(|e| e.to_string())?;
        let t2 = mgr.create_tenant("t2".into(), K_TENANT2.into(), TenantQuota::default()).map_err(|e| e.to_string())?;
        let admin_key = match cfg {
            Config::ServerNoAdminKey => None,
            _ => Some(K_ADMIN.to_string()),
        };
        let mut tids = vec![t1.clone(), t2];
        if cfg == Config::ServerAdminKeyIsTenant {
            // what `varpulis server --api-key K` does at start-up
            tids.push(mgr.create_tenant("default".into(), K_ADMIN.into(), TenantQuota::enterprise()).map_err(|e| e.to_string())?);
        }
        let mut pid = String::new();
        for tid in &tids {
            let id = mgr.deploy_pipeline_on_tenant(tid, "p".into(), "stream A = E .where(x > 1) .emit(v: x)".into()).await.map_err(|e| e.to_string())?;
            if tid == &t1 {
                pid = id;
            }
        }
        let checkpoint = {
            let t = mgr.get_tenant(&t1).unwrap();
            serde_json::to_value(t.checkpoint_pipeline(&pid).await.map_err(|e| e.to_string())?).map_err(|e| e.to_string())?
        };
        let manager: SharedTenantManager = Arc::new(tokio::sync::RwLock::new(mgr));
        let routes = cli_api::api_routes(manager.clone(), admin_key);
        let path = req.path.replace("{PID}", &pid).replace("%7BPID%7D", &pid).replace("{TID}", t1.as_str()).replace("%7BTID%7D", t1.as_str());
        let body = req.body.as_ref().map(|b| if b["checkpoint"] == json!("{CHECKPOINT}") { json!({ "checkpoint": checkpoint }) } else { b.clone() });
        let real = Request { method: req.method.clone(), path: path.clone(), headers: req.headers.clone(), body };
        let before = tenant_snapshot(&manager).await;
        let resp = if path.ends_with("/logs") && req.method == "GET" {
            // SSE: the body never ends, look at the head only
            match to_warp(&real).filter(&routes).await {
                Ok(reply) => {
                    let r = warp::Reply::into_response(reply);
                    let sse = r.headers().get("content-type").map(|v| v.to_str().unwrap_or("").contains("event-stream")).unwrap_or(false);
                    if sse {
                        Resp { status: r.status().as_u16(), body: "<event stream>".into() }
                    } else {
                        // a JSON error reply: run it again to read the body
                        let routes2 = routes.clone().recover(vh_server::varpulis_cli::auth::handle_rejection);
                        let r = to_warp(&real).reply(&routes2).await;
                        Resp { status: r.status().as_u16(), body: String::from_utf8_lossy(r.body()).to_string() }
                    }
                }
                Err(_) => {
                    let routes2 = routes.clone().recover(vh_server::varpulis_cli::auth::handle_rejection);
                    let r = to_warp(&real).reply(&routes2).await;
                    Resp { status: r.status().as_u16(), body: String::from_utf8_lossy(r.body()).to_string() }
                }
            }
        } else {
            let routes2 = routes.clone().recover(vh_server::varpulis_cli::auth::handle_rejection);
            let r = to_warp(&real).reply(&routes2).await;
            Resp { status: r.status().as_u16(), body: String::from_utf8_lossy(r.body()).to_string() }
        };
        let after = tenant_snapshot(&manager).await;
        Ok(Observed { resp, changed: before != after, before, after })
    })
}

fn headers_for(c: Cred) -> Vec<(String, String)> {
    // the same key in both documented credential headers: the strongest presentation a client can make
    match cred_key(c) {
        None => vec![],
        Some(k) => vec![("x-api-key".to_string(), k.to_string()), ("x-admin-key".to_string(), k.to_string())],
    }
}

// ------------------------------------------------------------------ matrix

#[derive(Clone, Debug, Serialize, Deserialize)]
struct Cell {
    method: String,
    doc_path: String,
    cred: Cred,
    config: Config,
}

fn judge_cell(cell: &Cell, probes: &[Probe], docs: &BTreeMap<(String, String), Need>) -> Outcome {
    let Some(p) = probes.iter().find(|p| p.method == cell.method && p.doc_path == cell.doc_path) else {
        return Outcome::discard("unknown-probe");
    };
    let need = docs.get(&(cell.method.clone(), cell.doc_path.clone())).copied().unwrap_or(Need::Undocumented);
    let req = Request { method: p.method.to_string(), path: p.path.to_string(), headers: headers_for(cell.cred), body: p.body.clone() };
    let obs = match p.family {
        Family::Tenant => run_server(cell.config, &req),
        _ => run_coordinator(cell.config, &req),
    };
    let obs = match obs {
        Ok(o) => o,
        Err(e) => return Outcome::discard(format!("world-setup:{}", vh_common::truncate(&e, 60))),
    };
    let served = !refused(&obs.resp);
    let route = format!("{}_{}", cell.method, cell.doc_path);
    let ctx = || format!("{} {} cred={:?} config={:?} documented requirement={:?} -> {} {}", cell.method, p.path, cell.cred, cell.config, need, obs.resp.status, vh_common::truncate(&obs.resp.body, 300));
    let mut out = Outcome::pass()
        .class(format!("need:{:?}", need))
        .class(format!("cred:{:?}", cell.cred))
        .class(format!("config:{:?}", cell.config))
        .class(if served { "served" } else { "refused" })
        .class_if(!served && !(obs.resp.status == 401 || obs.resp.status == 403), format!("refused_with_status_{}", obs.resp.status));
    // rejected => nothing changed
    if !served && obs.changed {
        return Outcome::fail(format!("rejected-request-changed-state:{}", route), format!("{}; before {} after {}", ctx(), vh_common::truncate(&obs.before, 700), vh_common::truncate(&obs.after, 700)));
    }
    match granted(need, p.family, cell.cred, cell.config) {
        Some(g) => {
            if served && !g {
                return Outcome::fail(format!("served-without-required-access:{}", route), ctx());
            }
            if !served && g {
                return Outcome::fail(format!("documented-access-refused:{}", route), ctx());
            }
            out = out.nontrivial(!g && p.mutating && p.body.is_some() || !g && p.mutating).class_if(!g && p.mutating, "rejected_mutating_request");
            out = out.class_if(g && p.mutating && obs.changed, "granted_mutating_request_changed_state");
        }
        None => {
            // undocumented route: with authentication enabled a missing/wrong key must not be served
            out = out.class("undocumented_route");
            let bad_cred = match cell.cred {
                Cred::None => coord_role(Cred::None, cell.config).is_none(),
                Cred::Wrong | Cred::TenantKey => true,
                _ => false,
            };
            let read_only_monitoring = p.method == "GET";
            if served && bad_cred && auth_enabled(cell.config) && !read_only_monitoring {
                let sig = if p.family == Family::Raft && !raft_admin_key_set(cell.config) {
                    "raft-rpc-open-although-auth-enabled(keys-file-without-admin-key)".to_string()
                } else {
                    format!("undocumented-route-served-bad-credential:{}", route)
                };
                return Outcome::fail(sig, ctx());
            }
            out = out.nontrivial(!served && p.mutating).class_if(!served && p.mutating, "rejected_mutating_request");
        }
    }
    out
}

// ------------------------------------------------------------------ mutated requests

#[derive(Clone, Debug, Serialize, Deserialize)]
struct Mutated {
    probe: u16,
    /// index into the credentials without write access / the configurations of the probe's family
    cred: u8,
    config: u8,
    /// path mutations applied in order: (kind, position)
    muts: Vec<(u8, u16)>,
    method_mut: u8,
    header_mut: u8,
}

struct MutatedResolved {
    cred: Cred,
    config: Config,
    muts: Vec<(u8, u16)>,
    method_mut: u8,
    header_mut: u8,
}

fn mutate_path(path: &str, muts: &[(u8, u16)]) -> String {
    let mut segs: Vec<String> = path.split('/').skip(1).map(|s| s.to_string()).collect();
    let extra = ["..", ".", "%2e%2e", "register", "heartbeat", "drain", "config", "download", "inject", "metrics", "w1", "c1", "m1", "api", "v1", "cluster", "raft", "init", "tenants", "pipelines", "usage", "", "%2F", "*"];
    for (kind, pos) in muts {
        let n = segs.len().max(1);
        let i = vh_common::idx::pick(*pos, n);
        match kind % 9 {
            0 => segs.insert(i, String::new()),                                          // double slash
            1 => segs.push(String::new()),                                               // trailing slash
            2 => {
                let k = i.min(segs.len() - 1);
                segs[k] = segs[k].to_uppercase(); // case
            }
            3 => {
                // percent-encode the first char of a segment
                let k = i.min(segs.len() - 1);
                let s = segs[k].clone();
                if let Some(c) = s.chars().next() {
                    if c.is_ascii() {
                        segs[k] = format!("%{:02x}{}", c as u32, &s[1..]);
                    }
                }
            }
            4 => segs.push(extra[vh_common::idx::pick(pos.wrapping_mul(31), extra.len())].to_string()), // extra tail segment
            5 => segs.insert(i, extra[vh_common::idx::pick(pos.wrapping_mul(17), extra.len())].to_string()), // extra inner segment
            6 => {
                if segs.len() > 1 {
                    segs.remove(i.min(segs.len() - 1));
                }
            }
            7 => {
                let k = i.min(segs.len() - 1);
                segs[k] = format!("{}%2F{}", segs[k], extra[vh_common::idx::pick(pos.wrapping_mul(7), extra.len())]);
            }
            _ => {
                let k = i.min(segs.len() - 1);
                segs[k] = format!("{};x=1", segs[k]);
            }
        }
    }
    format!("/{}", segs.join("/"))
}

fn pct_decode(s: &str) -> String {
    let b = s.as_bytes();
    let mut out = vec![];
    let mut i = 0;
    while i < b.len() {
        if b[i] == b'%' && i + 3 <= b.len() {
            if let Some(v) = std::str::from_utf8(&b[i + 1..i + 3]).ok().and_then(|h| u8::from_str_radix(h, 16).ok()) {
                out.push(v);
                i += 3;
                continue;
            }
        }
        out.push(b[i]);
        i += 1;
    }
    String::from_utf8_lossy(&out).to_string()
}

/// Is (method, path) one of the documented public routes (modulo empty segments / percent-encoding)?
fn is_public(method: &str, path: &str, docs: &BTreeMap<(String, String), Need>) -> bool {
    let norm = |p: &str| p.split('?').next().unwrap_or("").split('/').filter(|s| !s.is_empty()).map(pct_decode).collect::<Vec<_>>();
    let me = norm(path);
    docs.iter().any(|((m, p), n)| *n == Need::Public && (m == method || method == "HEAD" || method == "OPTIONS") && norm(p) == me) || (me == ["raft", "metrics"])
}

fn judge_mutated(mc: &Mutated, probes: &[Probe], docs: &BTreeMap<(String, String), Need>) -> Outcome {
    let p = &probes[vh_common::idx::pick(mc.probe, probes.len())];
    let (config, cred) = match p.family {
        Family::Tenant => (SERVER_CONFIGS[mc.config as usize % 3], [Cred::None, Cred::Wrong, Cred::Viewer, Cred::Operator][mc.cred as usize % 4]),
        _ => ([Config::SingleKey, Config::MultiKeyFile, Config::MultiKeyAnonymousViewer, Config::MultiKeyFileNoAdmin][mc.config as usize % 4], [Cred::None, Cred::Wrong, Cred::Viewer, Cred::TenantKey][mc.cred as usize % 4]),
    };
    let mc = &MutatedResolved { cred, config, header_mut: mc.header_mut, method_mut: mc.method_mut, muts: mc.muts.clone() };
    let path = mutate_path(p.path, &mc.muts);
    if path.contains("{PID}") != p.path.contains("{PID}") || path.contains("{TID}") != p.path.contains("{TID}") || path.contains("{pid}") || path.contains("{tid}") || path.contains("%7b") {
        // placeholder damaged by the mutation: keep it simple
        return Outcome::discard("placeholder-mutated");
    }
    let method = match mc.method_mut % 8 {
        0..=3 => p.method.to_string(),
        4 => "HEAD".to_string(),
        5 => "OPTIONS".to_string(),
        6 => "PATCH".to_string(),
        _ => ["GET", "POST", "PUT", "DELETE"][(mc.method_mut as usize / 8) % 4].to_string(),
    };
    let mut headers = vec![];
    let mut path_q = path.clone();
    if let Some(k) = cred_key(mc.cred) {
        // present the (insufficient) key in every place a server might look at
        headers.push(("x-api-key".to_string(), k.to_string()));
        headers.push(("x-admin-key".to_string(), k.to_string()));
        headers.push(("authorization".to_string(), format!("Bearer {}", k)));
        path_q = format!("{}?api_key={}&token={}", path, k, k);
    }
    match mc.header_mut % 6 {
        1 => headers.push(("x-http-method-override".to_string(), "DELETE".to_string())),
        2 => headers.push(("x-forwarded-for".to_string(), "127.0.0.1".to_string())),
        3 => headers.push(("x-original-url".to_string(), "/api/v1/cluster/prometheus".to_string())),
        4 => headers.push(("x-api-key".to_string(), "".to_string())),
        5 => headers.push(("X-Api-Key".to_string(), format!(" {} ", K_ADMIN.to_uppercase()))),
        _ => {}
    }
    let req = Request { method: method.clone(), path: path_q, headers, body: p.body.clone() };
    let obs = match p.family {
        Family::Tenant => run_server(mc.config, &req),
        _ => run_coordinator(mc.config, &req),
    };
    let obs = match obs {
        Ok(o) => o,
        Err(e) => return Outcome::discard(format!("world-setup:{}", vh_common::truncate(&e, 60))),
    };
    let ctx = || format!("{} {} (from {} {}) cred={:?} config={:?} headers_mut={} -> {} {}", method, path, p.method, p.path, mc.cred, mc.config, mc.header_mut % 6, obs.resp.status, vh_common::truncate(&obs.resp.body, 300));
    // which access does the credential have at all?
    let powerless = match p.family {
        Family::Tenant => matches!(mc.cred, Cred::None | Cred::Wrong | Cred::Viewer | Cred::Operator),
        _ => coord_role(mc.cred, mc.config).is_none() && !(p.family == Family::Raft && !raft_admin_key_set(mc.config)),
    };
    let viewer_only = p.family != Family::Tenant && coord_role(mc.cred, mc.config) == Some(Role::Viewer) && raft_admin_key_set(mc.config);
    let ok2xx = (200..300).contains(&obs.resp.status);
    let mut out = Outcome::pass().class(format!("status:{}", obs.resp.status)).class_if(path != p.path, "path_mutated").class_if(method != p.method, "method_mutated");
    if powerless {
        out = out.class("cred:powerless");
        if obs.changed {
            return Outcome::fail("mutated-request-without-access-changed-state", format!("{}; before {} after {}", ctx(), vh_common::truncate(&obs.before, 600), vh_common::truncate(&obs.after, 600)));
        }
        let preflight = method == "OPTIONS";
        if ok2xx && !preflight && !is_public(&method, &path, docs) {
            return Outcome::fail("mutated-request-without-access-served", ctx());
        }
    } else if viewer_only {
        out = out.class("cred:viewer_only");
        if obs.changed {
            return Outcome::fail("mutated-request-with-viewer-access-changed-state", format!("{}; before {} after {}", ctx(), vh_common::truncate(&obs.before, 600), vh_common::truncate(&obs.after, 600)));
        }
    } else {
        return Outcome::discard("credential-has-write-access");
    }
    out.nontrivial(p.mutating && (path != p.path || method != p.method))
}

fn mutated_strategy() -> impl Strategy<Value = Mutated> {
    (
        any::<u16>(),
        0u8..4,
        0u8..12,
        proptest::collection::vec((any::<u8>(), any::<u16>()), 0..3),
        any::<u8>(),
        any::<u8>(),
    )
        .prop_map(|(probe, cred, config, muts, method_mut, header_mut)| Mutated { probe, cred, config, muts, method_mut, header_mut })
}

fn main() {
    let check = Check::new("C29", "exploration");
    check.rule("matrix: every documented route (docs/api/openapi.yaml) + the /raft/* RPC routes x credential {none, wrong key, viewer, operator, admin, tenant key} (key sent in x-api-key and x-admin-key) x configuration {single key, keys file, keys file without admin key (=Raft admin key unset), disabled (anonymous admin), keys file + anonymous viewer | server with admin key, without admin key, admin key == default tenant key}; each cell on a fresh world (coordinator with worker/connector/model, uninitialised Raft node, tenant manager with 2-3 tenants and pipelines); requirement from the docs; served = a handler answered (not 401/403, not a generic routing/body rejection); non-trivial = request that must be rejected for a state-changing route. Mutated requests: path/method/header mutations of every probe with credentials that have no (or viewer-only) access");
    check.assume("/health, /ready and /ws are assembled in the varpulis binary (main.rs), not in a library filter, and are not driven; the handler of a granted request may contact 127.0.0.1:1 (refused at once)");
    let docs = match documented_requirements() {
        Ok(d) => d,
        Err(e) => {
            check.inconclusive(e);
            check.finish();
        }
    };
    let probes = probes();
    // documentation coverage
    let mut undriven = vec![];
    for ((m, p), n) in &docs {
        if !probes.iter().any(|q| q.method == m && q.doc_path == p) {
            undriven.push(format!("{} {} ({:?})", m, p, n));
        }
    }
    let undocumented: Vec<String> = probes.iter().filter(|q| !docs.contains_key(&(q.method.to_string(), q.doc_path.to_string()))).map(|q| format!("{} {}", q.method, q.doc_path)).collect();
    let ambiguous: Vec<String> = docs.iter().filter(|(_, n)| **n == Need::Undocumented).map(|((m, p), _)| format!("{} {}", m, p)).collect();
    check.extra("documented_routes", json!(docs.len()));
    check.extra("documented_but_not_driven", json!(undriven));
    check.extra("driven_but_undocumented", json!(undocumented));
    check.extra("documented_without_clear_requirement", json!(ambiguous));
    for u in &undriven {
        if !(u.contains("/health") || u.contains("/ready")) {
            check.inconclusive(format!("documented route without probe: {}", u));
        }
    }

    let mut cells = vec![];
    for p in &probes {
        let configs: &[Config] = if p.family == Family::Tenant { &SERVER_CONFIGS } else { &COORD_CONFIGS };
        for cfg in configs {
            for c in CREDS {
                cells.push(Cell { method: p.method.to_string(), doc_path: p.doc_path.to_string(), cred: c, config: *cfg });
            }
        }
    }
    check.extra("matrix_cells", json!(cells.len()));
    check.enumerate("matrix", cells, |c: &Cell| judge_cell(c, &probes, &docs));
    check.explore("mutated_requests", mutated_strategy, 4000, 60_000, |m: &Mutated| judge_mutated(m, &probes, &docs));
    check.finish();
}
