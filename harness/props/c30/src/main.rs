//! C30 Rate limiting never admits more than burst + rate x elapsed time (virtual clock).
//!
//! The production `RateLimiter` is driven unmodified on a per-thread virtual monotonic
//! clock (vh-clock).  The harness brackets every call with its own `Instant::now()`
//! readings, so the oracle never depends on how much *real* time the code took: the
//! instant used inside `check` lies between the two bracket readings.
use proptest::prelude::*;
use serde::{Deserialize, Serialize};
use std::net::{IpAddr, Ipv4Addr};
use std::time::{Duration, Instant};
use vh_common::{guard, Check, Outcome};
use vh_server::varpulis_cluster::rate_limit::{RateLimitConfig, RateLimitResult, RateLimiter};

vh_clock::install!();

#[derive(Clone, Debug, Serialize, Deserialize)]
enum Op {
    /// advance the clock by `gap_ms`, then one request from client `ip`
    Req { ip: u8, gap_ms: u64 },
    /// advance the clock by `gap_ms`, then `cleanup(max_age_ms)`
    Cleanup { gap_ms: u64, max_age_ms: u64 },
}

#[derive(Clone, Debug, Serialize, Deserialize)]
struct Case {
    rate: u32,
    burst: u32,
    max_ips: usize,
    ops: Vec<Op>,
}

const GAPS: &[u64] = &[0, 0, 0, 1, 2, 5, 10, 19, 20, 21, 50, 100, 200, 500, 999, 1000, 2000, 5000];

fn gap(rate: u32) -> BoxedStrategy<u64> {
    // fixed pool + gaps worth exactly / just under / just over k tokens at this rate
    let r = rate.max(1) as u64;
    prop_oneof![
        4 => proptest::sample::select(GAPS),
        2 => (1u64..=4, 0u64..3).prop_map(move |(k, d)| (k * 1000 / r + d).saturating_sub(1).min(5000)),
    ]
    .boxed()
}

fn strat() -> impl Strategy<Value = Case> {
    let rate = prop_oneof![2 => Just(0u32), 2 => Just(1u32), 6 => 0u32..=50, 1 => Just(50u32)];
    let burst = prop_oneof![2 => Just(0u32), 3 => 1u32..=3, 5 => 0u32..=20];
    (rate, burst, 1usize..=4, 1u8..=5).prop_flat_map(|(rate, burst, max_ips, n_ips)| {
        let op = prop_oneof![
            30 => (0..n_ips, gap(rate)).prop_map(|(ip, gap_ms)| Op::Req { ip, gap_ms }),
            // the same client again immediately: exhausts bursts
            10 => (0..n_ips).prop_map(|ip| Op::Req { ip, gap_ms: 0 }),
            1 => (gap(rate), proptest::sample::select(&[1u64, 100, 1000, 2000, 5000, 60_000][..])).prop_map(|(gap_ms, max_age_ms)| Op::Cleanup { gap_ms, max_age_ms }),
        ];
        proptest::collection::vec(op, 1..=80).prop_map(move |ops| Case { rate, burst, max_ips, ops })
    })
}

fn ip_of(i: u8) -> IpAddr {
    IpAddr::V4(Ipv4Addr::new(10, 0, 0, i + 1))
}

/// One observed request of a client.
struct Obs {
    before: Instant,
    after: Instant,
    admitted: bool,
}

/// Reference view of "which clients are tracked": the limiter keeps one bucket per IP,
/// evicts the bucket with the oldest last request when a new IP arrives at capacity, and
/// `cleanup` drops buckets idle for >= max_age.
struct Tracked {
    ip: u8,
    /// bracket of the client's most recent request
    last_before: Instant,
    last_after: Instant,
    /// observations since the bucket was created
    obs: Vec<Obs>,
}

fn judge(c: &Case) -> Outcome {
    let rt = match tokio::runtime::Builder::new_current_thread().build() {
        Ok(r) => r,
        Err(e) => return Outcome::discard(format!("runtime: {}", e)),
    };
    let mut cfg = RateLimitConfig::with_burst(c.rate, c.burst);
    cfg.max_tracked_ips = c.max_ips;
    let limiter = match guard(|| RateLimiter::new(cfg)) {
        Ok(l) => l,
        Err(p) => return Outcome::fail(format!("constructor-{}", p.sig()), format!("{:?}", p)),
    };
    let (rate, burst) = (c.rate as f64, c.burst as f64);
    let mut tracked: Vec<Tracked> = vec![];
    let (mut n_limited, mut n_admitted, mut n_evicted, mut n_cleaned, mut refilled, mut unsure) = (0u32, 0u32, 0u32, 0u32, false, false);
    let mut max_window = 0usize;

    for (k, op) in c.ops.iter().enumerate() {
        match op {
            Op::Req { ip, gap_ms } => {
                vh_clock::advance_ms(*gap_ms);
                let before = Instant::now();
                let res = guard(|| rt.block_on(limiter.check(ip_of(*ip))));
                let after = Instant::now();
                let res = match res {
                    Ok(r) => r,
                    Err(p) => {
                        let class = if c.rate == 0 { "rate0" } else { "rate>0" };
                        return Outcome::fail(format!("check-{}:{}", p.sig(), class), format!("op {} {:?}: panic at {}:{}: {}", k, op, p.file, p.line, p.message));
                    }
                };
                let admitted = match res {
                    RateLimitResult::Allowed { .. } => true,
                    RateLimitResult::Limited { retry_after } => {
                        let s = retry_after.as_secs_f64();
                        if !s.is_finite() || s < 0.0 {
                            return Outcome::fail("retry-after-not-finite", format!("op {}: retry_after {:?}", k, retry_after));
                        }
                        false
                    }
                };
                // ---- reference tracking model
                let pos = tracked.iter().position(|t| t.ip == *ip);
                let idx = match pos {
                    Some(i) => i,
                    None => {
                        if tracked.len() >= c.max_ips {
                            // evict the least recently requesting client; must be unambiguous
                            let mut order: Vec<usize> = (0..tracked.len()).collect();
                            order.sort_by_key(|&i| tracked[i].last_after);
                            let victim = order[0];
                            if order.len() > 1 && tracked[order[1]].last_before <= tracked[victim].last_after {
                                unsure = true;
                                break;
                            }
                            tracked.remove(victim);
                            n_evicted += 1;
                        }
                        tracked.push(Tracked { ip: *ip, last_before: before, last_after: after, obs: vec![] });
                        tracked.len() - 1
                    }
                };
                let t = &mut tracked[idx];
                if admitted && t.obs.iter().any(|o| !o.admitted) {
                    refilled = true;
                }
                t.last_before = before;
                t.last_after = after;
                t.obs.push(Obs { before, after, admitted });
                if admitted {
                    n_admitted += 1
                } else {
                    n_limited += 1
                }
                // ---- the bound, for every window ending at this request
                let j = t.obs.len() - 1;
                max_window = max_window.max(t.obs.len());
                let mut count = 0u32;
                for i in (0..=j).rev() {
                    if t.obs[i].admitted {
                        count += 1;
                    }
                    // the limiter's own clock readings lie inside the brackets, so the true
                    // interval length is at most after_j - before_i
                    let span = t.obs[j].after.duration_since(t.obs[i].before).as_secs_f64();
                    let bound = burst + rate * span + 1e-9;
                    if count as f64 > bound {
                        let class = if i == j { "single" } else if pos.is_none() { "fresh" } else { "window" };
                        return Outcome::fail(
                            format!("admitted-above-bound:{}", class),
                            format!("client {} requests #{}..=#{} of its tracked period (op {}): admitted {} > burst {} + rate {} * {:.6}s = {:.6}", ip, i, j, k, count, c.burst, c.rate, span, bound),
                        );
                    }
                }
            }
            Op::Cleanup { gap_ms, max_age_ms } => {
                vh_clock::advance_ms(*gap_ms);
                let before = Instant::now();
                let r = guard(|| rt.block_on(limiter.cleanup(Duration::from_millis(*max_age_ms))));
                let after = Instant::now();
                if let Err(p) = r {
                    return Outcome::fail(format!("cleanup-{}", p.sig()), format!("op {} {:?}: {}", k, op, p.message));
                }
                let max_age = Duration::from_millis(*max_age_ms);
                let mut keep = vec![];
                for t in tracked.drain(..) {
                    let oldest_possible = after.duration_since(t.last_before);
                    let youngest_possible = before.duration_since(t.last_after);
                    if oldest_possible < max_age {
                        keep.push(t);
                    } else if youngest_possible >= max_age {
                        n_cleaned += 1;
                    } else {
                        unsure = true;
                    }
                }
                tracked = keep;
                if unsure {
                    break;
                }
            }
        }
        // cross-check the tracking model against the one thing the limiter exposes
        let n = rt.block_on(limiter.client_count());
        if n != tracked.len() {
            // the model of "tracked" is not the statement; never a violation, but it must not happen
            return Outcome::discard(format!("tracking model out of sync ({} vs {})", n, tracked.len()));
        }
    }
    Outcome::pass()
        .nontrivial(n_limited > 0 && n_admitted > 0)
        .class_if(n_limited > 0, "limited")
        .class_if(refilled, "admitted_again_after_limited")
        .class_if(c.rate == 0, "rate0")
        .class_if(c.burst == 0, "burst0")
        .class_if(n_evicted > 0, "evicted")
        .class_if(n_cleaned > 0, "cleanup_removed")
        .class_if(max_window >= 10, "window>=10")
        .class_if(unsure, "tracking_unsure_truncated")
}

fn main() {
    // before Check::new: the self test moves this thread's clock by an hour
    let clock_ok = vh_clock::self_test();
    let check = Check::new("C30", "exploration");
    check.rule("config rate 0-50/s, burst 0-20, max_tracked_ips 1-4 (enabled); <=80 ops = requests from 1-5 IPs (gaps from {0,1ms..5s} plus gaps worth k tokens -1/0/+1 ms) and rare cleanup(max_age) calls, on the per-thread virtual monotonic clock; oracle: for every client and every pair i<=j of its requests since its bucket was (re)created (reference LRU/cleanup tracking model, cross-checked with client_count) admitted(i..=j) <= burst + rate*(t_j - t_i) + 1e-9 with t measured by harness Instant brackets around each call; Limited.retry_after finite and >= 0; no panic in new/check/cleanup; non-trivial = at least one request limited and one admitted");
    check.assume("vh-clock interposition of clock_gettime (self-tested at start); real time that elapses inside a case only widens the measured interval (sound); the tracking model (LRU by last request, cleanup by idle age) is taken from RateLimiter::check/cleanup");
    if !clock_ok {
        check.inconclusive("virtual clock not active");
        check.finish();
    }
    check.explore("bound", strat, 100_000, 2_000_000, judge);
    check.finish();
}
