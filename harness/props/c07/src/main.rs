//! C07 ZDDs are canonical and garbage collection preserves live families.
#[path = "../../c06/src/zddmodel.rs"]
mod zddmodel;
use std::collections::HashMap;
use varpulis_zdd::arena::ZddHandle;
use varpulis_zdd::ZddRef;
use vh_common::{Check, Outcome};
use zddmodel::*;

fn node_invariants(nodes: &[(u32, u32, ZddRef, ZddRef)]) -> Result<(), (String, String)> {
    let var_of: HashMap<u32, u32> = nodes.iter().map(|(id, var, _, _)| (*id, *var)).collect();
    let mut seen = std::collections::HashSet::new();
    for (id, var, lo, hi) in nodes {
        if *hi == ZddRef::Empty {
            return Err(("node-not-reduced".into(), format!("node {} var {} has empty include-branch", id, var)));
        }
        for (name, ch) in [("lo", lo), ("hi", hi)] {
            if let ZddRef::Node(c) = ch {
                match var_of.get(c) {
                    None => return Err(("dangling-child".into(), format!("node {} {} -> missing node {}", id, name, c))),
                    Some(cv) if cv <= var => return Err(("var-order".into(), format!("node {} var {} has {} child {} with var {}", id, var, name, c, cv))),
                    _ => {}
                }
            }
        }
        if !seen.insert((*var, *lo, *hi)) {
            return Err(("duplicate-node".into(), format!("two stored nodes with (var,lo,hi)=({},{:?},{:?})", var, lo, hi)));
        }
    }
    Ok(())
}

fn check_state(m: &Machine, shared_too: bool) -> Result<usize, (String, String)> {
    node_invariants(&m.arena.verif_nodes())?;
    if shared_too {
        node_invariants(&m.shared.verif_nodes()).map_err(|(s, d)| (format!("shared:{}", s), d))?;
    }
    let live = m.live();
    let mut same_family_pairs = 0;
    for (x, &i) in live.iter().enumerate() {
        let ri = &m.regs[i];
        // handle denotes the reference family, iterated once each, ascending
        let fi = fam_of_iter(m.arena.iter(ri.ah)).map_err(|e| ("iter".to_string(), e))?;
        if fi != ri.fam {
            return Err(("handle-denotes-wrong-family".into(), format!("reg {} iter {:?} expected {:?}", i, fi, ri.fam)));
        }
        for &j in &live[x + 1..] {
            let rj = &m.regs[j];
            let same_fam = ri.fam == rj.fam;
            let same_root = ri.ah.root() == rj.ah.root();
            if same_fam {
                same_family_pairs += 1;
            }
            if same_fam != same_root {
                return Err((
                    if same_fam { "same-family-different-root".into() } else { "different-family-same-root".to_string() },
                    format!("regs {} {:?} root {:?} / {} {:?} root {:?}", i, ri.fam, ri.ah.root(), j, rj.fam, rj.ah.root()),
                ));
            }
            if shared_too && same_fam != (ri.sh.root() == rj.sh.root()) {
                return Err(("shared:canonicity".into(), format!("regs {} {}", i, j)));
            }
        }
    }
    Ok(same_family_pairs)
}

fn run_history(h: &History) -> Outcome {
    let mut m = Machine::new();
    let mut same_pairs_max = 0;
    let mut gc_preserving = 0;
    for op in &h.ops {
        let before: Vec<(usize, Fam)> = m.live().into_iter().map(|i| (i, m.regs[i].fam.clone())).collect();
        let _ = m.apply(op);
        if let Op::Gc(_) = op {
            // every surviving handle denotes exactly the family it denoted before
            for (i, fam) in &before {
                if m.regs[*i].live {
                    let h: ZddHandle = m.regs[*i].ah;
                    match fam_of_iter(m.arena.iter(h)) {
                        Ok(f) if &f == fam => gc_preserving += 1,
                        Ok(f) => return Outcome::fail("gc-changed-family", format!("reg {} before {:?} after {:?}", i, fam, f)),
                        Err(e) => return Outcome::fail("gc-iter", e),
                    }
                }
            }
        }
        match check_state(&m, true) {
            Ok(n) => same_pairs_max = same_pairs_max.max(n),
            Err((sig, d)) => return Outcome::fail(sig, format!("after {:?}: {}", op, d)),
        }
    }
    let nt = m.gcs > 0 && m.gc_dropped_nodes > 0 && same_pairs_max > 0;
    Outcome::pass()
        .nontrivial(nt)
        .class_if(m.gcs > 0, "has_gc")
        .class_if(m.gc_dropped_nodes > 0, "gc_dropped_nodes")
        .class_if(same_pairs_max > 0, "two_handles_same_family")
        .class_if(gc_preserving > 0, "gc_kept_handle_checked")
        .class_if(m.ops_after_gc > 0, "op_after_gc")
}

fn main() {
    let check = Check::new("C07", "exploration");
    check.rule("operation histories (<=40 ops incl. Rebuild = same family through unions of from_set in another order, and arena gc keeping random subsets of handles) in one ZddArena and one SharedArena; invariants after every op: same reference family <=> same root for every live handle pair; every stored node (hook H1 dump) has a non-empty include-branch, strictly larger child variables, no duplicate (var,lo,hi); gc-returned handles denote the pre-gc family; iteration yields each member once in ascending element order. Non-trivial = history with a gc that dropped >=1 node and >=2 live handles denoting the same family.");
    check.assume("hook H1 (ZddArena::verif_nodes) is a faithful read-only dump of the unique table");
    check.explore("histories", || history(40, true), 100_000, 1_000_000, run_history);
    check.finish();
}
