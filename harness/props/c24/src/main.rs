//! C24 Watermarks never regress per source and late data is handled as configured.
use chrono::{DateTime, Duration, Utc};
use proptest::prelude::*;
use serde::{Deserialize, Serialize};
use std::collections::BTreeMap;
use varpulis_runtime::persistence::WatermarkCheckpoint;
use varpulis_runtime::watermark::PerSourceWatermarkTracker;
use vh_common::{Check, Outcome};
use vh_gen::engine::Eng;
use vh_gen::{Ev, V, BASE_TS_MS};

/// all times on a 250 ms grid so that "exactly at the bound" is frequent
const GRID: i64 = 250;

fn dt(ms: i64) -> DateTime<Utc> {
    vh_gen::ts(ms)
}

// ------------------------------------------------------------------ shared invariants

/// The two tracker clauses of the statement, judged on tracker snapshots only.
struct Monotone {
    last: BTreeMap<String, i64>,
}

impl Monotone {
    fn check(&mut self, cp: &WatermarkCheckpoint, effective: Option<i64>, at: &str) -> Result<(), (String, String)> {
        let mut names: Vec<&String> = cp.sources.keys().collect();
        names.sort();
        let mut min: Option<i64> = None;
        for n in names {
            let s = &cp.sources[n];
            match (self.last.get(n), s.watermark_ms) {
                (Some(prev), None) => return Err(("source-watermark-regressed".into(), format!("{}: source {} had watermark {} and now has none", at, n, prev - BASE_TS_MS))),
                (Some(prev), Some(now)) if now < *prev => {
                    return Err(("source-watermark-regressed".into(), format!("{}: source {} watermark {} -> {}", at, n, prev - BASE_TS_MS, now - BASE_TS_MS)));
                }
                _ => {}
            }
            if let Some(w) = s.watermark_ms {
                self.last.insert(n.clone(), w);
                min = Some(min.map_or(w, |m: i64| m.min(w)));
            }
        }
        if min.is_some() && effective != min {
            return Err((
                "effective-not-min-of-sources".into(),
                format!("{}: effective {:?}, source watermarks {:?}", at, effective.map(|e| e - BASE_TS_MS), cp.sources.iter().map(|(k, v)| (k.clone(), v.watermark_ms.map(|w| w - BASE_TS_MS))).collect::<BTreeMap<_, _>>()),
            ));
        }
        if min.is_none() && effective.is_some() {
            return Err(("effective-without-any-source-watermark".into(), format!("{}: effective {:?}", at, effective)));
        }
        if cp.effective_watermark_ms != effective {
            return Err(("checkpoint-effective-differs".into(), format!("{}: {:?} vs {:?}", at, cp.effective_watermark_ms, effective)));
        }
        Ok(())
    }
}

// ------------------------------------------------------------------ sub 1: tracker, direct API

#[derive(Clone, Debug, Serialize, Deserialize)]
enum TOp {
    /// event of source index `src` (index == number of registered sources: a source nobody registered)
    Observe { src: u8, ts: i64 },
    /// upstream watermark for a source
    Advance { src: u8, ts: i64 },
    /// register one more, so far unknown, source in the middle of the stream
    RegisterLate { ooo: i64 },
}

#[derive(Clone, Debug, Serialize, Deserialize)]
struct TCase {
    /// out-of-order bound (ms) per initially registered source
    ooo: Vec<i64>,
    ops: Vec<TOp>,
}

/// timestamps: a slowly advancing front with bounded disorder behind it
fn ts_seq(n: usize) -> impl Strategy<Value = Vec<i64>> {
    proptest::collection::vec((0i64..=8, prop_oneof![3 => Just(0i64), 3 => 0i64..=28, 1 => 0i64..=80]), n).prop_map(|steps| {
        let mut front = 40 * GRID;
        steps
            .into_iter()
            .map(|(adv, back)| {
                front += adv * GRID;
                (front - back * GRID).max(0)
            })
            .collect()
    })
}

fn grid_dur() -> impl Strategy<Value = i64> {
    prop_oneof![2 => Just(0i64), 5 => (0i64..=20).prop_map(|k| k * GRID)]
}

fn tstrat() -> impl Strategy<Value = TCase> {
    (proptest::collection::vec(grid_dur(), 1..=3), 1usize..=40).prop_flat_map(|(ooo, n)| {
        let k = ooo.len() as u8;
        let kinds = proptest::collection::vec((0u8..20, 0..=k, grid_dur()), n);
        (ts_seq(n), kinds).prop_map(move |(ts, kinds)| {
            let ops = ts
                .into_iter()
                .zip(kinds)
                .map(|(ts, (kind, src, d))| match kind {
                    0 | 1 => TOp::Advance { src: src.min(k - 1).max(0), ts },
                    2 => TOp::RegisterLate { ooo: d },
                    _ => TOp::Observe { src, ts },
                })
                .collect();
            TCase { ooo: ooo.clone(), ops }
        })
    })
}

#[derive(Clone, Debug)]
struct MSrc {
    ooo: i64,
    max_ts: Option<i64>,
    wm: Option<i64>,
}

fn judge_tracker(c: &TCase) -> Outcome {
    let mut tr = PerSourceWatermarkTracker::new();
    let mut model: BTreeMap<String, MSrc> = BTreeMap::new();
    for (i, o) in c.ooo.iter().enumerate() {
        tr.register_source(&format!("s{}", i), Duration::milliseconds(*o));
        model.insert(format!("s{}", i), MSrc { ooo: *o, max_ts: None, wm: None });
    }
    let mut mono = Monotone { last: BTreeMap::new() };
    let mut model_eff: Option<i64> = None;
    let (mut behind, mut eff_dropped, mut late_reg, mut auto_reg, mut advanced) = (0u32, false, false, false, false);
    for (k, op) in c.ops.iter().enumerate() {
        let at = format!("op {} {:?}", k, op);
        match op {
            TOp::Observe { src, ts } => {
                let name = if (*src as usize) < c.ooo.len() { format!("s{}", src) } else { "unregistered".to_string() };
                if let Some(e) = model_eff {
                    if BASE_TS_MS + ts < e {
                        behind += 1;
                    }
                }
                tr.observe_event(&name, dt(*ts));
                if !model.contains_key(&name) {
                    auto_reg = true;
                }
                let m = model.entry(name).or_insert(MSrc { ooo: 0, max_ts: None, wm: None });
                let t = BASE_TS_MS + ts;
                if m.max_ts.map_or(true, |x| t > x) {
                    m.max_ts = Some(t);
                }
                let cand = m.max_ts.unwrap() - m.ooo;
                if m.wm.map_or(true, |w| cand > w) {
                    m.wm = Some(cand);
                }
            }
            TOp::Advance { src, ts } => {
                let name = format!("s{}", src);
                tr.advance_source_watermark(&name, dt(*ts));
                if let Some(m) = model.get_mut(&name) {
                    let t = BASE_TS_MS + ts;
                    if m.wm.map_or(true, |w| t > w) {
                        m.wm = Some(t);
                        advanced = true;
                    }
                }
            }
            TOp::RegisterLate { ooo } => {
                // real callers register a source once (Engine::load); re-registration of a
                // known source is outside the domain
                if model.contains_key("late") {
                    continue;
                }
                tr.register_source("late", Duration::milliseconds(*ooo));
                model.insert("late".into(), MSrc { ooo: *ooo, max_ts: None, wm: None });
                late_reg = true;
            }
        }
        let new_eff = model.values().filter_map(|m| m.wm).min();
        if let (Some(a), Some(b)) = (model_eff, new_eff) {
            if b < a {
                eff_dropped = true;
            }
        }
        model_eff = new_eff.or(model_eff);
        let cp = tr.checkpoint();
        let eff = tr.effective_watermark().map(|d| d.timestamp_millis());
        if let Err((s, d)) = mono.check(&cp, eff, &at) {
            return Outcome::fail(s, d);
        }
        // full reference model of the tracker
        for (name, m) in &model {
            let got = cp.sources.get(name).map(|s| (s.watermark_ms, s.max_timestamp_ms));
            if got != Some((m.wm, m.max_ts)) {
                return Outcome::fail("tracker-differs-from-model", format!("{}: source {} tracker {:?} model {:?}", at, name, got, (m.wm, m.max_ts)));
            }
        }
        if cp.sources.len() != model.len() {
            return Outcome::fail("tracker-source-set-differs", format!("{}: {:?}", at, cp.sources.keys()));
        }
    }
    Outcome::pass()
        .nontrivial(model.len() >= 2 && behind > 0)
        .class_if(model.len() >= 2, "sources>=2")
        .class_if(behind > 0, "event_behind_effective")
        .class_if(eff_dropped, "effective_lowered_by_new_source")
        .class_if(late_reg, "late_registration")
        .class_if(auto_reg, "auto_registered_source")
        .class_if(advanced, "upstream_advance")
}

// ------------------------------------------------------------------ sub 2: Engine API

#[derive(Clone, Debug, Serialize, Deserialize)]
struct StreamCfg {
    /// consumed event type index
    ty: u8,
    /// `.watermark(out_of_order: ..)` bound in ms, if any
    ooo: Option<i64>,
    /// `.allowed_lateness(..)` in ms, if any
    lateness: Option<i64>,
}

#[derive(Clone, Debug, Serialize, Deserialize)]
struct ECase {
    streams: Vec<StreamCfg>,
    /// (type index, ts offset ms); type index 3 = a type no stream consumes
    events: Vec<(u8, i64)>,
}

const TYPES: &[&str] = &["Ta", "Tb", "Tc", "Unrouted"];

fn estrat() -> impl Strategy<Value = ECase> {
    (1u8..=3).prop_flat_map(|ntypes| {
        let stream = (0..ntypes, proptest::option::weighted(0.75, grid_dur()), proptest::option::weighted(0.6, grid_dur())).prop_map(|(ty, ooo, lateness)| StreamCfg { ty, ooo, lateness });
        (proptest::collection::vec(stream, 1..=4), 1usize..=30).prop_flat_map(move |(mut streams, n)| {
            // one .watermark() per event type (a second registration would replace the first)
            let mut seen = [false; 3];
            for s in streams.iter_mut() {
                if s.ooo.is_some() {
                    if seen[s.ty as usize] {
                        s.ooo = None;
                    }
                    seen[s.ty as usize] = true;
                }
            }
            let tys = proptest::collection::vec(prop_oneof![12 => 0..ntypes, 1 => Just(3u8)], n);
            (ts_seq(n), tys).prop_map(move |(ts, tys)| ECase { streams: streams.clone(), events: tys.into_iter().zip(ts).collect() })
        })
    })
}

fn dur_lit(ms: i64) -> String {
    if ms % 1000 == 0 {
        format!("{}s", ms / 1000)
    } else {
        format!("{}ms", ms)
    }
}

fn render(c: &ECase) -> String {
    let mut s = String::new();
    for (i, st) in c.streams.iter().enumerate() {
        s.push_str(&format!("stream S{} = {}", i, TYPES[st.ty as usize]));
        if let Some(o) = st.ooo {
            s.push_str(&format!("\n    .watermark(out_of_order: {})", dur_lit(o)));
        }
        if let Some(l) = st.lateness {
            s.push_str(&format!("\n    .allowed_lateness({})", dur_lit(l)));
        }
        s.push_str(&format!("\n    .emit(sid: {}, id: id)\n\n", i));
    }
    s
}

fn judge_engine(c: &ECase) -> Outcome {
    let src = render(c);
    let mut eng = match Eng::new(&src) {
        Ok(e) => e,
        Err(e) => return Outcome::discard(format!("program rejected: {}", vh_common::truncate(&e, 60))),
    };
    let tracking = c.streams.iter().any(|s| s.ooo.is_some());
    let mut mono = Monotone { last: BTreeMap::new() };
    let (mut n_dropped, mut n_behind_kept, mut n_behind, mut n_at_bound) = (0u32, 0u32, 0u32, 0u32);
    let mut n_sources = 0usize;
    for (k, (ty, ts)) in c.events.iter().enumerate() {
        let before = eng.engine.create_checkpoint().watermark_state;
        let eff = before.as_ref().and_then(|w| w.effective_watermark_ms);
        let ev = Ev::new(TYPES[*ty as usize], *ts).with("id", V::Int(k as i64));
        let outs = match eng.process(&ev) {
            Ok(o) => o,
            Err(e) => return Outcome::fail("process-error", e),
        };
        let t = BASE_TS_MS + ts;
        let consumers: Vec<&StreamCfg> = c.streams.iter().filter(|s| s.ty == *ty).collect();
        let at = format!("event {} ({} ts {})", k, TYPES[*ty as usize], ts);
        if !consumers.is_empty() {
            let dropped = outs.is_empty();
            if let Some(e) = eff {
                if t < e {
                    n_behind += 1;
                    if !dropped {
                        n_behind_kept += 1;
                    }
                }
            }
            if dropped {
                n_dropped += 1;
                // "dropped as late only if its timestamp is below the effective watermark by
                // more than the allowed lateness of the streams consuming it"
                let Some(e) = eff else {
                    return Outcome::fail("dropped-without-watermark", format!("{}: no output although no effective watermark exists\n{}", at, src));
                };
                if !(t < e) {
                    return Outcome::fail("dropped-not-behind-watermark", format!("{}: effective watermark {}\n{}", at, e - BASE_TS_MS, src));
                }
                for s in &consumers {
                    if let Some(l) = s.lateness {
                        if t == e - l {
                            n_at_bound += 1;
                        }
                        if !(t < e - l) {
                            return Outcome::fail(
                                "dropped-within-allowed-lateness",
                                format!("{}: effective watermark {}, consuming stream allows lateness {} ms (ts >= {})\n{}", at, e - BASE_TS_MS, l, e - l - BASE_TS_MS, src),
                            );
                        }
                    }
                }
            } else if outs.len() != consumers.len() {
                return Outcome::fail("harness-output-count", format!("{}: {} outputs for {} consuming streams", at, outs.len(), consumers.len()));
            } else if let Some(e) = eff {
                if consumers.iter().any(|s| s.lateness.map_or(false, |l| t == e - l)) {
                    n_at_bound += 1;
                }
            }
        }
        let after = eng.engine.create_checkpoint().watermark_state;
        match (&after, tracking) {
            (Some(cp), _) => {
                n_sources = n_sources.max(cp.sources.values().filter(|s| s.watermark_ms.is_some()).count());
                if let Err((s, d)) = mono.check(cp, cp.effective_watermark_ms, &at) {
                    return Outcome::fail(format!("engine:{}", s), format!("{}\n{}", d, src));
                }
            }
            (None, true) => return Outcome::fail("harness-no-tracker", "stream with .watermark() but no tracker state in the checkpoint"),
            (None, false) => {}
        }
    }
    Outcome::pass()
        .nontrivial(n_sources >= 2 && n_behind > 0)
        .class_if(n_sources >= 2, "sources>=2")
        .class_if(n_behind > 0, "event_behind_effective")
        .class_if(n_dropped > 0, "dropped_as_late")
        .class_if(n_behind_kept > 0, "behind_but_within_lateness_kept")
        .class_if(n_at_bound > 0, "exactly_at_lateness_bound")
        .class_if(!tracking, "no_watermark_stream")
        .class_if(c.streams.iter().all(|s| s.lateness.is_none()), "no_lateness_configured")
}

fn main() {
    let check = Check::new("C24", "exploration");
    check.rule("(tracker) 1-3 registered sources with out-of-order bounds 0-5 s, <=40 ops {observe(source or an unregistered one, ts), upstream advance, late registration of a new source}, timestamps = advancing front with bounded disorder on a 250 ms grid; after every op: each source's watermark non-decreasing, effective = min over sources that have one, plus a full reference model of the tracker. (engine) 1-4 streams over 1-3 event types rendered to VPL with optional .watermark(out_of_order:) / .allowed_lateness() and .emit(id), <=30 events incl. a type nobody consumes; dropped (= no output) => ts < effective-before-the-event and ts < effective - lateness for every consuming stream that configures lateness; same monotonic/min invariants on the engine's tracker read through create_checkpoint(). non-trivial = >=2 sources with a watermark and >=1 event behind the effective watermark");
    check.assume("tracker state is read through checkpoint() (ms resolution; all generated times are on a ms grid); 'dropped' is observed as 'no output of any consuming passthrough stream'; side-output diversion cannot be configured from VPL and is not exercised; re-registering an already known source (replaces its state) is outside the domain");
    check.explore("tracker", tstrat, 40_000, 800_000, judge_tracker);
    check.explore("engine", estrat, 12_000, 200_000, judge_engine);
    check.finish();
}
