//! C05 Pattern state stays within its documented bounds and never panics.
use proptest::prelude::*;
use serde::{Deserialize, Serialize};
use std::collections::BTreeMap;
use varpulis_runtime::sase::BackpressureStrategy;
use vh_common::{Check, Outcome};
use vh_gen::seq::direct_sase;
use vh_gen::{Ev, V};

#[derive(Clone, Debug, Serialize, Deserialize)]
enum Strat {
    Drop,
    Error,
    EvictOldest,
    EvictLeastProgress,
    Sample(u8), // rate in tenths
}

#[derive(Clone, Debug, Serialize, Deserialize)]
enum Shape {
    /// A -> B -> C
    Seq3,
    /// A -> all B where v > b.v -> C   (enumeration at completion)
    KleeneSelf,
    /// A -> all B -> C
    KleenePlain,
    /// A -> all B
    Trailing,
    /// all A -> B
    LeadingAll,
}

#[derive(Clone, Debug, Serialize, Deserialize)]
struct Case {
    strat: Strat,
    shape: Shape,
    partitioned: bool,
    max_runs: usize,
    max_events: Option<u32>,
    max_results: Option<usize>,
    use_with_result: bool,
    events: Vec<Ev>,
}

fn src(c: &Case) -> String {
    let body = match c.shape {
        Shape::Seq3 => "A as a\n    -> B as b\n    -> C as c",
        Shape::KleeneSelf => "A as a\n    -> all B where v > b.v as b\n    -> C as c",
        Shape::KleenePlain => "A as a\n    -> all B as b\n    -> C as c",
        Shape::Trailing => "A as a\n    -> all B as b",
        Shape::LeadingAll => "all A as a\n    -> B as b",
    };
    format!("stream M = {}{}\n    .emit(x: a.id)\n", body, if c.partitioned { "\n    .partition_by(k)" } else { "" })
}

fn strat() -> impl Strategy<Value = Case> {
    let s = prop_oneof![
        Just(Strat::Drop),
        Just(Strat::Error),
        Just(Strat::EvictOldest),
        Just(Strat::EvictLeastProgress),
        prop_oneof![Just(0u8), Just(3u8), Just(10u8), Just(5u8)].prop_map(Strat::Sample),
    ];
    let shape = prop_oneof![Just(Shape::Seq3), Just(Shape::KleeneSelf), Just(Shape::KleenePlain), Just(Shape::Trailing), Just(Shape::LeadingAll)];
    // adversarial streams: mostly start events, bursts of B, rare C
    let ev = (prop_oneof![6 => Just("A"), 4 => Just("B"), 1 => Just("C")], 1i64..4, 0i64..5, 0u8..12);
    (s, shape, any::<bool>(), 1usize..9, proptest::option::of(1u32..7), proptest::option::of(1usize..40), any::<bool>(), proptest::collection::vec(ev, 20..120)).prop_map(
        |(strat, shape, partitioned, max_runs, max_events, max_results, use_with_result, raw)| {
            let events = raw
                .into_iter()
                .enumerate()
                .map(|(i, (t, k, v, miss))| {
                    let mut e = Ev::new(t, i as i64 * 10).with("id", V::Int(i as i64 + 1));
                    if miss != 0 {
                        e = e.with("k", V::Int(k));
                    }
                    e.with("v", V::Int(v))
                })
                .collect();
            Case { strat, shape, partitioned, max_runs, max_events, max_results, use_with_result, events }
        },
    )
}

fn run(c: &Case) -> Outcome {
    let src = src(c);
    let mut sase = match direct_sase(&src, "M") {
        Ok(s) => s,
        Err(e) => return Outcome::discard(format!("build: {}", e)),
    };
    sase = sase.with_max_runs(c.max_runs).with_backpressure(match c.strat {
        Strat::Drop => BackpressureStrategy::Drop,
        Strat::Error => BackpressureStrategy::Error,
        Strat::EvictOldest => BackpressureStrategy::EvictOldest,
        Strat::EvictLeastProgress => BackpressureStrategy::EvictLeastProgress,
        Strat::Sample(t) => BackpressureStrategy::Sample { rate: t as f64 / 10.0 },
    });
    if let Some(m) = c.max_events {
        sase = sase.with_max_kleene_events(m);
    }
    if let Some(r) = c.max_results {
        sase = sase.with_max_enumeration_results(r);
    }
    let m_cap = c.max_events.unwrap_or(20) as usize;
    let r_cap = c.max_results.unwrap_or(10_000);
    let trailing = matches!(c.shape, Shape::Trailing);
    let mut last = (0u64, 0u64, 0u64, 0u64);
    let mut limit_hit = false;
    let mut max_seen = 0usize;
    for ev in &c.events {
        let e = ev.to_event();
        let matches = if c.use_with_result {
            let r = sase.process_with_result(&e);
            if r.stats.runs_dropped > 0 || r.stats.runs_evicted > 0 {
                limit_hit = true;
            }
            r.matches
        } else {
            sase.process(&e)
        };
        // matches per completion (per start event) <= cap
        let mut per_start: BTreeMap<i64, usize> = BTreeMap::new();
        for m in &matches {
            let start = m.stack.first().and_then(|x| x.event.get("id")).and_then(|v| v.as_int()).unwrap_or(-1);
            *per_start.entry(start).or_default() += 1;
            let kleene_alias = if matches!(c.shape, Shape::LeadingAll) { "a" } else { "b" };
            let n = m.stack.iter().filter(|x| x.alias.as_deref() == Some(kleene_alias)).count();
            if !matches!(c.shape, Shape::Seq3) && n > m_cap {
                return Outcome::fail(if trailing { "kept-more-than-max-kleene-events:trailing-all" } else if matches!(c.shape, Shape::LeadingAll) { "kept-more-than-max-kleene-events:leading-all" } else { "kept-more-than-max-kleene-events" }, format!("{}\ncap {} match holds {} kleene events", src, m_cap, n));
            }
        }
        if let Some((s, n)) = per_start.iter().find(|(_, n)| **n > r_cap) {
            return Outcome::fail("more-matches-than-enumeration-cap", format!("{}\nstart {} emitted {} matches at event {} (cap {})", src, s, n, ev.id(), r_cap));
        }
        let cp = sase.checkpoint();
        let st = sase.extended_stats();
        if cp.active_runs.len() > c.max_runs {
            return Outcome::fail("too-many-runs", format!("{}\n{} unpartitioned runs > max_runs {} after event {}", src, cp.active_runs.len(), c.max_runs, ev.id()));
        }
        let mut parts: Vec<(&String, usize)> = cp.partitioned_runs.iter().map(|(k, v)| (k, v.len())).collect();
        parts.sort();
        for (k, n) in &parts {
            max_seen = max_seen.max(*n);
            if *n > c.max_runs {
                return Outcome::fail("too-many-runs-in-partition", format!("{}\npartition {:?} has {} runs > max_runs {} after event {}", src, k, n, c.max_runs, ev.id()));
            }
        }
        max_seen = max_seen.max(cp.active_runs.len());
        let total: usize = cp.active_runs.len() + parts.iter().map(|x| x.1).sum::<usize>();
        if st.active_runs != total {
            return Outcome::fail("stats-disagree-with-state", format!("{}\nextended_stats.active_runs {} but checkpoint lists {}", src, st.active_runs, total));
        }
        for r in cp.active_runs.iter().chain(cp.partitioned_runs.values().flatten()) {
            if let Some(k) = &r.kleene_events {
                if k.len() > m_cap {
                    return Outcome::fail("kept-more-than-max-kleene-events", format!("{}\nrun keeps {} kleene events, cap {}", src, k.len(), m_cap));
                }
            }
        }
        let now = (st.total_runs_created, st.total_runs_completed, st.total_runs_dropped, st.total_runs_evicted);
        if now.0 < last.0 || now.1 < last.1 || now.2 < last.2 || now.3 < last.3 {
            return Outcome::fail("counter-decreased", format!("{}\n{:?} -> {:?}", src, last, now));
        }
        if now.2 > last.2 || now.3 > last.3 {
            limit_hit = true;
        }
        last = now;
    }
    Outcome::pass()
        .nontrivial(limit_hit)
        .class(format!("{:?}", c.shape))
        .class(match c.strat {
            Strat::Drop => "drop",
            Strat::Error => "error",
            Strat::EvictOldest => "evict_oldest",
            Strat::EvictLeastProgress => "evict_least_progress",
            Strat::Sample(_) => "sample",
        })
        .class_if(c.partitioned, "partitioned")
        .class_if(limit_hit, "limit_hit")
        .class_if(max_seen == c.max_runs, "at_max_runs")
}

fn main() {
    let check = Check::new("C05", "exploration");
    check.rule("SaseEngine (built from VPL through the public compiler functions) with every backpressure strategy (drop, error, evict-oldest, evict-least-progress, sample 0/.3/.5/1), max_runs 1-8, optional Kleene caps (events 1-6, results 1-39), partitioned or not, five pattern shapes (A->B->C, A->all B [self-ref]->C, A->all B, all A->B), adversarial streams of 20-120 events (60% start events, bursts, rare completions, missing keys), via process() or process_with_result(). Invariants after every event from SaseEngine::checkpoint()/extended_stats(): runs per partition <= max_runs, stats agree with state, Kleene events per run <= cap, matches per completion and start <= cap, counters monotone, no panic. Non-trivial = the limit was actually hit (a run dropped or evicted).");
    check.explore("bounds", strat, 15_000, 150_000, run);
    check.finish();
}
