//! C36 A coordinator restarted on its RocksDB store has exactly the replicated state of the
//! commands up to its recorded applied position, and the vote / log / purge position it persisted.
#[path = "../../c35/src/cmds.rs"]
mod cmds;
use cmds::*;
use proptest::prelude::*;
use serde::{Deserialize, Serialize};
use std::collections::BTreeMap;
use std::io::Cursor;
use vh_common::{Check, Outcome};
use vh_server::varpulis_cluster as vc;

use openraft::{EntryPayload, LogId, RaftLogReader, RaftSnapshotBuilder, RaftStorage, SnapshotMeta, StorageError, StoredMembership, Vote};
use vc::raft::persistent_store::RocksStore;
use vc::raft::state_machine::{apply_command, CoordinatorState};
use vc::raft::store::{MemStore, SharedCoordinatorState};
use vc::raft::{verif_hooks, RaftNode};

type J = serde_json::Value;
type Fail = (String, String);
type Mem = StoredMembership<u64, RaftNode>;

// ------------------------------------------------------------------ case

#[derive(Clone, Debug, Serialize, Deserialize)]
enum Op {
    Append { pays: Vec<Pay>, bump: bool },
    /// apply the next `n` log entries (clipped to what is in the log)
    Apply { n: u8 },
    /// build a snapshot at the current applied position (log compaction, first half)
    BuildSnapshot,
    /// purge up to the last snapshot position minus `k` (never beyond the snapshot, as openraft does)
    Purge { k: u8 },
    /// a snapshot sent by the leader: `k` selects a position inside the not yet applied local log,
    /// `extra` non-empty = the leader is ahead of the local log by these entries.  Followed by the
    /// purge up to the snapshot that openraft issues after an install (separate step).
    Install { k: u8, extra: Vec<Pay> },
    /// delete_conflict_logs_since(last - back), only not yet applied entries
    Truncate { back: u8 },
    Vote { bump: u8, node: u8, committed: bool },
}

#[derive(Clone, Debug, Serialize, Deserialize)]
struct Case {
    ops: Vec<Op>,
}

fn op() -> impl Strategy<Value = Op> {
    prop_oneof![
        5 => (proptest::collection::vec(pay(), 1..5), proptest::bool::weighted(0.2)).prop_map(|(pays, bump)| Op::Append { pays, bump }),
        5 => (1u8..5).prop_map(|n| Op::Apply { n }),
        3 => Just(Op::BuildSnapshot),
        3 => (0u8..3).prop_map(|k| Op::Purge { k }),
        2 => (0u8..4, proptest::collection::vec(pay(), 0..4)).prop_map(|(k, extra)| Op::Install { k, extra }),
        1 => (0u8..3).prop_map(|back| Op::Truncate { back }),
        1 => (0u8..3, 1u8..4, any::<bool>()).prop_map(|(bump, node, committed)| Op::Vote { bump, node, committed }),
    ]
}

fn case() -> impl Strategy<Value = Case> {
    proptest::collection::vec(op(), 1..=30).prop_map(|ops| Case { ops })
}

// ------------------------------------------------------------------ model: what is persisted after each step

#[derive(Clone, Debug)]
enum Step {
    Append(Vec<Ent>),
    Apply(Vec<Ent>),
    Build,
    Purge(LogId<u64>),
    Install { meta: SnapshotMeta<u64, RaftNode>, data: Vec<u8> },
    Truncate(LogId<u64>),
    Vote(Vote<u64>),
}

impl Step {
    fn name(&self) -> &'static str {
        match self {
            Step::Append(_) => "append",
            Step::Apply(_) => "apply",
            Step::Build => "build-snapshot",
            Step::Purge(_) => "purge",
            Step::Install { .. } => "install-snapshot",
            Step::Truncate(_) => "delete-conflict",
            Step::Vote(_) => "save-vote",
        }
    }
}

#[derive(Clone, Debug, Default)]
struct Model {
    log: BTreeMap<u64, Ent>,
    last_purged: Option<LogId<u64>>,
    vote: Option<Vote<u64>>,
    applied: Option<LogId<u64>>,
    membership: Mem,
    /// position of the newest snapshot (built or installed)
    snap: Option<LogId<u64>>,
    installed: bool,
    term: u64,
    vote_term: u64,
    truncated: bool,
}

impl Model {
    fn next_index(&self) -> u64 {
        match (self.log.keys().next_back(), self.last_purged) {
            (Some(k), _) => k + 1,
            (None, Some(p)) => p.index + 1,
            (None, None) => 0,
        }
    }
    fn applied_next(&self) -> u64 {
        self.applied.map(|a| a.index + 1).unwrap_or(0)
    }
}

struct Plan {
    steps: Vec<Step>,
    /// models[k] = persisted values after steps[..k]
    models: Vec<Model>,
    /// every entry that was ever committed (applied or covered by an installed snapshot), by index
    canon: BTreeMap<u64, Ent>,
    skipped: usize,
}

fn membership_after(mut cur: Mem, ents: &[Ent]) -> Mem {
    for e in ents {
        if let EntryPayload::Membership(m) = &e.payload {
            cur = StoredMembership::new(Some(e.log_id), m.clone());
        }
    }
    cur
}

/// Snapshot bytes as a leader would send them: produced by a real in-memory store that applied the
/// committed entries up to the snapshot position.
fn leader_snapshot(canon: &BTreeMap<u64, Ent>, upto: u64) -> (SnapshotMeta<u64, RaftNode>, Vec<u8>) {
    block_on(async {
        let mut leader = MemStore::new();
        let ents: Vec<Ent> = canon.range(..=upto).map(|(_, e)| e.clone()).collect();
        leader.apply_to_state_machine(&ents).await.expect("leader apply");
        let mut b = leader.get_snapshot_builder().await;
        let s = b.build_snapshot().await.expect("leader snapshot");
        (s.meta, s.snapshot.into_inner())
    })
}

fn plan(c: &Case) -> Plan {
    let mut m = Model { term: 1, ..Default::default() };
    let mut steps = vec![];
    let mut models = vec![m.clone()];
    let mut canon: BTreeMap<u64, Ent> = BTreeMap::new();
    let mut skipped = 0;
    for op in &c.ops {
        match op {
            Op::Append { pays, bump } => {
                if *bump || m.truncated {
                    m.term += 1;
                }
                m.truncated = false;
                let start = m.next_index();
                let ents: Vec<Ent> = pays.iter().enumerate().map(|(i, p)| entry(m.term, start + i as u64, p)).collect();
                for e in &ents {
                    m.log.insert(e.log_id.index, e.clone());
                }
                steps.push(Step::Append(ents));
                models.push(m.clone());
            }
            Op::Apply { n } => {
                let from = m.applied_next();
                let ents: Vec<Ent> = m.log.range(from..).take(*n as usize).map(|(_, e)| e.clone()).collect();
                if ents.is_empty() || ents[0].log_id.index != from {
                    skipped += 1;
                    continue;
                }
                for e in &ents {
                    canon.insert(e.log_id.index, e.clone());
                }
                m.applied = Some(ents.last().unwrap().log_id);
                m.membership = membership_after(m.membership.clone(), &ents);
                steps.push(Step::Apply(ents));
                models.push(m.clone());
            }
            Op::BuildSnapshot => {
                if m.applied.is_none() {
                    skipped += 1;
                    continue;
                }
                m.snap = m.applied;
                steps.push(Step::Build);
                models.push(m.clone());
            }
            Op::Purge { k } => {
                let Some(snap) = m.snap else {
                    skipped += 1;
                    continue;
                };
                let lo = m.last_purged.map(|p| p.index + 1).unwrap_or(0);
                if snap.index < lo {
                    skipped += 1;
                    continue;
                }
                let idx = snap.index - (*k as u64).min(snap.index - lo);
                let id = if idx == snap.index { snap } else { canon[&idx].log_id };
                m.log.retain(|i, _| *i > id.index);
                m.last_purged = Some(id);
                steps.push(Step::Purge(id));
                models.push(m.clone());
            }
            Op::Install { k, extra } => {
                let from = m.applied_next();
                let local_last = m.log.keys().next_back().copied();
                let avail = local_last.map(|l| (l + 1).saturating_sub(from)).unwrap_or(0);
                // committed entries the leader has beyond our applied position
                let mut newly: Vec<Ent> = vec![];
                if !extra.is_empty() {
                    newly.extend(m.log.range(from..).map(|(_, e)| e.clone()));
                    // a hole between the purge position and `from` cannot exist: `from <= next_index`
                    let start = m.next_index().max(from);
                    let term = m.term + 1;
                    newly.extend(extra.iter().enumerate().map(|(i, p)| entry(term, start + i as u64, p)));
                    m.term = term;
                } else if avail > 0 {
                    let take = 1 + (*k as u64) % avail;
                    newly.extend(m.log.range(from..).take(take as usize).map(|(_, e)| e.clone()));
                } else {
                    skipped += 1;
                    continue;
                }
                if newly.first().map(|e| e.log_id.index) != Some(from) {
                    skipped += 1;
                    continue;
                }
                for e in &newly {
                    canon.insert(e.log_id.index, e.clone());
                }
                let s = newly.last().unwrap().log_id;
                let (meta, data) = leader_snapshot(&canon, s.index);
                assert_eq!(meta.last_log_id, Some(s));
                m.applied = Some(s);
                m.membership = meta.last_membership.clone();
                m.snap = Some(s);
                m.installed = true;
                steps.push(Step::Install { meta, data });
                models.push(m.clone());
                // openraft purges the log up to the installed snapshot
                m.log.retain(|i, _| *i > s.index);
                m.last_purged = Some(s);
                m.truncated = false;
                steps.push(Step::Purge(s));
                models.push(m.clone());
            }
            Op::Truncate { back } => {
                let from = m.applied_next();
                let Some(last) = m.log.keys().next_back().copied() else {
                    skipped += 1;
                    continue;
                };
                if last < from {
                    skipped += 1;
                    continue;
                }
                let since = last - (*back as u64).min(last - from);
                let Some(e) = m.log.get(&since) else {
                    skipped += 1;
                    continue;
                };
                let id = e.log_id;
                m.log.retain(|i, _| *i < since);
                m.truncated = true;
                steps.push(Step::Truncate(id));
                models.push(m.clone());
            }
            Op::Vote { bump, node, committed } => {
                m.vote_term += *bump as u64;
                let v = if *committed { Vote::new_committed(m.vote_term, *node as u64) } else { Vote::new(m.vote_term, *node as u64) };
                m.vote = Some(v);
                steps.push(Step::Vote(v));
                models.push(m.clone());
            }
        }
    }
    Plan { steps, models, canon, skipped }
}

// ------------------------------------------------------------------ the real store

struct Live {
    store: RocksStore,
    shared: SharedCoordinatorState,
}

fn tmp() -> tempfile::TempDir {
    // RAM-backed when available: RocksDB opens are fsync-heavy
    let shm = std::path::Path::new("/dev/shm");
    if shm.is_dir() {
        if let Ok(d) = tempfile::Builder::new().prefix("vh-c36-").tempdir_in(shm) {
            return d;
        }
    }
    tempfile::Builder::new().prefix("vh-c36-").tempdir().expect("tempdir")
}

/// The call `raft::bootstrap_persistent` makes.
fn open(dir: &std::path::Path) -> Result<Live, Fail> {
    let p = dir.join("node-1");
    RocksStore::open_with_shared_state(p.to_str().unwrap()).map(|(store, shared)| Live { store, shared }).map_err(|e| ("reopen-failed".to_string(), e))
}

async fn exec(l: &mut Live, s: &Step) -> Result<(), StorageError<u64>> {
    match s {
        Step::Append(e) => l.store.append_to_log(e.clone()).await,
        Step::Apply(e) => l.store.apply_to_state_machine(e).await.map(|_| ()),
        Step::Build => {
            let mut b = l.store.get_snapshot_builder().await;
            b.build_snapshot().await.map(|_| ())
        }
        Step::Purge(id) => l.store.purge_logs_upto(*id).await,
        Step::Install { meta, data } => {
            let mut b = l.store.begin_receiving_snapshot().await?;
            *b = Cursor::new(data.clone());
            l.store.install_snapshot(meta, b).await
        }
        Step::Truncate(id) => l.store.delete_conflict_logs_since(*id).await,
        Step::Vote(v) => l.store.save_vote(v).await,
    }
}

struct Obs {
    vote: Option<Vote<u64>>,
    log: Vec<Ent>,
    last_purged: Option<LogId<u64>>,
    last_log_id: Option<LogId<u64>>,
    applied: Option<LogId<u64>>,
    membership: Mem,
    state: J,
}

fn observe(l: &mut Live) -> Result<Obs, Fail> {
    block_on(async {
        let e = |what: &str, e: StorageError<u64>| (format!("read-after-restart-error:{what}"), e.to_string());
        let vote = l.store.read_vote().await.map_err(|x| e("vote", x))?;
        let log = l.store.try_get_log_entries(..).await.map_err(|x| e("log", x))?;
        let ls = l.store.get_log_state().await.map_err(|x| e("log_state", x))?;
        let (applied, membership) = l.store.last_applied_state().await.map_err(|x| e("applied", x))?;
        let state = state_json(&l.shared.read().unwrap());
        Ok(Obs { vote, log, last_purged: ls.last_purged_log_id, last_log_id: ls.last_log_id, applied, membership, state })
    })
}

fn fold_state(canon: &BTreeMap<u64, Ent>, upto: Option<LogId<u64>>) -> J {
    let mut st = CoordinatorState::default();
    if let Some(u) = upto {
        for (_, e) in canon.range(..=u.index) {
            if let EntryPayload::Normal(c) = &e.payload {
                apply_command(&mut st, c.clone());
            }
        }
    }
    state_json(&st)
}

fn log_json(v: &[Ent]) -> J {
    serde_json::to_value(v).unwrap()
}
fn ids(v: &[Ent]) -> Vec<(u64, u64)> {
    v.iter().map(|e| (e.log_id.leader_id.term, e.log_id.index)).collect()
}

#[derive(Default)]
struct Stats {
    restarts: usize,
    after_purge_with_applied: usize,
    after_install: usize,
    midop: BTreeMap<String, usize>,
    membership_stale_midop: usize,
    steps: BTreeMap<&'static str, usize>,
}

/// What the situation at the crash is called in failure signatures.
fn ctx(m: &Model) -> &'static str {
    if m.installed {
        "snapshot-installed"
    } else if m.last_purged.is_some() {
        "log-purged"
    } else if m.snap.is_some() {
        "snapshot-built"
    } else {
        "plain"
    }
}

/// `pre == post` at an operation boundary; inside an operation every persisted component may have
/// its old or its new value, and the state must belong to the applied position that is recorded.
fn check(o: &Obs, pre: &Model, post: &Model, canon: &BTreeMap<u64, Ent>, when: &str, sig_ctx: &str, stats: &mut Stats) -> Result<(), Fail> {
    let either = |a: bool, b: bool| a || b;
    if !either(o.applied == pre.applied, o.applied == post.applied) {
        return Err((format!("applied-position-after-restart:{sig_ctx}"), format!("{when}: recorded applied position {:?}, persisted before the crash {:?} (or {:?})", o.applied, post.applied, pre.applied)));
    }
    let want_state = fold_state(canon, o.applied);
    if o.state != want_state {
        return Err((
            format!("state-after-restart:{sig_ctx}"),
            format!("{when}: applied position {:?}, last purged {:?}, log {:?}\n recovered state {}\n commands up to the applied position give {}", o.applied, o.last_purged, ids(&o.log), o.state, want_state),
        ));
    }
    if !either(o.vote == pre.vote, o.vote == post.vote) {
        return Err((format!("vote-after-restart:{sig_ctx}"), format!("{when}: {:?} expected {:?}", o.vote, post.vote)));
    }
    if !either(o.last_purged == pre.last_purged, o.last_purged == post.last_purged) {
        return Err((format!("last-purged-after-restart:{sig_ctx}"), format!("{when}: {:?} expected {:?}", o.last_purged, post.last_purged)));
    }
    let pre_log: Vec<Ent> = pre.log.values().cloned().collect();
    let post_log: Vec<Ent> = post.log.values().cloned().collect();
    let lj = log_json(&o.log);
    if !either(lj == log_json(&pre_log), lj == log_json(&post_log)) {
        return Err((format!("log-after-restart:{sig_ctx}"), format!("{when}: log {:?} expected {:?}", ids(&o.log), ids(&post_log))));
    }
    // last_log_id is a function of the (observed) log and purge position
    let want_last = o.log.last().map(|e| e.log_id).or(o.last_purged);
    if o.last_log_id != want_last {
        return Err((format!("last-log-id-after-restart:{sig_ctx}"), format!("{when}: {:?} expected {:?}", o.last_log_id, want_last)));
    }
    // membership is not part of the statement: counted, not judged, inside an operation; at a boundary it
    // belongs to "exactly its applied state"
    let mj = serde_json::to_value(&o.membership).unwrap();
    let same_pre = mj == serde_json::to_value(&pre.membership).unwrap();
    let same_post = mj == serde_json::to_value(&post.membership).unwrap();
    if !either(same_pre, same_post) {
        return Err((format!("membership-after-restart:{sig_ctx}"), format!("{when}: {:?} expected {:?}", o.membership, post.membership)));
    }
    if o.applied == post.applied && !same_post {
        stats.membership_stale_midop += 1;
    }
    stats.restarts += 1;
    if post.last_purged.is_some() && o.applied.is_some() {
        stats.after_purge_with_applied += 1;
    }
    if post.installed {
        stats.after_install += 1;
    }
    Ok(())
}

fn is_injected(e: &StorageError<u64>) -> bool {
    e.to_string().contains("verif: injected crash")
}

/// Pass A: restart after every step, keep going on the recovered store.  Returns the number of crash
/// points the whole history passes.
fn run_cumulative(p: &Plan, stats: &mut Stats) -> Result<u64, Fail> {
    let r = run_cumulative_inner(p, stats);
    let (hits, _) = verif_hooks::disarm();
    r.map(|_| hits)
}

fn run_cumulative_inner(p: &Plan, stats: &mut Stats) -> Result<(), Fail> {
    let dir = tmp();
    let mut live = open(dir.path())?;
    let o = observe(&mut live)?;
    check(&o, &p.models[0], &p.models[0], &p.canon, "fresh store", "fresh", stats)?;
    verif_hooks::arm(u64::MAX);
    for (k, s) in p.steps.iter().enumerate() {
        if let Err(e) = block_on(exec(&mut live, s)) {
            return Err((format!("storage-error:{}", s.name()), format!("step {k} {}: {e}", s.name())));
        }
        *stats.steps.entry(s.name()).or_insert(0) += 1;
        drop(live);
        live = open(dir.path())?;
        let o = observe(&mut live)?;
        let m = &p.models[k + 1];
        check(&o, m, m, &p.canon, &format!("restart after step {k} ({}), restarted after every earlier step too", s.name()), ctx(m), stats)?;
    }
    Ok(())
}

/// Pass B: no restart before; crash at the boundary after `k` steps.
fn run_boundary(p: &Plan, k: usize, stats: &mut Stats) -> Result<(), Fail> {
    let dir = tmp();
    let mut live = open(dir.path())?;
    for (i, s) in p.steps[..k].iter().enumerate() {
        block_on(exec(&mut live, s)).map_err(|e| (format!("storage-error:{}", s.name()), format!("step {i} {}: {e}", s.name())))?;
    }
    drop(live);
    let mut live = open(dir.path())?;
    let o = observe(&mut live)?;
    let m = &p.models[k];
    let what = if k == 0 { "nothing".to_string() } else { format!("step {} ({})", k - 1, p.steps[k - 1].name()) };
    check(&o, m, m, &p.canon, &format!("crash after {what}, first restart"), ctx(m), stats)
}

/// Pass C: no restart before; crash at the `j`-th crash point (between two RocksDB writes of one operation).
fn run_hook(p: &Plan, j: u64, stats: &mut Stats) -> Result<(), Fail> {
    let dir = tmp();
    let mut live = open(dir.path())?;
    verif_hooks::arm(j);
    let mut crashed_in = None;
    for (i, s) in p.steps.iter().enumerate() {
        match block_on(exec(&mut live, s)) {
            Ok(()) => {}
            Err(e) if is_injected(&e) => {
                crashed_in = Some(i);
                break;
            }
            Err(e) => {
                verif_hooks::disarm();
                return Err((format!("storage-error:{}", s.name()), format!("step {i} {}: {e}", s.name())));
            }
        }
    }
    let (_, tag) = verif_hooks::disarm();
    let Some(k) = crashed_in else {
        return Err(("harness:crash-point-not-reached".into(), format!("crash point {j} not reached")));
    };
    let tag = tag.unwrap_or("?");
    drop(live);
    let mut live = open(dir.path())?;
    let o = observe(&mut live)?;
    *stats.midop.entry(tag.to_string()).or_insert(0) += 1;
    check(&o, &p.models[k], &p.models[k + 1], &p.canon, &format!("crash inside step {k} ({}) at crash point '{tag}'", p.steps[k].name()), &format!("crash-inside-{}", p.steps[k].name()), stats)
}

fn run_case(c: &Case, all_boundaries: bool) -> Outcome {
    let p = plan(c);
    let mut stats = Stats::default();
    let n = p.steps.len();
    let hits = match run_cumulative(&p, &mut stats) {
        Ok(h) => h,
        Err((s, d)) => return Outcome::fail(s, d),
    };
    for k in 0..=n {
        // quick tier: pass A already restarts at every boundary; the "first restart" variant is run at every
        // boundary of short histories, else after the steps that matter for recovery, every 4th and the last
        let wanted = all_boundaries || n <= 10 || k == n || k % 4 == 0 || matches!(p.steps[k.max(1) - 1], Step::Purge(_) | Step::Install { .. } | Step::Build | Step::Truncate(_));
        if !wanted {
            continue;
        }
        if let Err((s, d)) = run_boundary(&p, k, &mut stats) {
            return Outcome::fail(s, d);
        }
    }
    for j in 0..hits {
        if let Err((s, d)) = run_hook(&p, j, &mut stats) {
            return Outcome::fail(s, d);
        }
    }
    let mut o = Outcome::pass()
        .nontrivial(stats.after_purge_with_applied > 0 || stats.after_install > 0)
        .class_if(stats.after_purge_with_applied > 0, "restart_after_purge_with_applied_entries")
        .class_if(stats.after_install > 0, "restart_after_snapshot_install")
        .class_if(hits > 0, "has_crash_inside_operation")
        .class_if(stats.membership_stale_midop > 0, "note:membership_older_than_applied_position_after_crash_inside_apply")
        .class_if(p.skipped > 0, "op_skipped_not_applicable")
        .class(format!("restarts:{}", match stats.restarts { 0..=9 => "<10", 10..=29 => "10-29", 30..=59 => "30-59", _ => ">=60" }));
    for (t, _) in stats.midop {
        o = o.class(format!("crash_point:{t}"));
    }
    for (t, _) in stats.steps {
        o = o.class(format!("step:{t}"));
    }
    o
}

fn main() {
    let check = Check::new("C36", "fault_enumeration");
    check.rule(
        "histories of 1..30 operations on a real RocksStore as openraft drives it (contiguous appends, applies of logged entries, snapshot build, purge not beyond the newest snapshot, \
         snapshot install from a leader that is ahead followed by the purge, deletion of a not yet applied suffix, vote saves); per history: (A) restart after every step and continue on the recovered store, \
         (B) fresh runs crashed at the boundary after k steps (thorough: every k; quick: every k of histories <= 10 steps, else after every purge / snapshot / delete-conflict step, every 4th and the last), (C) for every crash point between two RocksDB writes of one operation (hook H6) a fresh run crashed there; \
         after each restart through RocksStore::open_with_shared_state: shared state == fold of the committed commands up to the recorded applied position, applied position / vote / log / last purged == the values persisted \
         (inside an operation: old or new value per component). non-trivial = a restart with a purged log prefix and applied entries, or after a snapshot install.",
    );
    check.assume("a process crash leaves exactly the RocksDB writes issued so far (WAL in the page cache survives a process crash; power loss is not modelled)");
    check.assume("state_machine::apply_command (judged by C35) defines the state of a command sequence");
    let all = check.is_thorough() || check.is_replay();
    check.explore("crash_restart", case, 80, 1000, move |c: &Case| run_case(c, all));
    check.finish();
}
