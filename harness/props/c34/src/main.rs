//! C34 Event routing to pipelines and replicas is deterministic and sticky.
//!
//! Real code under test: `Coordinator::resolve_inject_target` (single path, request decoded from
//! JSON text exactly as the REST handler does), `Coordinator::inject_batch` (`.evt` text path,
//! observed at an in-process mock worker), `routing::find_target_pipeline`,
//! `ReplicaGroup::select_replica`.  The group is installed through the real
//! `plan_deploy_group` / `commit_deploy_group` phases (deploy results fabricated, all success).
//!
//! Oracle = independent model: first matching route (route order, then pattern order; exact,
//! trailing `*`, bare `*`) else first pipeline; hash-key: one replica per key value per pipeline
//! over all injections of the case, whichever path; round-robin: every contiguous run of
//! injections into a pipeline has replica loads differing by at most one.
use proptest::prelude::*;
use serde::{Deserialize, Serialize};
use std::collections::{BTreeMap, HashMap};
use std::sync::{Arc, Mutex};
use vh_common::{Check, Outcome};
use vh_server::varpulis_cluster as vc;
use vc::coordinator::{DeployResponse, DeployTaskResult, InjectBatchRequest};
use vc::{Coordinator, InjectEventRequest, InterPipelineRoute, PipelineGroupSpec, PipelinePlacement, WorkerId, WorkerNode};
use warp::Filter;

// ------------------------------------------------------------------ case model

#[derive(Clone, Debug, Serialize, Deserialize)]
struct Pipe {
    replicas: usize,
    /// true: partition_key = "k" (hash-key strategy when replicas > 1); false: round-robin
    hash: bool,
}

#[derive(Clone, Debug, Serialize, Deserialize)]
struct Route {
    to: usize,
    patterns: Vec<String>,
}

#[derive(Clone, Debug, Serialize, Deserialize)]
struct Ev {
    ty: String,
    /// literal text of field `k` (valid both as JSON and as `.evt` value); None = field missing
    key: Option<String>,
}

#[derive(Clone, Debug, Serialize, Deserialize)]
enum Inj {
    Single(Ev),
    Batch(Vec<Ev>),
}

#[derive(Clone, Debug, Serialize, Deserialize)]
struct Case {
    pipes: Vec<Pipe>,
    routes: Vec<Route>,
    injections: Vec<Inj>,
}

const TYPES: &[&str] = &["A", "AB", "ABC", "Ab", "B", "BA", "C", "Z"];
const PATTERNS: &[&str] = &["A", "AB", "ABC", "Ab", "B", "BA", "C", "A*", "AB*", "Ab*", "B*", "BA*", "C*", "ABCD*", "Q*", "*"];

const INT_LITS: &[&str] = &[
    "0", "1", "2", "7", "-1", "42", "100", "1000000", "9007199254740993", "9223372036854775807", "-9223372036854775808",
    // u64 range (above i64::MAX)
    "9223372036854775808", "12345678901234567890", "18446744073709551614", "18446744073709551615",
    // beyond u64
    "18446744073709551616", "100000000000000000000",
];
const FLOAT_LITS: &[&str] = &[
    "0.5", "1.0", "1.5", "100.0", "1e2", "1E2", "1.0e2", "10.0e1", "2.5e-3", "0.0025", "1e300", "-2.75", "0.1", "3.14", "1e0", "123456789.125", "1e-7", "0.0000001",
    "1.7976931348623157e308", "5e-324",
];
const STR_LITS: &[&str] = &[
    r#""""#, r#""a""#, r#""b""#, r#""k1""#, r#""hello world""#, r#""é""#, r#""a,b""#, r#""a:b""#, r#""10""#, r#""1.0""#, r#""true""#, r#""null""#, r#""a\"b""#, r#""t\tx""#, r#""x}y""#,
];

fn key_lit() -> impl Strategy<Value = String> {
    prop_oneof![
        3 => proptest::sample::select(INT_LITS).prop_map(String::from),
        3 => proptest::sample::select(FLOAT_LITS).prop_map(String::from),
        3 => proptest::sample::select(STR_LITS).prop_map(String::from),
        1 => (-50i64..50).prop_map(|i| i.to_string()),
    ]
}

fn strat() -> impl Strategy<Value = Case> {
    let pipes = prop::collection::vec((1usize..=5, any::<bool>()).prop_map(|(replicas, hash)| Pipe { replicas, hash }), 1..=3);
    let keys = prop::collection::vec(key_lit(), 1..=6);
    (pipes, keys).prop_flat_map(|(pipes, keys)| {
        let np = pipes.len();
        let route = (0..np, prop::collection::vec(proptest::sample::select(PATTERNS).prop_map(String::from), 1..=3)).prop_map(|(to, patterns)| Route { to, patterns });
        let routes = prop::collection::vec(route, 0..=4);
        let ev = (proptest::sample::select(TYPES), prop_oneof![1 => Just(None), 8 => proptest::sample::select(keys.clone()).prop_map(Some)])
            .prop_map(|(ty, key)| Ev { ty: ty.to_string(), key });
        let inj = prop_oneof![
            3 => ev.clone().prop_map(Inj::Single),
            2 => prop::collection::vec(ev.clone(), 1..=8).prop_map(Inj::Batch),
        ];
        let injections = prop::collection::vec(inj, 2..=12);
        (Just(pipes), routes, injections).prop_map(|(pipes, routes, injections)| Case { pipes, routes, injections })
    })
}

// ------------------------------------------------------------------ model

fn model_matches(ty: &str, pat: &str) -> bool {
    if pat == "*" {
        return true;
    }
    match pat.strip_suffix('*') {
        Some(prefix) => ty.len() >= prefix.len() && &ty.as_bytes()[..prefix.len()] == prefix.as_bytes(),
        None => ty == pat,
    }
}

/// (pipeline index, true if a route matched)
fn model_route(case: &Case, ty: &str) -> (usize, bool) {
    for r in &case.routes {
        for p in &r.patterns {
            if model_matches(ty, p) {
                return (r.to, true);
            }
        }
    }
    (0, false)
}

/// Identity of a key value: same identity <=> "same key value" of the statement.
#[derive(Clone, Debug, PartialEq, Eq, Hash, PartialOrd, Ord)]
enum KeyId {
    Missing,
    Int(i128),
    Float(u64),
    Str(String),
}

fn key_id(lit: &Option<String>) -> (KeyId, &'static str) {
    let Some(l) = lit else { return (KeyId::Missing, "missing") };
    if l.starts_with('"') {
        // decoded by the JSON rules (the escapes used are common to JSON and .evt)
        let s: String = serde_json::from_str(l).expect("string literal");
        return (KeyId::Str(s), "string");
    }
    if let Ok(i) = l.parse::<i128>() {
        let kind = if i >= i64::MIN as i128 && i <= i64::MAX as i128 {
            "int-i64"
        } else if i > 0 && i <= u64::MAX as i128 {
            "int-u64range"
        } else {
            "int-beyond-u64"
        };
        return (KeyId::Int(i), kind);
    }
    let f: f64 = l.parse().expect("float literal");
    let kind = if l.contains('e') || l.contains('E') { "float-exp" } else { "float" };
    (KeyId::Float(f.to_bits()), kind)
}

// ------------------------------------------------------------------ mock worker (per thread)

type Rec = Arc<Mutex<Vec<(String, serde_json::Value)>>>;

struct Env {
    rt: tokio::runtime::Runtime,
    addr: String,
    rec: Rec,
}

impl Env {
    fn new() -> Env {
        let rt = tokio::runtime::Builder::new_current_thread().enable_all().build().expect("runtime");
        let rec: Rec = Arc::new(Mutex::new(Vec::new()));
        let rec2 = rec.clone();
        let routes = warp::any().and(warp::path::full()).and(warp::body::bytes()).map(move |p: warp::path::FullPath, b: warp::hyper::body::Bytes| {
            let body: serde_json::Value = serde_json::from_slice(&b).unwrap_or(serde_json::Value::Null);
            let n = body.get("events").and_then(|e| e.as_array()).map(|a| a.len()).unwrap_or(0);
            rec2.lock().unwrap().push((p.as_str().to_string(), body));
            warp::reply::json(&serde_json::json!({"accepted": n, "output_events": []}))
        });
        let addr = {
            let _g = rt.enter();
            let (addr, fut) = warp::serve(routes).bind_ephemeral(([127, 0, 0, 1], 0));
            rt.spawn(fut);
            addr
        };
        Env { rt, addr: format!("http://{}", addr), rec }
    }
}

thread_local! {
    static ENV: Env = Env::new();
}

// ------------------------------------------------------------------ the check

#[derive(Clone, Copy, PartialEq, Eq, Debug)]
enum Path {
    Single,
    Batch,
}

struct Seen {
    pipe: usize,
    replica: usize,
    path: Path,
    key: KeyId,
    kind: &'static str,
    lit: Option<String>,
}

/// worker-side pipeline id of a replica (no '#': it would start a URL fragment)
fn pid_of(replica_name: &str) -> String {
    format!("pid-{}", replica_name.replace('#', "_r"))
}

fn pipe_name(i: usize) -> String {
    format!("p{}", i)
}

/// replica name -> (pipe index, replica index)
fn parse_replica(case: &Case, name: &str) -> Option<(usize, usize)> {
    let (base, idx) = match name.rsplit_once('#') {
        Some((b, i)) => (b, Some(i.parse::<usize>().ok()?)),
        None => (name, None),
    };
    let pi: usize = base.strip_prefix('p')?.parse().ok()?;
    let p = case.pipes.get(pi)?;
    match idx {
        None if p.replicas == 1 => Some((pi, 0)),
        Some(r) if p.replicas > 1 && r < p.replicas => Some((pi, r)),
        _ => None,
    }
}

fn run(case: &Case) -> Outcome {
    ENV.with(|env| run_in(env, case))
}

fn run_in(env: &Env, case: &Case) -> Outcome {
    env.rec.lock().unwrap().clear();
    let mut coord = Coordinator::new();
    for w in 0..2 {
        coord.register_worker(WorkerNode::new(WorkerId(format!("w{}", w)), format!("{}/w{}", env.addr, w), "key".into()));
    }
    let spec = PipelineGroupSpec {
        name: "g".into(),
        pipelines: case
            .pipes
            .iter()
            .enumerate()
            .map(|(i, p)| PipelinePlacement {
                name: pipe_name(i),
                source: format!("stream S{} = X", i),
                worker_affinity: None,
                replicas: p.replicas,
                partition_key: if p.hash { Some("k".into()) } else { None },
            })
            .collect(),
        routes: case
            .routes
            .iter()
            .map(|r| InterPipelineRoute { from_pipeline: "_external".into(), to_pipeline: pipe_name(r.to), event_types: r.patterns.clone(), nats_subject: None })
            .collect(),
    };
    let plan = match coord.plan_deploy_group(&spec) {
        Ok(p) => p,
        Err(e) => return Outcome::fail("harness:plan-deploy-failed", e.to_string()),
    };
    let results: Vec<DeployTaskResult> = plan
        .tasks
        .iter()
        .map(|t| DeployTaskResult {
            replica_name: t.replica_name.clone(),
            pipeline_name: t.pipeline_name.clone(),
            worker_id: t.worker_id.clone(),
            worker_address: t.worker_address.clone(),
            worker_api_key: t.worker_api_key.clone(),
            replica_count: t.replica_count,
            outcome: Ok(DeployResponse { id: pid_of(&t.replica_name), name: t.replica_name.clone(), status: "running".into() }),
        })
        .collect();
    let gid = coord.commit_deploy_group(plan, results).expect("commit");

    let mut seen: Vec<Seen> = Vec::new();
    let mut next_id = 0u64;
    let mut fallback_used = false;
    let mut route_used = false;
    let mut wildcard_hit = false;

    for inj in &case.injections {
        match inj {
            Inj::Single(ev) => {
                let id = next_id;
                next_id += 1;
                let fields = match &ev.key {
                    Some(l) => format!(r#"{{"id":{},"k":{},"x":1}}"#, id, l),
                    None => format!(r#"{{"id":{},"x":1}}"#, id),
                };
                let text = format!(r#"{{"event_type":"{}","fields":{}}}"#, ev.ty, fields);
                let req: InjectEventRequest = match serde_json::from_str(&text) {
                    Ok(r) => r,
                    Err(e) => return Outcome::fail("harness:bad-json-literal", format!("{}: {}", text, e)),
                };
                let target = match coord.resolve_inject_target(&gid, &req) {
                    Ok(t) => t,
                    Err(e) => return Outcome::fail("single-inject-rejected", format!("{}: {}", text, e)),
                };
                let Some((pi, ri)) = parse_replica(case, &target.target_name) else {
                    return Outcome::fail("single-unknown-target", format!("{} -> {}", text, target.target_name));
                };
                if !target.url.ends_with(&format!("/api/v1/pipelines/{}/events", pid_of(&target.target_name))) {
                    return Outcome::fail("single-url-not-of-target", format!("{} -> {} url {}", text, target.target_name, target.url));
                }
                let (kid, kind) = key_id(&ev.key);
                let (mp, matched) = model_route(case, &ev.ty);
                if pi != mp {
                    return Outcome::fail(
                        if matched { "route-mismatch:single:first-matching-route" } else { "route-mismatch:single:fallback-first-pipeline" },
                        format!("type {} routes {:?}: model p{} real {}", ev.ty, case.routes, mp, target.target_name),
                    );
                }
                fallback_used |= !matched;
                route_used |= matched;
                seen.push(Seen { pipe: pi, replica: ri, path: Path::Single, key: kid, kind, lit: ev.key.clone() });
            }
            Inj::Batch(evs) => {
                let first = next_id;
                let mut text = String::new();
                for ev in evs {
                    let id = next_id;
                    next_id += 1;
                    match &ev.key {
                        Some(l) => text.push_str(&format!("{} {{ id: {}, k: {}, x: 1 }}\n", ev.ty, id, l)),
                        None => text.push_str(&format!("{} {{ id: {}, x: 1 }}\n", ev.ty, id)),
                    }
                }
                let before = env.rec.lock().unwrap().len();
                let resp = env.rt.block_on(coord.inject_batch(&gid, InjectBatchRequest { events_text: text.clone() }));
                let resp = match resp {
                    Ok(r) => r,
                    Err(e) => return Outcome::fail("batch-inject-rejected", format!("{:?}: {}", text, e)),
                };
                if resp.events_sent != evs.len() || !resp.errors.is_empty() {
                    return Outcome::fail("batch-not-fully-delivered", format!("{:?}: sent {} failed {} errors {:?}", text, resp.events_sent, resp.events_failed, resp.errors));
                }
                // observed: id -> replica
                let mut where_: HashMap<u64, String> = HashMap::new();
                {
                    let rec = env.rec.lock().unwrap();
                    for (path, body) in rec[before..].iter() {
                        let Some(pid) = path.strip_suffix("/events-batch").and_then(|p| p.rsplit('/').next()) else {
                            return Outcome::fail("batch-unexpected-request", path.clone());
                        };
                        let Some(rname) = pid.strip_prefix("pid-").map(|r| r.replace("_r", "#")) else { return Outcome::fail("batch-unexpected-request", path.clone()) };
                        for e in body["events"].as_array().cloned().unwrap_or_default() {
                            let Some(id) = e["fields"]["id"].as_u64() else { return Outcome::fail("batch-event-without-id", e.to_string()) };
                            if where_.insert(id, rname.to_string()).is_some() {
                                return Outcome::fail("batch-event-delivered-twice", format!("id {}", id));
                            }
                        }
                    }
                }
                for (off, ev) in evs.iter().enumerate() {
                    let id = first + off as u64;
                    let Some(rname) = where_.get(&id) else { return Outcome::fail("batch-event-lost", format!("id {} of {:?}", id, text)) };
                    let Some((pi, ri)) = parse_replica(case, rname) else { return Outcome::fail("batch-unknown-target", rname.clone()) };
                    let (kid, kind) = key_id(&ev.key);
                    let (mp, matched) = model_route(case, &ev.ty);
                    if pi != mp {
                        return Outcome::fail(
                            if matched { "route-mismatch:batch:first-matching-route" } else { "route-mismatch:batch:fallback-first-pipeline" },
                            format!("type {} routes {:?}: model p{} real {}", ev.ty, case.routes, mp, rname),
                        );
                    }
                    fallback_used |= !matched;
                    route_used |= matched;
                    seen.push(Seen { pipe: pi, replica: ri, path: Path::Batch, key: kid, kind, lit: ev.key.clone() });
                }
            }
        }
    }
    for r in &case.routes {
        wildcard_hit |= r.patterns.iter().any(|p| p.ends_with('*'));
    }

    // ---- hash-key stickiness
    let mut cross_path_keys = 0usize;
    let mut multi_replica_used = false;
    for (pi, p) in case.pipes.iter().enumerate() {
        if p.replicas < 2 {
            continue;
        }
        let evs: Vec<&Seen> = seen.iter().filter(|s| s.pipe == pi).collect();
        multi_replica_used |= !evs.is_empty();
        if p.hash {
            let mut first: BTreeMap<KeyId, &Seen> = BTreeMap::new();
            let mut paths: BTreeMap<KeyId, (bool, bool)> = BTreeMap::new();
            for s in &evs {
                let e = paths.entry(s.key.clone()).or_insert((false, false));
                match s.path {
                    Path::Single => e.0 = true,
                    Path::Batch => e.1 = true,
                }
                // compare with every earlier occurrence's representative of each path
                match first.get(&s.key) {
                    None => {
                        first.insert(s.key.clone(), s);
                    }
                    Some(f) => {
                        if f.replica != s.replica {
                            let pp = match (f.path, s.path) {
                                (Path::Single, Path::Single) => "single-single",
                                (Path::Batch, Path::Batch) => "batch-batch",
                                _ => "single-batch",
                            };
                            return Outcome::fail(
                                format!("hash-key-not-sticky:{}:{}", pp, s.kind),
                                format!("pipeline p{} ({} replicas): key {:?} ({:?} via {:?}) -> replica {}, but ({:?} via {:?}) -> replica {}", pi, p.replicas, s.key, f.lit, f.path, f.replica, s.lit, s.path, s.replica),
                            );
                        }
                    }
                }
            }
            cross_path_keys += paths.values().filter(|(a, b)| *a && *b).count();
        } else {
            // ---- round-robin balance over every contiguous run
            let seq: Vec<usize> = evs.iter().map(|s| s.replica).collect();
            for i in 0..seq.len() {
                let mut load = vec![0usize; p.replicas];
                for j in i..seq.len() {
                    load[seq[j]] += 1;
                    let (mn, mx) = (load.iter().min().unwrap(), load.iter().max().unwrap());
                    if mx - mn > 1 {
                        return Outcome::fail("round-robin-unbalanced", format!("pipeline p{} ({} replicas): replica sequence {:?}, run [{}..={}] loads {:?}", pi, p.replicas, seq, i, j, load));
                    }
                }
            }
        }
    }

    let any_hash = case.pipes.iter().enumerate().any(|(i, p)| p.hash && p.replicas > 1 && seen.iter().any(|s| s.pipe == i));
    let any_rr = case.pipes.iter().enumerate().any(|(i, p)| !p.hash && p.replicas > 1 && seen.iter().any(|s| s.pipe == i));
    let mut o = Outcome::pass()
        .nontrivial(multi_replica_used && (cross_path_keys > 0 || any_rr))
        .class_if(any_hash, "hash_key_pipeline_hit")
        .class_if(any_rr, "round_robin_pipeline_hit")
        .class_if(cross_path_keys > 0, "key_through_both_paths")
        .class_if(fallback_used, "fallback_first_pipeline")
        .class_if(route_used, "route_matched")
        .class_if(wildcard_hit, "has_wildcard_pattern")
        .class(format!("max_replicas={}", case.pipes.iter().map(|p| p.replicas).max().unwrap_or(0)));
    let mut kinds: Vec<&str> = seen.iter().filter(|s| case.pipes[s.pipe].hash && case.pipes[s.pipe].replicas > 1).map(|s| s.kind).collect();
    kinds.sort();
    kinds.dedup();
    for k in kinds {
        o = o.class(format!("hashed_key:{}", k));
    }
    o
}

fn main() {
    let check = Check::new("C34", "exploration");
    check.rule(
        "groups of 1-3 pipelines (replicas 1-5, hash-key on field k or round-robin), 0-4 routes with exact / trailing-* / bare-* patterns over a prefix-sharing type alphabet, \
         2-12 injections each a single JSON request or a .evt batch of 1-8 events; keys drawn from a small per-case pool of literals (i64, u64-range, beyond-u64 ints, plain and exponent floats, strings, missing) \
         written with the identical literal text in both paths; non-trivial = a multi-replica pipeline was hit and (some key value went through both paths or a round-robin pipeline was hit)",
    );
    check.assume("the mock worker (in-process warp server) faithfully records what inject_batch posts; 'same key value' = same literal value (ints by integer value, floats by f64 value, strings by decoded text); the literal \"-0\" is not generated");
    check.explore("routing", strat, 20_000, 400_000, run);
    check.finish();
}
