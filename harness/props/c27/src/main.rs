//! C27 Coordinated multi-context checkpoints form a consistent cut.
//!
//! Real `ContextOrchestrator` threads with a `MemoryStore` checkpoint store.  One case: feed a prefix
//! of the inputs, `trigger_checkpoint()` (with or without letting the contexts drain first), keep
//! feeding, wait until `try_complete_checkpoint()` reports completion, "crash" (shutdown: queued
//! messages are gone), rebuild the orchestrator from the stored checkpoint and replay, per ingress
//! context, exactly the inputs beyond its checkpointed `events_processed`.
//! Oracle: for every stream, (outputs emitted before its context's snapshot) ++ (outputs of the
//! recovered run) must equal the outputs of an uninterrupted run (plain engine, no contexts).
#[path = "../../c26/src/ctxlib.rs"]
mod ctxlib;

use ctxlib::*;
use proptest::prelude::*;
use serde::{Deserialize, Serialize};
use std::collections::BTreeMap;
use std::sync::Arc;
use std::time::Duration;
use varpulis_runtime::persistence::{MemoryStore, StateStore};
use vh_common::{idx, Check, Outcome};
use vh_gen::{Ev, OutEv};

#[derive(Clone, Debug, Serialize, Deserialize)]
struct Case {
    prog: Prog,
    inputs: Vec<Ev>,
    /// input positions (mapped into 0..=len) at which a checkpoint is triggered, ascending after mapping
    cuts: Vec<u16>,
    /// how many further inputs are fed after the last trigger before the crash (mapped into the rest)
    tail: u16,
    /// let all contexts become idle before each trigger (control: nothing in flight at the barrier)
    drain_before_cut: bool,
    seed: u64,
    intensity: u8,
}

fn strat(drain: bool, max_inputs: usize) -> impl Strategy<Value = Case> {
    let topo = Topo { max_streams: 5, fanout: false, local_derived: true, pure_ingress: true, seq_over_remote_transform: false };
    prog(topo).prop_flat_map(move |mut p| {
        // sliding count windows do not survive even a single-engine checkpoint (C19 domain): not used here
        for st in p.streams.iter_mut() {
            if let Op::SlideAgg { n, .. } = st.op {
                st.op = Op::CountAgg { n, partition: false };
                if !p.notes.contains(&"excluded:sliding-count-window(single-engine-restore-unfaithful)".to_string()) {
                    p.notes.push("excluded:sliding-count-window(single-engine-restore-unfaithful)".into());
                }
            }
        }
        let types = p.raw_types_used();
        (
            Just(p),
            events(types, max_inputs),
            proptest::collection::vec(any::<u16>(), 1..=2),
            any::<u16>(),
            any::<u64>(),
            prop_oneof![1 => Just(0u8), 2 => Just(1u8), 4 => Just(2u8), 3 => Just(3u8)],
        )
            .prop_map(move |(prog, inputs, cuts, tail, seed, intensity)| Case { prog, inputs, cuts, tail, drain_before_cut: drain, seed, intensity })
    })
}

const BUDGET: Duration = Duration::from_secs(180);

thread_local! {
    /// see C26: after a failure on this worker, every case gets several tries (schedule dependence)
    static RETRY: std::cell::Cell<bool> = const { std::cell::Cell::new(false) };
}
static EXECUTIONS: std::sync::atomic::AtomicU64 = std::sync::atomic::AtomicU64::new(0);

fn run(c: &Case) -> Outcome {
    let tries = if RETRY.with(|r| r.get()) { 4 } else { 1 };
    let mut last = run_once(c);
    for _ in 1..tries {
        if last.is_fail() {
            break;
        }
        last = run_once(c);
    }
    if last.is_fail() {
        RETRY.with(|r| r.set(true));
    }
    last
}

fn ctx_of_stream(p: &Prog) -> BTreeMap<String, String> {
    p.streams.iter().enumerate().map(|(i, s)| (sname(i), cname(s.ctx))).collect()
}

/// plain engine: process inputs[..cut], checkpoint, restore into a fresh engine, process the rest
fn single_engine_cut(plain: &str, inputs: &[Ev], cut: usize) -> Result<Vec<OutEv>, String> {
    let mut a = vh_gen::engine::Eng::new(plain)?;
    let mut outs = a.process_all(&inputs[..cut])?;
    let cp = a.engine.create_checkpoint();
    let mut b = vh_gen::engine::Eng::new(plain)?;
    b.engine.restore_checkpoint(&cp).map_err(|e| format!("restore: {}", e))?;
    outs.extend(b.process_all(&inputs[cut..])?);
    Ok(outs.iter().map(OutEv::from_event).collect())
}

fn run_once(c: &Case) -> Outcome {
    EXECUTIONS.fetch_add(1, std::sync::atomic::Ordering::Relaxed);
    let p = &c.prog;
    if p.cross_edges().is_empty() {
        return Outcome::discard("no cross-context derived stream");
    }
    let plain = p.render(false);
    let with_ctx = p.render(true);
    let want = match reference(&plain, &c.inputs) {
        Ok(w) => w,
        Err(e) => return Outcome::discard(format!("reference engine rejected program: {}", vh_common::truncate(&e, 80))),
    };
    let n = c.inputs.len();
    let ample = 2 * (n + want.len()) + 16;
    let mut cuts: Vec<usize> = c.cuts.iter().map(|x| idx::pick(*x, n + 1)).collect();
    cuts.sort();
    cuts.dedup();
    // Domain guard: the operators of this program must survive a *single-engine* checkpoint/restore at the
    // same input positions (that fidelity is C19/C20's subject, not the coordination across contexts).
    for cut in &cuts {
        match single_engine_cut(&plain, &c.inputs, *cut) {
            Ok(outs) => {
                if outs != want {
                    let mut kinds: Vec<&str> = p.streams.iter().map(|s| s.op.kind()).filter(|k| !matches!(*k, "pass" | "filter" | "shift")).collect();
                    kinds.sort();
                    kinds.dedup();
                    return Outcome::discard(format!("single-engine checkpoint/restore already changes the output (C19 domain): {}", kinds.join("+")));
                }
            }
            Err(e) => return Outcome::discard(format!("single-engine checkpoint/restore failed (C19 domain): {}", vh_common::truncate(&e, 60))),
        }
    }
    let last_cut = *cuts.last().unwrap_or(&0);
    let crash_at = last_cut + idx::pick(c.tail, n - last_cut + 1);

    // ---------------- run 1: until the crash
    let store: Arc<dyn StateStore> = Arc::new(MemoryStore::new());
    let mut r1 = match Run::start(&with_ctx, RunCfg { capacity: ample, seed: c.seed, intensity: c.intensity, store: Some(Arc::clone(&store)), recovery: None }) {
        Ok(r) => r,
        Err(e) => return Outcome::fail("orchestrator-build-failed", format!("{}\n{}", e, with_ctx)),
    };
    let routing = r1.routing.clone();
    let mut fed = 0usize;
    let mut busy_at_trigger = false;
    let mut completed = 0u64;
    let mut pending_cuts = cuts.clone();
    pending_cuts.reverse();
    loop {
        // trigger every cut that is due at this position
        while pending_cuts.last() == Some(&fed) {
            pending_cuts.pop();
            if c.drain_before_cut {
                match r1.wait_quiescent(BUDGET) {
                    Quiesce::Yes => {}
                    Quiesce::Panicked => {
                        let _ = r1.stop();
                        return Outcome::fail("context-thread-panic", with_ctx);
                    }
                    Quiesce::Timeout(_) => {
                        let _ = r1.stop();
                        return Outcome::discard("not quiescent within budget");
                    }
                }
            }
            if r1.session.pending() > 0 {
                busy_at_trigger = true;
            }
            r1.marker("trigger", fed as i64);
            r1.trigger_checkpoint();
            // a coordinator handles one checkpoint at a time: with a second cut pending, or at the crash
            // point, wait for this one; otherwise keep feeding while the barriers travel
            let must_wait = !pending_cuts.is_empty() || fed >= crash_at;
            if must_wait {
                match r1.wait_checkpoint(BUDGET) {
                    Ok(true) => completed += 1,
                    Ok(false) => {
                        let _ = r1.stop();
                        return Outcome::discard("checkpoint did not complete within budget");
                    }
                    Err(e) => {
                        let _ = r1.stop();
                        return Outcome::fail("checkpoint-error", format!("{}\n{}", e, with_ctx));
                    }
                }
            }
        }
        if fed >= crash_at {
            break;
        }
        if let Err(e) = r1.feed(&c.inputs[fed], false) {
            let _ = r1.stop();
            return Outcome::fail("ingress-send-failed", format!("input id {}: {}\n{}", c.inputs[fed].id(), e, with_ctx));
        }
        fed += 1;
    }
    // the last triggered checkpoint must be complete before the crash ("a crash after any completed checkpoint")
    if completed < cuts.len() as u64 {
        match r1.wait_checkpoint(BUDGET) {
            Ok(true) => {}
            Ok(false) => {
                let _ = r1.stop();
                return Outcome::discard("checkpoint did not complete within budget");
            }
            Err(e) => {
                let _ = r1.stop();
                return Outcome::fail("checkpoint-error", format!("{}\n{}", e, with_ctx));
            }
        }
    }
    r1.marker("crash", fed as i64);
    let (out1, trace1) = r1.stop();

    // ---------------- recovery
    let cp = match store.load_latest_checkpoint() {
        Ok(Some(cp)) => cp,
        Ok(None) => return Outcome::fail("completed-checkpoint-not-in-store", with_ctx),
        Err(e) => return Outcome::fail("completed-checkpoint-unreadable", format!("{}\n{}", e, with_ctx)),
    };
    let cp_id = cuts.len() as i64; // coordinator ids start at 1, one per trigger
    let ctx_of = ctx_of_stream(p);
    // contexts that read raw inputs, and how many of their inputs the snapshot covers
    let mut consumed: BTreeMap<String, u64> = BTreeMap::new();
    for (ty, ctx) in &routing {
        if TYPES.contains(&ty.as_str()) {
            let n = cp.context_states.get(ctx).map(|s| s.events_processed).unwrap_or(0);
            consumed.insert(ctx.clone(), n);
        }
    }
    let mut seen: BTreeMap<String, u64> = BTreeMap::new();
    let mut replay: Vec<&Ev> = vec![];
    for ev in &c.inputs {
        let Some(ctx) = routing.get(&ev.ty) else { continue };
        let k = seen.entry(ctx.clone()).or_insert(0);
        if *k >= *consumed.get(ctx).unwrap_or(&0) {
            replay.push(ev);
        }
        *k += 1;
    }
    for (ctx, n) in &consumed {
        if *n > *seen.get(ctx).unwrap_or(&0) {
            return Outcome::fail("checkpointed-events-processed-exceeds-inputs", format!("context {} snapshot says {} events, only {} inputs exist for it\n{}", ctx, n, seen.get(ctx).unwrap_or(&0), with_ctx));
        }
    }

    let mut r2 = match Run::start(&with_ctx, RunCfg { capacity: ample, seed: c.seed.rotate_left(13) ^ 0x5a5a, intensity: c.intensity, store: Some(Arc::clone(&store)), recovery: Some(cp.clone()) }) {
        Ok(r) => r,
        Err(e) => return Outcome::fail("orchestrator-rebuild-failed", format!("{}\n{}", e, with_ctx)),
    };
    for ev in &replay {
        if let Err(e) = r2.feed(ev, false) {
            let _ = r2.stop();
            return Outcome::fail("ingress-send-failed", format!("replayed input id {}: {}\n{}", ev.id(), e, with_ctx));
        }
    }
    match r2.wait_quiescent(BUDGET) {
        Quiesce::Yes => {}
        Quiesce::Panicked => {
            let _ = r2.stop();
            return Outcome::fail("context-thread-panic-after-restore", with_ctx);
        }
        Quiesce::Timeout(_) => {
            let _ = r2.stop();
            return Outcome::discard("not quiescent within budget");
        }
    }
    let (out2, _trace2) = r2.stop();

    // ---------------- what the trace says about the cut
    // per target context: cross-context events accepted by its queue before the sender's snapshot
    // minus events the target had consumed at its own snapshot
    let mut sent_before: BTreeMap<String, i64> = BTreeMap::new();
    let mut snap_seen: BTreeMap<String, bool> = BTreeMap::new();
    let mut recv_count: BTreeMap<String, i64> = BTreeMap::new();
    let mut recv_at_snapshot: BTreeMap<String, i64> = BTreeMap::new();
    let mut counter_at_snapshot: BTreeMap<String, i64> = BTreeMap::new();
    for r in &trace1 {
        match r.kind {
            "snapshot" if r.n == cp_id => {
                snap_seen.insert(r.ctx.clone(), true);
                recv_at_snapshot.insert(r.ctx.clone(), recv_count.get(&r.ctx).copied().unwrap_or(0));
                counter_at_snapshot.insert(r.ctx.clone(), r.m as i64);
            }
            "recv" => *recv_count.entry(r.ctx.clone()).or_insert(0) += 1,
            "xsend" if r.ok && !snap_seen.get(&r.ctx).copied().unwrap_or(false) => {
                *sent_before.entry(r.peer.clone()).or_insert(0) += 1;
            }
            _ => {}
        }
    }
    // the stored snapshot must describe the moment it was taken: its events_processed is the number of
    // events the context had dequeued (the replay rule and the cut analysis both rest on it)
    for (ctx, st) in &cp.context_states {
        let seen_by_trace = recv_at_snapshot.get(ctx).copied();
        if seen_by_trace != Some(st.events_processed as i64) || counter_at_snapshot.get(ctx).copied() != Some(st.events_processed as i64) {
            return Outcome::fail(
                "snapshot-events-processed-differs-from-events-consumed",
                format!(
                    "context {}: stored events_processed={}, events dequeued before its snapshot per H5 trace={:?}, counter at snapshot={:?}\n{}",
                    ctx,
                    st.events_processed,
                    seen_by_trace,
                    counter_at_snapshot.get(ctx),
                    with_ctx
                ),
            );
        }
    }
    let derived_ctxs: Vec<String> = p.used_ctxs().iter().map(|c| cname(*c)).filter(|cn| !consumed.contains_key(cn)).collect();
    let mut in_flight_lost = 0i64;
    let mut orphans = 0i64;
    for d in &derived_ctxs {
        let s = sent_before.get(d).copied().unwrap_or(0);
        let r = recv_at_snapshot.get(d).copied().unwrap_or(0);
        if s > r {
            in_flight_lost += s - r;
        } else if r > s {
            orphans += r - s;
        }
    }

    // ---------------- outputs
    let o1: Vec<OutEv> = out1.iter().map(OutEv::from_event).collect();
    let o2: Vec<OutEv> = out2.iter().map(OutEv::from_event).collect();
    // outputs of run 1 that precede the snapshot of the emitting context
    let mut budget: BTreeMap<String, u64> = cp.context_states.iter().map(|(k, v)| (k.clone(), v.output_events_emitted)).collect();
    let mut pre: Vec<OutEv> = vec![];
    for o in &o1 {
        let Some(ctx) = ctx_of.get(&o.ty) else {
            return Outcome::fail("output-of-unknown-stream", format!("{:?}\n{}", o, with_ctx));
        };
        if let Some(b) = budget.get_mut(ctx) {
            if *b > 0 {
                *b -= 1;
                pre.push(o.clone());
            }
        }
    }
    if let Some((ctx, left)) = budget.iter().find(|(_, b)| **b > 0) {
        return Outcome::fail(
            "snapshot-output-count-exceeds-outputs-seen",
            format!("context {}: snapshot counts {} more emitted events than reached the output channel\n{}", ctx, left, with_ctx),
        );
    }
    let mut combined = pre.clone();
    combined.extend(o2.iter().cloned());

    let head = |extra: String| -> String {
        format!(
            "inputs={} cuts={:?} crash_at={} drain_before_cut={} seed={} intensity={}\n{}\nsnapshot: {}\nreplayed {} inputs; cross-context events in flight at the cut (lost) {}, consumed-before-sent (duplicated) {}\n{}",
            n,
            cuts,
            crash_at,
            c.drain_before_cut,
            c.seed,
            c.intensity,
            with_ctx,
            cp.context_states.iter().map(|(k, v)| format!("{}: events_processed={} outputs={}", k, v.events_processed, v.output_events_emitted)).collect::<Vec<_>>().join("; "),
            replay.len(),
            in_flight_lost,
            orphans,
            extra
        )
    };

    let wm = by_stream(&want);
    let gm = by_stream(&combined);
    let mut names: Vec<&String> = wm.keys().chain(gm.keys()).collect();
    names.sort();
    names.dedup();
    let empty: Vec<OutEv> = vec![];
    let mut first_diff: Option<(String, Diff, String)> = None;
    for nme in names {
        let w = wm.get(nme).unwrap_or(&empty);
        let g = gm.get(nme).unwrap_or(&empty);
        if let Some(d) = diff_seq(w, g) {
            first_diff = Some((nme.clone(), d, format!("stream {}: uninterrupted run {} outputs {}\n pre-snapshot ++ recovered {} outputs {}", nme, w.len(), short_list(w, 14), g.len(), short_list(g, 14))));
            break;
        }
    }
    let classes = |mut o: Outcome| -> Outcome {
        o = o
            .class(format!("contexts={}", p.used_ctxs().len()))
            .class(format!("checkpoints={}", cuts.len()))
            .class_if(busy_at_trigger, "busy_at_trigger")
            .class_if(in_flight_lost > 0, "cross_events_in_flight_at_cut")
            .class_if(crash_at > last_cut, "inputs_fed_after_last_trigger")
            .class_if(!replay.is_empty(), "replayed_inputs")
            .class_if(replay.len() > n - crash_at, "replayed_inputs_fed_before_crash")
            .class_if(!pre.is_empty(), "outputs_before_snapshot")
            .class_if(p.cross_depth() >= 2, "three_stage_chain")
            .class_if(!p.local_edges().is_empty(), "has_same_context_derived")
            .class(format!("intensity={}", c.intensity));
        for (_, cons) in p.cross_edges() {
            o = o.class(format!("cross_consumer:{}", p.streams[cons].op.kind()));
        }
        for nt in &p.notes {
            o = o.class(nt.clone());
        }
        o
    };

    if in_flight_lost > 0 {
        let vis = first_diff.is_some();
        // the recorded finding needs work in progress at the trigger; after a full drain it is excluded by construction
        let sig = if c.drain_before_cut { "inconsistent-cut-although-drained-before-trigger:cross-context-events-lost" } else { "inconsistent-cut:in-flight-cross-context-events-lost" };
        return classes(Outcome::fail(
            sig,
            head(format!(
                "{} cross-context event(s) were sent before the sender's snapshot and not yet consumed at the receiver's snapshot: they are in neither snapshot and are not re-sent by the replay\n{}",
                in_flight_lost,
                first_diff.map(|d| d.2).unwrap_or_else(|| "(outputs happen to be equal)".into())
            )),
        ))
        .class_if(vis, "loss_visible_in_outputs")
        .class_if(!vis, "loss_masked_in_outputs");
    }
    if orphans > 0 {
        return classes(Outcome::fail(
            "inconsistent-cut:event-consumed-before-receiver-snapshot-but-sent-after-sender-snapshot",
            head(first_diff.map(|d| d.2).unwrap_or_else(|| "(outputs happen to be equal)".into())),
        ));
    }
    if let Some((_, d, text)) = first_diff {
        let sig = match d {
            Diff::Missing => "recovered-output-missing",
            Diff::Extra => "recovered-output-extra",
            Diff::Order => "recovered-output-order",
            Diff::Content => "recovered-output-different",
        };
        return classes(Outcome::fail(sig, head(text)));
    }
    let consumer_out = p.cross_edges().iter().any(|(_, cons)| wm.get(&sname(*cons)).is_some_and(|v| !v.is_empty()));
    let stateful_consumer = p.cross_edges().iter().any(|(_, cons)| p.streams[*cons].op.stateful());
    // non-trivial: the cut fell into running work (or, for the control, into real state) and the consumer matters
    let nt = consumer_out && stateful_consumer && (busy_at_trigger || (c.drain_before_cut && last_cut > 0 && last_cut < n));
    classes(Outcome::pass().nontrivial(nt))
}

fn main() {
    if std::env::var("VERIF_SHRINK_ITERS").is_err() {
        std::env::set_var("VERIF_SHRINK_ITERS", "200");
    }
    let check = Check::new("C27", "exploration");
    check.rule(
        "random programs of 2-5 streams over 2-3 contexts (each context reads either raw inputs or streams of other contexts; stateful \
         cross-context consumers: count/sliding/tumbling aggregates, sequences, distinct, limit), <=100 inputs, 1-2 trigger_checkpoint() calls at \
         random input positions, a crash (shutdown) 0..n inputs after the last trigger once it completed, recovery from the stored checkpoint and \
         replay of the inputs beyond each ingress context's checkpointed events_processed; real threads with seeded H5 schedule perturbation. \
         Oracle: per stream, outputs before the context's snapshot ++ outputs of the recovered run == outputs of an uninterrupted plain-engine run; \
         the H5 trace classifies a mismatch (events sent before the sender's snapshot but unconsumed at the receiver's). Sub-check quiescent_cut \
         drains all queues before each trigger (control: restore + replay machinery), inflight_cut triggers into running work. Non-trivial = stateful \
         cross-context consumer with output and (messages pending at the trigger | control cut strictly inside the input). Schedules are sampled, not enumerated.",
    );
    check.assume("plain single-threaded Engine run is the reference for 'uninterrupted'");
    check.assume("EngineCheckpoint.output_events_emitted of a context = number of its outputs that precede its snapshot on the output channel");
    check.assume("single-context checkpoint fidelity of each operator is C19/C20's subject; operators are used here as they are");
    check.assume("thread schedules are sampled (seeded perturbation on top of the OS scheduler), not model-checked");
    let max_inputs = 100;
    check.explore("quiescent_cut", move || strat(true, max_inputs), 70, 1200, run);
    check.explore("inflight_cut", move || strat(false, max_inputs), 70, 1300, run);
    check.extra("executions", serde_json::json!(EXECUTIONS.load(std::sync::atomic::Ordering::Relaxed)));
    check.finish();
}
