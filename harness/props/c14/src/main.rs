//! C14 Aggregates equal their mathematical definitions on every execution path.
//!
//! Paths: row (`AggregateFunc::apply(&[Event])`), shared (`apply_shared(&[Arc<Event>])`),
//! refs (`apply_refs(&[&Event])`), columnar (`apply_columnar(&mut ColumnarBuffer)` on a buffer
//! built with `from_events`, and on one built by `push` with a column cache populated on a
//! prefix), the `Aggregator` wrapper on the three paths (one shared column cache for
//! sum/avg/min/max) and the Engine (`.window(N).aggregate(..).emit(..)` from VPL text).
//!
//! Oracle (a) differential: every path returns the same result as the row path (exactly for
//! count/min/max/first/last/count_distinct, within 1e-9 of the input scale for
//! sum/avg/stddev/ema).  Oracle (b) definitions (docs/reference/windows-aggregations.md and
//! the rustdoc of aggregation.rs/simd.rs), only where they are unambiguous:
//!   count = number of events; sum = Σ numeric values (Int as f64; missing, non-numeric and —
//!   "filter out NaN before summing" — NaN skipped), 0.0 for none; avg = sum/n or null for none;
//!   min/max over the same values or null; stddev = sample standard deviation (n-1), null below
//!   2 values; first/last = the field value of the first/last event; count_distinct = number of
//!   distinct field values; ema: e_0 = x_0, e_i = x_i k + e_{i-1} (1-k), k = 2/(period+1), null
//!   for no value.
//! Where the documentation is silent only the differential is asserted: NaN or ±inf inside
//! stddev/ema, first/last when the first/last event lacks the field, count_distinct over values
//! whose equality is debatable (1 vs 1.0, 0.0 vs -0.0, NaN), magnitudes where squares or sums
//! overflow/underflow.
use proptest::prelude::*;
use serde::{Deserialize, Serialize};
use std::sync::Arc;
use varpulis_core::Value;
use varpulis_runtime::aggregation::{AggregateFunc, Aggregator, Avg, Count, CountDistinct, Ema, First, Last, Max, Min, StdDev, Sum};
use varpulis_runtime::columnar::ColumnarBuffer;
use varpulis_runtime::event::{Event, SharedEvent};
use vh_common::{Check, Outcome};
use vh_gen::engine::Eng;
use vh_gen::{Ev, V};

#[derive(Clone, Debug, Serialize, Deserialize)]
struct Case {
    /// ema period
    period: u8,
    /// aggregate over the default field ("value", passed as `None`) instead of "x"
    default_field: bool,
    /// for the incrementally built columnar buffer: where the column cache is populated first
    split: u8,
    /// field value of each event (None = field missing)
    xs: Vec<Option<V>>,
}

const FUNCS: [&str; 10] = ["count", "sum", "avg", "min", "max", "stddev", "first", "last", "count_distinct", "ema"];

fn func(name: &str, period: u8) -> Box<dyn AggregateFunc> {
    match name {
        "count" => Box::new(Count),
        "sum" => Box::new(Sum),
        "avg" => Box::new(Avg),
        "min" => Box::new(Min),
        "max" => Box::new(Max),
        "stddev" => Box::new(StdDev),
        "first" => Box::new(First),
        "last" => Box::new(Last),
        "count_distinct" => Box::new(CountDistinct),
        _ => Box::new(Ema::new(period as usize)),
    }
}

fn exact_func(name: &str) -> bool {
    matches!(name, "count" | "min" | "max" | "first" | "last" | "count_distinct")
}

// --------------------------------------------------------------- generator

fn clean_float() -> impl Strategy<Value = V> {
    prop_oneof![
        4 => (-40i32..80).prop_map(|i| V::f(i as f64 * 0.25)),
        2 => (-1000i32..1000, 0u8..4).prop_map(|(i, s)| V::f(i as f64 * [1.0, 0.001, 1e3, 1e6][s as usize])),
        1 => Just(V::f(0.0)),
        1 => Just(V::f(-0.0)),
    ]
}

fn numeric() -> impl Strategy<Value = V> {
    prop_oneof![4 => clean_float(), 2 => (-20i64..50).prop_map(V::Int), 1 => vh_gen::any_int().prop_map(V::Int), 1 => vh_gen::finite_float().prop_map(V::f)]
}

fn junk() -> impl Strategy<Value = V> {
    prop_oneof![
        2 => proptest::sample::select(vec!["", "a", "b", "1.5", "7", "NaN"]).prop_map(V::s),
        1 => any::<bool>().prop_map(V::Bool),
        1 => Just(V::Null),
    ]
}

/// element strategy for one batch profile
fn element(profile: u8) -> BoxedStrategy<Option<V>> {
    let nan = Just(Some(V::f(f64::NAN)));
    match profile {
        // all valid clean floats (long SIMD runs)
        0 => clean_float().prop_map(Some).boxed(),
        // valid ints and floats
        1 => numeric().prop_map(Some).boxed(),
        // numeric with NaN
        2 => prop_oneof![5 => numeric().prop_map(Some), 2 => nan].boxed(),
        // numeric with missing
        3 => prop_oneof![5 => numeric().prop_map(Some), 2 => Just(None)].boxed(),
        // numeric with NaN, missing, strings/bools/null
        4 => prop_oneof![6 => numeric().prop_map(Some), 1 => nan, 1 => Just(None), 1 => junk().prop_map(Some)].boxed(),
        // everything incl. ±inf and boundary floats
        5 => prop_oneof![
            4 => numeric().prop_map(Some),
            1 => nan,
            1 => Just(None),
            1 => junk().prop_map(Some),
            1 => prop_oneof![Just(f64::INFINITY), Just(f64::NEG_INFINITY)].prop_map(|f| Some(V::f(f))),
            1 => vh_gen::any_float().prop_map(|f| Some(V::f(f))),
        ]
        .boxed(),
        // mostly invalid (few or no valid values)
        6 => prop_oneof![1 => numeric().prop_map(Some), 2 => nan, 2 => Just(None), 2 => junk().prop_map(Some)].boxed(),
        // few distinct values, strings and ints (count_distinct / first / last)
        _ => prop_oneof![3 => (0i64..4).prop_map(|i| Some(V::Int(i))), 3 => proptest::sample::select(vec!["a", "b", "c"]).prop_map(|s| Some(V::s(s))), 1 => Just(None), 1 => (0i32..3).prop_map(|i| Some(V::f(i as f64 + 0.5)))].boxed(),
    }
}

/// lengths concentrated around multiples of 4 ± 1
fn length() -> impl Strategy<Value = usize> {
    prop_oneof![
        6 => (0usize..=17, 0usize..3).prop_map(|(m, o)| (m * 4 + o).saturating_sub(1)),
        2 => 0usize..=70,
        1 => 0usize..=3,
    ]
}

fn strat() -> impl Strategy<Value = Case> {
    (0u8..8, length(), 1u8..=20, prop::bool::weighted(0.2), any::<u8>()).prop_flat_map(|(profile, len, period, default_field, split)| {
        proptest::collection::vec(element(profile), len..=len).prop_map(move |xs| Case { period, default_field, split, xs })
    })
}

fn strat_engine() -> impl Strategy<Value = Case> {
    (0u8..8, length(), 1u8..=20, any::<u8>()).prop_flat_map(|(profile, len, period, split)| {
        let len = len.max(1);
        proptest::collection::vec(element(profile), len..=len).prop_map(move |xs| Case { period, default_field: false, split, xs })
    })
}

// --------------------------------------------------------------- reference definitions

#[derive(Clone, Debug)]
enum Ref {
    /// the definition fixes the value
    Null,
    Int(i64),
    /// float with absolute tolerance
    Float(f64, f64),
    /// any value compared structurally (first/last)
    Val(V),
    /// documentation silent / numerically outside the judged range: differential only
    Unjudged(&'static str),
}

struct Facts {
    numeric: Vec<f64>, // as_float of every Int/Float value, NaN included, event order
    valid: Vec<f64>,   // numeric without NaN
    n_nan: usize,
    n_missing: usize,
    n_junk: usize,
    has_inf: bool,
    abs_sum: f64,
    max_abs: f64,
    min_abs_nonzero: f64,
}

fn facts(xs: &[Option<V>]) -> Facts {
    let mut f = Facts { numeric: vec![], valid: vec![], n_nan: 0, n_missing: 0, n_junk: 0, has_inf: false, abs_sum: 0.0, max_abs: 0.0, min_abs_nonzero: f64::INFINITY };
    for x in xs {
        match x {
            None => f.n_missing += 1,
            Some(V::Int(i)) => f.numeric.push(*i as f64),
            Some(V::Float(v)) => f.numeric.push(v.0),
            Some(_) => f.n_junk += 1,
        }
    }
    for &v in &f.numeric {
        if v.is_nan() {
            f.n_nan += 1;
            continue;
        }
        f.valid.push(v);
        if v.is_infinite() {
            f.has_inf = true;
        } else {
            f.abs_sum += v.abs();
            f.max_abs = f.max_abs.max(v.abs());
            if v != 0.0 {
                f.min_abs_nonzero = f.min_abs_nonzero.min(v.abs());
            }
        }
    }
    f
}

/// Neumaier compensated sum of finite values
fn csum(vs: impl Iterator<Item = f64>) -> f64 {
    let (mut s, mut c) = (0.0f64, 0.0f64);
    for v in vs {
        let t = s + v;
        if s.abs() >= v.abs() {
            c += (s - t) + v;
        } else {
            c += (v - t) + s;
        }
        s = t;
    }
    s + c
}

const REL: f64 = 1e-9;

fn reference(name: &str, case: &Case, f: &Facts) -> Ref {
    let xs = &case.xs;
    match name {
        "count" => Ref::Int(xs.len() as i64),
        "sum" | "avg" => {
            if name == "avg" && f.valid.is_empty() {
                return Ref::Null;
            }
            if !f.abs_sum.is_finite() || f.abs_sum > 1e300 {
                return Ref::Unjudged("sum_overflow_range");
            }
            let n = f.valid.len() as f64;
            let div = if name == "avg" { n } else { 1.0 };
            if f.has_inf {
                let pos = f.valid.iter().any(|v| *v == f64::INFINITY);
                let neg = f.valid.iter().any(|v| *v == f64::NEG_INFINITY);
                let v = if pos && neg { f64::NAN } else if pos { f64::INFINITY } else { f64::NEG_INFINITY };
                return Ref::Float(v, 0.0);
            }
            let s = csum(f.valid.iter().cloned());
            Ref::Float(s / div, REL * f.abs_sum / div)
        }
        "min" | "max" => {
            if f.valid.is_empty() {
                return Ref::Null;
            }
            let mut m = f.valid[0];
            for &v in &f.valid {
                if (name == "min" && v < m) || (name == "max" && v > m) {
                    m = v;
                }
            }
            Ref::Float(m, 0.0)
        }
        "stddev" => {
            if f.n_nan > 0 {
                return Ref::Unjudged("stddev_with_nan");
            }
            if f.has_inf {
                return Ref::Unjudged("stddev_with_inf");
            }
            if f.valid.len() < 2 {
                return Ref::Null;
            }
            if f.max_abs > 1e100 || f.min_abs_nonzero < 1e-100 {
                return Ref::Unjudged("stddev_square_overflow_range");
            }
            let n = f.valid.len() as f64;
            let mean = csum(f.valid.iter().cloned()) / n;
            let m2 = csum(f.valid.iter().map(|v| (v - mean) * (v - mean)));
            Ref::Float((m2 / (n - 1.0)).sqrt(), REL * f.max_abs)
        }
        "first" | "last" => {
            let e = if name == "first" { xs.first() } else { xs.last() };
            match e {
                None => Ref::Null,
                Some(Some(v)) => Ref::Val(v.clone()),
                // "first value in the window": the first event has none — statement/doc do not say
                // whether later events are searched
                Some(None) => {
                    if xs.iter().all(|x| x.is_none()) {
                        Ref::Null
                    } else {
                        Ref::Unjudged("first_last_event_lacks_field")
                    }
                }
            }
        }
        "count_distinct" => {
            let present: Vec<&V> = xs.iter().flatten().collect();
            // equality debatable: NaN, signed zeros, int vs float of the same number
            let mut canon: Vec<String> = vec![];
            let mut numeric_keys: Vec<(f64, bool)> = vec![];
            for v in &present {
                match v {
                    V::Float(x) if x.0.is_nan() => return Ref::Unjudged("count_distinct_nan"),
                    V::Float(x) => numeric_keys.push((x.0, true)),
                    V::Int(i) => numeric_keys.push((*i as f64, false)),
                    _ => {}
                }
                canon.push(v.canon());
            }
            for (a, fa) in &numeric_keys {
                for (b, fb) in &numeric_keys {
                    if a == b && (fa != fb || (a.to_bits() != b.to_bits())) {
                        return Ref::Unjudged("count_distinct_numeric_alias");
                    }
                }
            }
            // two different i64 that collapse to the same f64 are still distinct ints: handled by canon
            canon.sort();
            canon.dedup();
            Ref::Int(canon.len() as i64)
        }
        _ => {
            // ema
            if f.n_nan > 0 {
                return Ref::Unjudged("ema_with_nan");
            }
            if f.has_inf {
                return Ref::Unjudged("ema_with_inf");
            }
            if f.valid.is_empty() {
                return Ref::Null;
            }
            if f.max_abs > 1e300 {
                return Ref::Unjudged("ema_overflow_range");
            }
            let k = 2.0 / (case.period as f64 + 1.0);
            let mut e = f.valid[0];
            for &v in &f.valid[1..] {
                e = v * k + e * (1.0 - k);
            }
            Ref::Float(e, REL * f.max_abs)
        }
    }
}

/// how two paths are compared for one aggregate
#[derive(Clone, Copy, Debug)]
enum Tol {
    /// absolute tolerance (0.0 = numerically equal)
    Abs(f64),
    /// inputs contain NaN/±inf where the documentation is silent: both paths must agree on
    /// NaN-ness and on infinities, finite values within a loose bound
    NonFinite,
    /// magnitudes where overflow/underflow is order dependent: kind (null/number) only
    KindOnly,
}

fn diff_tol(name: &str, f: &Facts) -> Tol {
    let sum_ok = f.abs_sum.is_finite() && f.abs_sum <= 1e300;
    match name {
        "sum" => {
            if sum_ok {
                Tol::Abs(REL * f.abs_sum)
            } else {
                Tol::KindOnly
            }
        }
        "avg" => {
            if sum_ok && !f.valid.is_empty() {
                Tol::Abs(REL * f.abs_sum / f.valid.len() as f64)
            } else if f.valid.is_empty() {
                Tol::Abs(0.0)
            } else {
                Tol::KindOnly
            }
        }
        "stddev" => {
            if f.max_abs > 1e100 || f.min_abs_nonzero < 1e-100 {
                Tol::KindOnly
            } else if f.n_nan > 0 || f.has_inf {
                Tol::NonFinite
            } else {
                Tol::Abs(REL * f.max_abs)
            }
        }
        "ema" => {
            if f.max_abs > 1e300 {
                Tol::KindOnly
            } else if f.n_nan > 0 || f.has_inf {
                Tol::NonFinite
            } else {
                Tol::Abs(REL * f.max_abs)
            }
        }
        _ => Tol::Abs(0.0),
    }
}

fn float_close(a: f64, b: f64, tol: f64) -> bool {
    if a.is_nan() || b.is_nan() {
        return a.is_nan() && b.is_nan();
    }
    if a == b {
        return true; // also inf == inf, 0.0 == -0.0
    }
    (a - b).abs() <= tol
}

/// Compare two results of the same aggregate coming from different paths.
fn same_result(name: &str, a: &Value, b: &Value, tol: Tol) -> bool {
    match (a, b) {
        (Value::Float(x), Value::Float(y)) => match tol {
            Tol::Abs(t) => float_close(*x, *y, t),
            Tol::NonFinite => {
                if x.is_finite() && y.is_finite() {
                    float_close(*x, *y, REL * x.abs().max(y.abs()))
                } else {
                    float_close(*x, *y, 0.0)
                }
            }
            Tol::KindOnly => true,
        },
        (Value::Null, Value::Null) => true,
        (Value::Int(x), Value::Int(y)) => x == y,
        _ => {
            if exact_func(name) {
                V::from_value(a).canon() == V::from_value(b).canon()
            } else {
                false
            }
        }
    }
}

fn matches_ref(r: &Ref, got: &Value) -> bool {
    match (r, got) {
        (Ref::Unjudged(_), _) => true,
        (Ref::Null, Value::Null) => true,
        (Ref::Int(a), Value::Int(b)) => a == b,
        (Ref::Float(a, tol), Value::Float(b)) => float_close(*a, *b, *tol),
        (Ref::Val(v), g) => {
            let gv = V::from_value(g);
            match (v, &gv) {
                (V::Float(a), V::Float(b)) => float_close(a.0, b.0, 0.0),
                _ => v.canon() == gv.canon(),
            }
        }
        _ => false,
    }
}

// --------------------------------------------------------------- execution

fn field_name(case: &Case) -> &'static str {
    if case.default_field {
        "value"
    } else {
        "x"
    }
}

fn events(case: &Case) -> Vec<Event> {
    case.xs
        .iter()
        .enumerate()
        .map(|(i, x)| {
            let mut e = Ev::new("E", i as i64).with("id", V::Int(100 + i as i64));
            if let Some(v) = x {
                e = e.with(field_name(case), v.clone());
            }
            e.to_event()
        })
        .collect()
}

fn classes(mut o: Outcome, case: &Case, f: &Facts, unjudged: &[&'static str]) -> Outcome {
    let n = case.xs.len();
    let nt = n >= 5 && (f.n_nan + f.n_missing + f.n_junk) >= 1 && !f.valid.is_empty();
    o = o
        .nontrivial(nt)
        .class(format!("len%4={}", n % 4))
        .class(format!("valid%4={}", f.valid.len() % 4))
        .class_if(n == 0, "empty_batch")
        .class_if(n >= 5 && f.valid.len() == n, "all_valid_len>=5")
        .class_if(f.valid.len() >= 8, "valid>=8(simd+unrolled)")
        .class_if(f.n_nan > 0, "has_nan")
        .class_if(f.n_missing > 0, "has_missing")
        .class_if(f.n_junk > 0, "has_non_numeric")
        .class_if(f.has_inf, "has_inf")
        .class_if(f.valid.is_empty() && n > 0, "no_valid_value")
        .class_if(case.xs.iter().flatten().any(|v| matches!(v, V::Int(_))), "has_int")
        .class_if(case.default_field, "default_field");
    let mut u: Vec<&str> = unjudged.to_vec();
    u.sort();
    u.dedup();
    for c in u {
        o = o.class(format!("differential_only:{}", c));
    }
    o
}

fn run_paths(case: &Case) -> Outcome {
    let evs = events(case);
    let shared: Vec<SharedEvent> = evs.iter().cloned().map(Arc::new).collect();
    let refs: Vec<&Event> = evs.iter().collect();
    let fname = field_name(case);
    let farg: Option<&str> = if case.default_field { None } else { Some("x") };
    let f = facts(&case.xs);
    let mut unjudged = vec![];

    // columnar buffers: (1) from_events, (2) pushed one by one with the cache populated on a prefix
    let mut col_a = ColumnarBuffer::from_events(shared.clone());
    let mut col_b = ColumnarBuffer::new();
    let split = if shared.is_empty() { 0 } else { case.split as usize % (shared.len() + 1) };
    for (i, e) in shared.iter().enumerate() {
        if i == split {
            let _ = col_b.ensure_float_column(fname).len();
        }
        col_b.push(Arc::clone(e));
    }
    if col_b.ensure_float_column(fname).len() != shared.len() {
        return Outcome::fail("columnar:stale-column-after-push", format!("column has {} entries for {} events | {:?}", col_b.ensure_float_column(fname).len(), shared.len(), case));
    }

    // the Aggregator wrapper: all functions over the same field, in one go
    let mut aggr = Aggregator::new();
    for name in FUNCS {
        aggr = aggr.add(name, func(name, case.period), farg.map(|s| s.to_string()));
    }
    let ag_row = aggr.apply(&evs);
    let ag_shared = aggr.apply_shared(&shared);
    let mut col_c = ColumnarBuffer::from_events(shared.clone());
    let ag_col = aggr.apply_columnar(&mut col_c);

    for name in FUNCS {
        let fun = func(name, case.period);
        let row = fun.apply(&evs, farg);
        let results: Vec<(&str, Value)> = vec![
            ("shared", fun.apply_shared(&shared, farg)),
            ("refs", fun.apply_refs(&refs, farg)),
            ("columnar", fun.apply_columnar(&mut col_a, farg)),
            ("columnar-incremental", fun.apply_columnar(&mut col_b, farg)),
            ("aggregator-row", ag_row.get(name).cloned().unwrap_or(Value::Str("<absent>".into()))),
            ("aggregator-shared", ag_shared.get(name).cloned().unwrap_or(Value::Str("<absent>".into()))),
            ("aggregator-columnar", ag_col.get(name).cloned().unwrap_or(Value::Str("<absent>".into()))),
        ];
        let r = reference(name, case, &f);
        if let Ref::Unjudged(why) = &r {
            unjudged.push(*why);
        }
        if !matches_ref(&r, &row) {
            return Outcome::fail(format!("{}:row:differs-from-definition", name), format!("got {:?} expected {:?} | {:?}", row, r, case));
        }
        let tol = diff_tol(name, &f);
        for (path, v) in &results {
            if !same_result(name, &row, v, tol) {
                return Outcome::fail(format!("{}:{}:differs-from-row-path", name, path), format!("row {:?} vs {} {:?} ({:?}) | {:?}", row, path, v, tol, case));
            }
            if !matches_ref(&r, v) {
                return Outcome::fail(format!("{}:{}:differs-from-definition", name, path), format!("got {:?} expected {:?} | {:?}", v, r, case));
            }
        }
    }
    classes(Outcome::pass(), case, &f, &unjudged)
}

fn vpl(case: &Case) -> String {
    format!(
        "stream S = E\n    .window({})\n    .aggregate(r_count: count(), r_sum: sum(x), r_avg: avg(x), r_min: min(x), r_max: max(x), r_stddev: stddev(x), r_first: first(x), r_last: last(x), r_count_distinct: count_distinct(x), r_cd2: count(distinct(x)), r_ema: ema(x, {}))\n    .emit(r_count: r_count, r_sum: r_sum, r_avg: r_avg, r_min: r_min, r_max: r_max, r_stddev: r_stddev, r_first: r_first, r_last: r_last, r_count_distinct: r_count_distinct, r_cd2: r_cd2, r_ema: r_ema)\n",
        case.xs.len(),
        case.period
    )
}

fn run_engine(case: &Case) -> Outcome {
    let src = vpl(case);
    let mut eng = match Eng::new(&src) {
        Ok(e) => e,
        Err(e) => return Outcome::discard(format!("program rejected: {}", vh_common::truncate(&e, 80))),
    };
    let evs = events(case);
    let f = facts(&case.xs);
    let mut outs = vec![];
    for e in &evs {
        match eng.process_event(e.clone()) {
            Ok(o) => outs.extend(o),
            Err(e) => return Outcome::fail("engine:process-error", e),
        }
    }
    if outs.len() != 1 {
        return Outcome::fail("engine:window-output-count", format!("{} outputs for one full count window | {} | {:?}", outs.len(), src, case));
    }
    let out = &outs[0];
    let mut unjudged = vec![];
    for name in FUNCS.iter().cloned().chain(std::iter::once("cd2")) {
        let fname = if name == "cd2" { "count_distinct" } else { name };
        let Some(got) = out.get(&format!("r_{}", name)) else {
            return Outcome::fail(format!("engine:{}:absent", name), format!("{:?} | {}", out, src));
        };
        let r = reference(fname, case, &f);
        if let Ref::Unjudged(why) = &r {
            unjudged.push(*why);
        }
        if !matches_ref(&r, got) {
            return Outcome::fail(format!("{}:engine:differs-from-definition", fname), format!("got {:?} expected {:?} | {:?}", got, r, case));
        }
        let row = func(fname, case.period).apply(&evs, Some("x"));
        if !same_result(fname, &row, got, diff_tol(fname, &f)) {
            return Outcome::fail(format!("{}:engine:differs-from-row-path", fname), format!("row {:?} vs engine {:?} | {} | {:?}", row, got, src, case));
        }
    }
    classes(Outcome::pass(), case, &f, &unjudged).class("api:engine")
}

fn main() {
    let check = Check::new("C14", "exploration");
    check.rule(
        "batches of 0-70 events (length = 4m-1, 4m, 4m+1 in 2/3 of cases) whose field is drawn per batch from one of 8 profiles: all clean floats, ints+floats, with NaN, with missing, \
         with NaN+missing+strings/bools/null, everything incl. ±inf and boundary floats (1e300, 2^53, MIN_POSITIVE ..), mostly invalid, few distinct ints/strings; ema period 1-20; named field or default field. \
         Each of count,sum,avg,min,max,stddev,first,last,count_distinct,ema is evaluated on the row, shared, refs, columnar (from_events and push-built with a warm column cache), Aggregator (x3) and Engine paths; \
         oracle = differential against the row path + reference definitions (Neumaier sums, two-pass sample stddev, EMA recurrence) where documented. \
         non-trivial = length >= 5 with >=1 NaN/missing/non-numeric entry and >=1 valid value",
    );
    check.assume("tolerance for sum/avg is 1e-9 x sum|x| (/n), for stddev/ema 1e-9 x max|x|; min/max compare numerically (0.0 == -0.0)");
    check.assume("NaN/±inf inside stddev/ema, first/last when the first/last event lacks the field, count_distinct over NaN / 1 vs 1.0 / ±0, |x| outside [1e-100,1e100] (stddev) or sums above 1e300: differential only (counted as differential_only:*)");
    check.explore("paths", strat, 40_000, 1_000_000, run_paths);
    check.explore("engine", strat_engine, 6_000, 120_000, run_engine);
    check.finish();
}
