//! Shared by C26 and C27 (C27 includes this file by path): a small model of programs whose
//! streams are spread over named contexts, rendered with and without the context
//! annotations, and a driver around the real `ContextOrchestrator` (real threads) that uses
//! hook H5 (schedule perturbation, message accounting, trace) for timing-free quiescence.
#![allow(dead_code)]

use proptest::prelude::*;
use serde::{Deserialize, Serialize};
use std::collections::BTreeMap;
use std::sync::Arc;
use std::time::{Duration, Instant};
use tokio::sync::mpsc;
use varpulis_runtime::event::Event;
use varpulis_runtime::persistence::{Checkpoint, CheckpointConfig, StateStore};
use varpulis_runtime::verif_hooks::{self as vh, H5Rec, H5Session};
use varpulis_runtime::{ContextOrchestrator, DispatchError};
use vh_common::idx;
use vh_gen::engine::Eng;
use vh_gen::{Ev, OutEv, V};

pub const TYPES: [&str; 3] = ["A", "B", "C"];

// ------------------------------------------------------------------ program model

#[derive(Clone, Copy, Debug, PartialEq, Eq, Serialize, Deserialize)]
pub enum Cmp {
    Lt,
    Le,
    Gt,
    Ge,
    Eq,
    Ne,
}

impl Cmp {
    pub fn text(&self) -> &'static str {
        match self {
            Cmp::Lt => "<",
            Cmp::Le => "<=",
            Cmp::Gt => ">",
            Cmp::Ge => ">=",
            Cmp::Eq => "==",
            Cmp::Ne => "!=",
        }
    }
}

#[derive(Clone, Debug, PartialEq, Serialize, Deserialize)]
pub enum Src {
    /// raw input event type (index into TYPES)
    Raw(usize),
    /// an earlier stream (all streams emit the fields id, k, v)
    Stream(usize),
}

#[derive(Clone, Debug, PartialEq, Serialize, Deserialize)]
pub enum Op {
    /// `.emit(id: id, k: k, v: v)`
    Pass,
    /// `.where(v cmp c)` + pass
    Filter(Cmp, i64),
    /// `.emit(id: id, k: k, v: v + 1)`
    Shift,
    /// `[.partition_by(k)].window(n).aggregate(..).emit(id: last id, k: count, v: sum)`
    CountAgg { n: u32, partition: bool },
    /// `.window(n, sliding: m)` + same aggregate
    SlideAgg { n: u32, m: u32 },
    /// `.window(<secs>s)` tumbling on event time + same aggregate
    Tumble { secs: u32 },
    /// `X as a -> X where v > a.v as b` `.emit(id: b.id, k: a.id, v: a.v + b.v)`
    SeqPair,
    /// `.distinct(v)` + pass
    Distinct,
    /// `.limit(n)` + pass
    Limit(u32),
}

impl Op {
    pub fn kind(&self) -> &'static str {
        match self {
            Op::Pass => "pass",
            Op::Filter(..) => "filter",
            Op::Shift => "shift",
            Op::CountAgg { partition: false, .. } => "count_agg",
            Op::CountAgg { partition: true, .. } => "count_agg_part",
            Op::SlideAgg { .. } => "slide_agg",
            Op::Tumble { .. } => "tumble_agg",
            Op::SeqPair => "seq_pair",
            Op::Distinct => "distinct",
            Op::Limit(_) => "limit",
        }
    }
    pub fn stateful(&self) -> bool {
        !matches!(self, Op::Pass | Op::Filter(..) | Op::Shift)
    }
    /// output events carry the timestamp of an input event (emit copies it)
    pub fn keeps_event_time(&self) -> bool {
        matches!(self, Op::Pass | Op::Filter(..) | Op::Shift | Op::Distinct | Op::Limit(_))
    }
}

#[derive(Clone, Debug, PartialEq, Serialize, Deserialize)]
pub struct StreamDef {
    pub ctx: usize,
    pub src: Src,
    pub op: Op,
    /// write the emit as `.emit(context: <ctx of the consumer>, ...)` when there is a consumer elsewhere
    pub emit_ctx: bool,
}

#[derive(Clone, Debug, PartialEq, Serialize, Deserialize)]
pub struct Prog {
    pub n_ctx: usize,
    pub streams: Vec<StreamDef>,
    /// which exclusion rules of the generator changed this program (evidence: `excluded:...` classes)
    #[serde(default)]
    pub notes: Vec<String>,
}

pub fn sname(i: usize) -> String {
    format!("S{}", i + 1)
}
pub fn cname(i: usize) -> String {
    format!("c{}", i + 1)
}

impl Prog {
    fn src_text(&self, s: &Src) -> String {
        match s {
            Src::Raw(t) => TYPES[*t].to_string(),
            Src::Stream(j) => sname(*j),
        }
    }

    /// context of the (first) consumer of stream `i` that lives in another context
    pub fn remote_consumer_ctx(&self, i: usize) -> Option<usize> {
        self.streams.iter().find(|s| s.src == Src::Stream(i) && s.ctx != self.streams[i].ctx).map(|s| s.ctx)
    }

    pub fn render_stream(&self, i: usize, with_ctx: bool) -> String {
        let st = &self.streams[i];
        let name = sname(i);
        let src = self.src_text(&st.src);
        let ctx_line = if with_ctx { format!("    .context({})\n", cname(st.ctx)) } else { String::new() };
        let emit_prefix = match (with_ctx && st.emit_ctx, self.remote_consumer_ctx(i)) {
            (true, Some(c)) => format!("context: {}, ", cname(c)),
            _ => String::new(),
        };
        let agg = "    .aggregate(cnt: count(), sm: sum(v), fi: first(id), la: last(id))\n";
        let pass = format!("    .emit({}id: id, k: k, v: v)\n", emit_prefix);
        let agg_emit = format!("    .emit({}id: la, k: cnt, v: sm)\n", emit_prefix);
        match &st.op {
            Op::Pass => format!("stream {} = {}\n{}{}", name, src, ctx_line, pass),
            Op::Filter(c, k) => {
                let lit = if *k < 0 { format!("({})", k) } else { k.to_string() };
                format!("stream {} = {}\n{}    .where(v {} {})\n{}", name, src, ctx_line, c.text(), lit, pass)
            }
            Op::Shift => format!("stream {} = {}\n{}    .emit({}id: id, k: k, v: v + 1)\n", name, src, ctx_line, emit_prefix),
            Op::CountAgg { n, partition } => format!(
                "stream {} = {}\n{}{}    .window({})\n{}{}",
                name,
                src,
                ctx_line,
                if *partition { "    .partition_by(k)\n" } else { "" },
                n,
                agg,
                agg_emit
            ),
            Op::SlideAgg { n, m } => format!("stream {} = {}\n{}    .window({}, sliding: {})\n{}{}", name, src, ctx_line, n, m, agg, agg_emit),
            Op::Tumble { secs } => format!("stream {} = {}\n{}    .window({}s)\n{}{}", name, src, ctx_line, secs, agg, agg_emit),
            Op::SeqPair => format!(
                "stream {} = {} as a\n    -> {} where v > a.v as b\n{}    .emit({}id: b.id, k: a.id, v: a.v + b.v)\n",
                name, src, src, ctx_line, emit_prefix
            ),
            Op::Distinct => format!("stream {} = {}\n{}    .distinct(v)\n{}", name, src, ctx_line, pass),
            Op::Limit(n) => format!("stream {} = {}\n{}    .limit({})\n{}", name, src, ctx_line, n, pass),
        }
    }

    /// VPL text; `with_ctx = false` is "the same program without contexts".
    pub fn render(&self, with_ctx: bool) -> String {
        let mut s = String::new();
        if with_ctx {
            for c in 0..self.n_ctx {
                s.push_str(&format!("context {}\n", cname(c)));
            }
            s.push('\n');
        }
        for i in 0..self.streams.len() {
            s.push_str(&self.render_stream(i, with_ctx));
            s.push('\n');
        }
        s
    }

    /// (producer stream, consumer stream) pairs living in different contexts
    pub fn cross_edges(&self) -> Vec<(usize, usize)> {
        let mut v = vec![];
        for (i, s) in self.streams.iter().enumerate() {
            if let Src::Stream(j) = s.src {
                if self.streams[j].ctx != s.ctx {
                    v.push((j, i));
                }
            }
        }
        v
    }
    /// derived edges inside one context
    pub fn local_edges(&self) -> Vec<(usize, usize)> {
        let mut v = vec![];
        for (i, s) in self.streams.iter().enumerate() {
            if let Src::Stream(j) = s.src {
                if self.streams[j].ctx == s.ctx {
                    v.push((j, i));
                }
            }
        }
        v
    }
    /// sources (raw type or stream) that are consumed by streams of more than one context
    pub fn fanout_sources(&self) -> Vec<Src> {
        let mut m: Vec<(Src, Vec<usize>)> = vec![];
        for s in &self.streams {
            match m.iter_mut().find(|(k, _)| *k == s.src) {
                Some((_, v)) => {
                    if !v.contains(&s.ctx) {
                        v.push(s.ctx)
                    }
                }
                None => m.push((s.src.clone(), vec![s.ctx])),
            }
        }
        m.into_iter().filter(|(_, v)| v.len() > 1).map(|(k, _)| k).collect()
    }
    pub fn used_ctxs(&self) -> Vec<usize> {
        let mut v: Vec<usize> = self.streams.iter().map(|s| s.ctx).collect();
        v.sort();
        v.dedup();
        v
    }
    pub fn raw_types_used(&self) -> Vec<usize> {
        let mut v: Vec<usize> = self.streams.iter().filter_map(|s| if let Src::Raw(t) = s.src { Some(t) } else { None }).collect();
        v.sort();
        v.dedup();
        v
    }
    /// does the chain from the raw input down to (and including) stream `i` keep event time?
    pub fn keeps_event_time(&self, src: &Src) -> bool {
        match src {
            Src::Raw(_) => true,
            Src::Stream(j) => self.streams[*j].op.keeps_event_time() && self.keeps_event_time(&self.streams[*j].src),
        }
    }
    /// A plain engine resolves a sequence over a stream it knows to that stream's *source* type plus
    /// its first `.where`; that equals consuming the stream's emitted events only for pass/filter streams.
    /// (A filter only counts when `v` is still an integer there: on the float sums of an aggregate the
    /// stream `.where` and the sequence predicate disagree about `==`/`!=` with an integer literal, which is
    /// C09's recorded divergence and not a matter of contexts.)
    pub fn view_equivalent(&self, j: usize) -> bool {
        match self.streams[j].op {
            Op::Pass => true,
            Op::Filter(..) => self.v_is_int(&self.streams[j].src),
            _ => false,
        }
    }
    /// is field `v` of the events of this source an integer (no aggregate above it)?
    pub fn v_is_int(&self, src: &Src) -> bool {
        match src {
            Src::Raw(_) => true,
            Src::Stream(j) => match self.streams[*j].op {
                Op::CountAgg { .. } | Op::SlideAgg { .. } | Op::Tumble { .. } => false,
                _ => self.v_is_int(&self.streams[*j].src),
            },
        }
    }
    /// sequence streams whose source is a transforming stream of another context
    pub fn seq_over_remote_transform(&self) -> Vec<usize> {
        self.streams
            .iter()
            .enumerate()
            .filter(|(_, s)| matches!(s.op, Op::SeqPair))
            .filter(|(_, s)| match s.src {
                Src::Stream(j) => self.streams[j].ctx != s.ctx && !self.view_equivalent(j),
                _ => false,
            })
            .map(|(i, _)| i)
            .collect()
    }
    /// longest chain of cross-context hops
    pub fn cross_depth(&self) -> usize {
        let mut d = vec![0usize; self.streams.len()];
        for (i, s) in self.streams.iter().enumerate() {
            if let Src::Stream(j) = s.src {
                d[i] = d[j] + usize::from(self.streams[j].ctx != s.ctx);
            }
        }
        d.into_iter().max().unwrap_or(0)
    }
}

// ------------------------------------------------------------------ strategies

fn op_strategy() -> BoxedStrategy<Op> {
    let cmp = prop_oneof![Just(Cmp::Gt), Just(Cmp::Ge), Just(Cmp::Lt), Just(Cmp::Le), Just(Cmp::Ne), Just(Cmp::Eq)];
    prop_oneof![
        3 => Just(Op::Pass),
        3 => (cmp, -1i64..4).prop_map(|(c, k)| Op::Filter(c, k)),
        2 => Just(Op::Shift),
        3 => (1u32..5, any::<bool>()).prop_map(|(n, partition)| Op::CountAgg { n, partition }),
        2 => (1u32..5, 1u32..4).prop_map(|(n, m)| Op::SlideAgg { n, m }),
        1 => (1u32..4).prop_map(|secs| Op::Tumble { secs }),
        2 => Just(Op::SeqPair),
        1 => Just(Op::Distinct),
        1 => (1u32..30).prop_map(Op::Limit),
    ]
    .boxed()
}

#[derive(Clone, Copy, Debug)]
pub struct Topo {
    pub max_streams: usize,
    /// allow a source (raw type or stream) to be consumed from more than one context
    pub fanout: bool,
    /// allow a derived stream in the same context as its source stream
    pub local_derived: bool,
    /// every context either reads raw types only or derived streams only (needed by C27's replay rule)
    pub pure_ingress: bool,
    /// allow a 2-step sequence over a transforming stream of another context (known finding of C26)
    pub seq_over_remote_transform: bool,
}

#[derive(Clone, Debug)]
struct RawStream {
    ctx: u16,
    derived: bool,
    src: u16,
    op: Op,
    emit_ctx: bool,
}

/// Programs with 2-3 contexts, >= 1 cross-context derived stream, one source per stream.
pub fn prog(t: Topo) -> BoxedStrategy<Prog> {
    let rs = (any::<u16>(), prop::bool::weighted(0.7), any::<u16>(), op_strategy(), prop::bool::weighted(0.3))
        .prop_map(|(ctx, derived, src, op, emit_ctx)| RawStream { ctx, derived, src, op, emit_ctx });
    (prop_oneof![2 => Just(2usize), 3 => Just(3usize)], proptest::collection::vec(rs, 2..=t.max_streams))
        .prop_map(move |(n_ctx, raws)| build_prog(n_ctx, raws, t))
        .boxed()
}

fn build_prog(n_ctx: usize, raws: Vec<RawStream>, t: Topo) -> Prog {
    let mut p = Prog { n_ctx, streams: vec![], notes: vec![] };
    // which context consumes a source so far (for the no-fan-out rule)
    let mut consumer_ctx: Vec<(Src, usize)> = vec![];
    // for pure_ingress: role of a context: Some(true) = reads raw types, Some(false) = reads streams
    let mut role: Vec<Option<bool>> = vec![None; n_ctx];
    let mut have_cross = false;
    let total = raws.len();
    for (i, r) in raws.into_iter().enumerate() {
        let mut ctx = idx::pick(r.ctx, n_ctx);
        let last = i + 1 == total;
        let want_derived = !p.streams.is_empty() && (r.derived || (last && !have_cross));
        let mut src = if want_derived { Src::Stream(idx::pick(r.src, p.streams.len())) } else { Src::Raw(idx::pick(r.src, TYPES.len())) };
        // time windows only where event time is kept
        let mut op = r.op;
        if matches!(op, Op::Tumble { .. }) && !p.keeps_event_time(&src) {
            op = Op::CountAgg { n: 2, partition: false };
        }
        // place the stream
        let candidates: Vec<usize> = (0..n_ctx).map(|d| (ctx + d) % n_ctx).collect();
        let ok = |c: usize, src: &Src, role: &Vec<Option<bool>>, consumer_ctx: &Vec<(Src, usize)>, p: &Prog| -> bool {
            if let Src::Stream(j) = src {
                if !t.local_derived && p.streams[*j].ctx == c {
                    return false;
                }
            }
            if !t.fanout {
                if let Some((_, cc)) = consumer_ctx.iter().find(|(s, _)| s == src) {
                    if *cc != c {
                        return false;
                    }
                }
            }
            if t.pure_ingress {
                // Some(true): the context reads raw inputs, Some(false): it reads streams of other contexts;
                // never both (derived streams of the context's own streams are free)
                match src {
                    Src::Raw(_) => {
                        // the last context is kept free of raw readers so that a cross-context consumer always has a home
                        if role[c] == Some(false) || c + 1 == n_ctx {
                            return false;
                        }
                    }
                    Src::Stream(j) if p.streams[*j].ctx != c => {
                        if role[c] == Some(true) {
                            return false;
                        }
                    }
                    _ => {}
                }
            }
            true
        };
        let mut placed = candidates.iter().copied().find(|c| ok(*c, &src, &role, &consumer_ctx, &p));
        if placed != Some(ctx) && !t.fanout && consumer_ctx.iter().any(|(s, cc)| *s == src && *cc != ctx) {
            p.notes.push("excluded:fanout-of-one-source-to-two-contexts".into());
        }
        if placed.is_none() {
            // fall back to a raw source (always placeable somewhere unless roles forbid; then reuse the context of the first raw reader)
            src = Src::Raw(idx::pick(r.src, TYPES.len()));
            if matches!(op, Op::Tumble { .. }) && !p.keeps_event_time(&src) {
                op = Op::CountAgg { n: 2, partition: false };
            }
            placed = candidates.iter().copied().find(|c| ok(*c, &src, &role, &consumer_ctx, &p));
        }
        let Some(c) = placed else { continue };
        ctx = c;
        if let (Op::SeqPair, Src::Stream(j)) = (&op, &src) {
            if !t.seq_over_remote_transform && p.streams[*j].ctx != ctx && !p.view_equivalent(*j) {
                p.notes.push("excluded:sequence-over-remote-transforming-stream".into());
                op = Op::CountAgg { n: 2, partition: true };
            }
        }
        if let Src::Stream(j) = &src {
            if p.streams[*j].ctx != ctx {
                have_cross = true;
            }
        }
        if !consumer_ctx.iter().any(|(s, cc)| *s == src && *cc == ctx) {
            consumer_ctx.push((src.clone(), ctx));
        }
        match &src {
            Src::Raw(_) => role[ctx] = Some(true),
            Src::Stream(j) if p.streams[*j].ctx != ctx => role[ctx] = Some(false),
            _ => {}
        }
        p.streams.push(StreamDef { ctx, src, op, emit_ctx: r.emit_ctx });
    }
    // guarantee one cross-context derived stream: the last stream has no consumer yet, so a consumer in
    // another context can always be added without creating fan-out
    if !have_cross {
        if p.streams.is_empty() {
            p.streams.push(StreamDef { ctx: 0, src: Src::Raw(0), op: Op::Pass, emit_ctx: false });
            role[0] = Some(true);
        }
        let j = p.streams.len() - 1;
        let from = p.streams[j].ctx;
        let target = (1..n_ctx).map(|d| (from + d) % n_ctx).find(|c| !t.pure_ingress || role[*c] != Some(true));
        if let Some(c) = target {
            p.streams.push(StreamDef { ctx: c, src: Src::Stream(j), op: Op::CountAgg { n: 2, partition: false }, emit_ctx: false });
        }
    }
    p
}

/// Input events: unique increasing ids, k in 1..=3, small int v, non-decreasing timestamps.
/// `types`: indices into TYPES to draw from.
pub fn events(types: Vec<usize>, max: usize) -> BoxedStrategy<Vec<Ev>> {
    let types = if types.is_empty() { vec![0] } else { types };
    let one = (any::<u16>(), 1i64..4, -2i64..6, prop_oneof![4 => Just(0i64), 3 => Just(100), 2 => Just(500), 1 => Just(1000)]);
    proptest::collection::vec(one, 1..=max)
        .prop_map(move |raw| {
            let mut t = 0i64;
            raw.into_iter()
                .enumerate()
                .map(|(i, (ty, k, v, dt))| {
                    t += dt;
                    Ev::new(TYPES[types[idx::pick(ty, types.len())]], t).with("id", V::Int(i as i64 + 1)).with("k", V::Int(k)).with("v", V::Int(v))
                })
                .collect()
        })
        .boxed()
}

// ------------------------------------------------------------------ reference

/// Outputs of the program without contexts in a plain engine, one input at a time.
pub fn reference(src_plain: &str, inputs: &[Ev]) -> Result<Vec<OutEv>, String> {
    let mut eng = Eng::new(src_plain)?;
    let outs = eng.process_all(inputs)?;
    Ok(outs.iter().map(OutEv::from_event).collect())
}

/// outputs grouped by event type (= stream name), order kept
pub fn by_stream(outs: &[OutEv]) -> BTreeMap<String, Vec<OutEv>> {
    let mut m: BTreeMap<String, Vec<OutEv>> = BTreeMap::new();
    for o in outs {
        m.entry(o.ty.clone()).or_default().push(o.clone());
    }
    m
}

pub fn short(o: &OutEv) -> String {
    let f: Vec<String> = o.fields.iter().map(|(k, v)| format!("{}={}", k, v)).collect();
    format!("{}({})", o.ty, f.join(","))
}

pub fn short_list(v: &[OutEv], max: usize) -> String {
    let mut s: Vec<String> = v.iter().take(max).map(short).collect();
    if v.len() > max {
        s.push(format!("… {} more", v.len() - max));
    }
    format!("[{}]", s.join(" "))
}

/// How two per-stream sequences differ (None = equal).
#[derive(Debug, Clone, PartialEq)]
pub enum Diff {
    Missing,
    Extra,
    Order,
    Content,
}

pub fn diff_seq(want: &[OutEv], got: &[OutEv]) -> Option<Diff> {
    if want == got {
        return None;
    }
    let mut w = want.to_vec();
    let mut g = got.to_vec();
    w.sort();
    g.sort();
    if w == g {
        return Some(Diff::Order);
    }
    // multiset inclusion
    let sub = |a: &[OutEv], b: &[OutEv]| -> bool {
        // a ⊆ b as multisets (both sorted)
        let mut j = 0;
        for x in a {
            while j < b.len() && &b[j] < x {
                j += 1;
            }
            if j >= b.len() || &b[j] != x {
                return false;
            }
            j += 1;
        }
        true
    };
    if sub(&g, &w) {
        Some(Diff::Missing)
    } else if sub(&w, &g) {
        Some(Diff::Extra)
    } else {
        Some(Diff::Content)
    }
}

// ------------------------------------------------------------------ orchestrator driver

#[derive(Debug, PartialEq)]
pub enum Quiesce {
    Yes,
    Timeout(i64),
    Panicked,
}

pub struct Run {
    pub session: Arc<H5Session>,
    orch: Option<ContextOrchestrator>,
    out_rx: mpsc::Receiver<Event>,
    rt: tokio::runtime::Runtime,
    /// event type -> context (the orchestrator's own routing table)
    pub routing: BTreeMap<String, String>,
    pub outputs: Vec<Event>,
}

pub struct RunCfg {
    pub capacity: usize,
    pub seed: u64,
    pub intensity: u8,
    pub store: Option<Arc<dyn StateStore>>,
    pub recovery: Option<Checkpoint>,
}

pub const OUT_CAP: usize = 200_000;

impl Run {
    /// Parse `src`, build the orchestrator exactly as the CLI / tenant code does (context map from a
    /// loaded engine), with the H5 session of this thread attached to the context threads.
    pub fn start(src: &str, cfg: RunCfg) -> Result<Run, String> {
        let program = varpulis_parser::parse(src).map_err(|e| format!("parse: {}", e))?;
        let (tmp_tx, _tmp_rx) = mpsc::channel(16);
        let mut tmp = varpulis_runtime::engine::Engine::new(tmp_tx);
        tmp.load(&program).map_err(|e| format!("load: {}", e))?;
        if !tmp.has_contexts() {
            return Err("program declares no contexts".into());
        }
        let (out_tx, out_rx) = mpsc::channel::<Event>(OUT_CAP);
        let session = vh::h5_begin(cfg.seed, cfg.intensity, true);
        let ck = cfg.store.map(|s| {
            (
                CheckpointConfig { interval: Duration::from_secs(3600 * 24 * 365), max_checkpoints: 8, checkpoint_on_shutdown: false, key_prefix: "verif".into() },
                s,
            )
        });
        let orch = ContextOrchestrator::build_with_checkpoint(tmp.context_map(), &program, out_tx, cfg.capacity, ck, cfg.recovery.as_ref());
        let orch = match orch {
            Ok(o) => o,
            Err(e) => {
                vh::h5_end();
                return Err(format!("build: {}", e));
            }
        };
        let routing = orch.ingress_routing().iter().map(|(k, v)| (k.clone(), v.clone())).collect();
        let rt = tokio::runtime::Builder::new_current_thread().enable_all().build().map_err(|e| e.to_string())?;
        Ok(Run { session, orch: Some(orch), out_rx, rt, routing, outputs: vec![] })
    }

    /// Feed one input the way the CLI does: non-blocking first, waiting send when the queue is full
    /// (`try_first`), or always the waiting send.
    pub fn feed(&mut self, ev: &Ev, try_first: bool) -> Result<(), String> {
        let orch = self.orch.as_ref().ok_or("orchestrator gone")?;
        let shared = Arc::new(ev.to_event());
        let target = self.routing.get(&ev.ty).cloned().unwrap_or_default();
        self.session.send_attempt();
        let res: Result<(), String> = if try_first {
            match orch.try_process(Arc::clone(&shared)) {
                Ok(()) => Ok(()),
                Err(DispatchError::ChannelFull(msg)) => match msg {
                    varpulis_runtime::ContextMessage::Event(e) => self.rt.block_on(orch.process(e)),
                    _ => Err("unexpected message kind returned".into()),
                },
                Err(DispatchError::ChannelClosed(_)) => Err("channel closed".into()),
            }
        } else {
            self.rt.block_on(orch.process(shared))
        };
        if res.is_err() {
            self.session.send_refused();
        }
        self.session.push(H5Rec { ctx: "harness".into(), kind: "insend", peer: target, ok: res.is_ok(), why: "", n: ev.id(), m: 0 });
        self.collect();
        res
    }

    fn collect(&mut self) {
        while let Ok(e) = self.out_rx.try_recv() {
            self.outputs.push(e);
        }
    }

    /// Wait until no message is queued or being handled anywhere (H5 accounting), never on time alone.
    pub fn wait_quiescent(&mut self, budget: Duration) -> Quiesce {
        let start = Instant::now();
        let mut spins = 0u32;
        loop {
            let p = self.session.pending();
            if p == 0 {
                self.collect();
                return Quiesce::Yes;
            }
            if self.session.panicked.load(std::sync::atomic::Ordering::SeqCst) {
                return Quiesce::Panicked;
            }
            if start.elapsed() > budget {
                return Quiesce::Timeout(p);
            }
            spins += 1;
            if spins < 50 {
                std::thread::yield_now();
            } else {
                std::thread::sleep(Duration::from_micros(300));
            }
            self.collect();
        }
    }

    pub fn marker(&self, kind: &'static str, n: i64) {
        self.session.push(H5Rec { ctx: "harness".into(), kind, peer: String::new(), ok: true, why: "", n, m: 0 });
    }

    pub fn trigger_checkpoint(&mut self) {
        if let Some(o) = self.orch.as_mut() {
            o.trigger_checkpoint();
        }
    }

    /// Poll `try_complete_checkpoint` until it reports completion.
    pub fn wait_checkpoint(&mut self, budget: Duration) -> Result<bool, String> {
        let start = Instant::now();
        loop {
            let done = self.orch.as_mut().ok_or("orchestrator gone")?.try_complete_checkpoint().map_err(|e| format!("store: {}", e))?;
            if done {
                return Ok(true);
            }
            if self.session.panicked.load(std::sync::atomic::Ordering::SeqCst) {
                return Err("context thread panicked".into());
            }
            if start.elapsed() > budget {
                return Ok(false);
            }
            std::thread::sleep(Duration::from_micros(200));
            self.collect();
        }
    }

    /// Stop the context threads (joins them) and return all outputs seen and the trace.
    pub fn stop(mut self) -> (Vec<Event>, Vec<H5Rec>) {
        if let Some(o) = self.orch.take() {
            o.shutdown();
        }
        self.collect();
        let trace = self.session.trace();
        vh::h5_end();
        (std::mem::take(&mut self.outputs), trace)
    }
}

impl Drop for Run {
    fn drop(&mut self) {
        if let Some(o) = self.orch.take() {
            o.shutdown();
        }
        vh::h5_end();
    }
}

// ------------------------------------------------------------------ trace analysis

#[derive(Debug, Default, Clone)]
pub struct TraceStats {
    pub xsend_ok: u64,
    pub xsend_full: u64,
    pub xsend_closed: u64,
    pub recv: u64,
    /// highest number of messages accepted by a context's queue and not yet dequeued (approximate:
    /// send records are written after the send, so the value can lag by the number of senders)
    pub max_depth: i64,
    pub lost_ids: Vec<(String, String, i64)>,
}

pub fn trace_stats(trace: &[H5Rec]) -> TraceStats {
    let mut st = TraceStats::default();
    let mut depth: BTreeMap<String, i64> = BTreeMap::new();
    for r in trace {
        match r.kind {
            "xsend" => {
                if r.ok {
                    st.xsend_ok += 1;
                    let d = depth.entry(r.peer.clone()).or_insert(0);
                    *d += 1;
                    st.max_depth = st.max_depth.max(*d);
                } else if r.why == "Full" {
                    st.xsend_full += 1;
                    st.lost_ids.push((r.ctx.clone(), r.peer.clone(), r.n));
                } else {
                    st.xsend_closed += 1;
                }
            }
            "insend" | "bsend" => {
                if r.ok {
                    let d = depth.entry(r.peer.clone()).or_insert(0);
                    *d += 1;
                    st.max_depth = st.max_depth.max(*d);
                }
            }
            "recv" | "brecv" => {
                if r.kind == "recv" {
                    st.recv += 1;
                }
                *depth.entry(r.ctx.clone()).or_insert(0) -= 1;
            }
            _ => {}
        }
    }
    st
}
