//! C26 Splitting a program across execution contexts does not change its output.
//!
//! Real `ContextOrchestrator` threads, schedules perturbed by hook H5 (seeded yields/sleeps at
//! the channel operations).  Oracle: the same program rendered without contexts in a plain
//! `Engine`, one input at a time; per-stream output sequences (hence the multiset) must be equal.
//! Timing never decides: the run is complete when the H5 message accounting says that no
//! message is queued or in work anywhere.
mod ctxlib;

use ctxlib::*;
use proptest::prelude::*;
use serde::{Deserialize, Serialize};
use std::time::Duration;
use vh_common::{Check, Outcome};
use vh_gen::{Ev, OutEv};

#[derive(Clone, Debug, Serialize, Deserialize)]
struct Case {
    prog: Prog,
    inputs: Vec<Ev>,
    /// channel capacity of every context queue; `None` = ample (inputs + all reference outputs + 8:
    /// a queue can never be full)
    capacity: Option<u32>,
    seed: u64,
    intensity: u8,
    /// feed like the CLI (try_process, then the waiting send on ChannelFull) instead of always waiting
    try_first: bool,
}

fn capacity_small() -> impl Strategy<Value = u32> {
    prop_oneof![5 => 1u32..=4, 2 => 5u32..=16, 1 => 17u32..=64]
}

fn strat(topo: Topo, small: bool, max_inputs: usize) -> impl Strategy<Value = Case> {
    prog(topo).prop_flat_map(move |p| {
        let mut types = p.raw_types_used();
        // sometimes also a type nobody consumes
        let spare: Vec<usize> = (0..TYPES.len()).filter(|t| !types.contains(t)).collect();
        let with_spare = if let Some(s) = spare.first() {
            let mut t = types.clone();
            t.push(*s);
            t
        } else {
            types.clone()
        };
        if types.is_empty() {
            types = vec![0];
        }
        let cap = if small { capacity_small().prop_map(Some).boxed() } else { Just(None).boxed() };
        (Just(p), prop_oneof![4 => events(types, max_inputs), 1 => events(with_spare, max_inputs)], cap, any::<u64>(), prop_oneof![1 => Just(0u8), 2 => Just(1u8), 4 => Just(2u8), 2 => Just(3u8)], any::<bool>())
            .prop_map(|(prog, inputs, capacity, seed, intensity, try_first)| Case { prog, inputs, capacity, seed, intensity, try_first })
    })
}

const BUDGET: Duration = Duration::from_secs(180);

thread_local! {
    /// set once a case failed on this worker thread: shrinking and the final re-judgement then give every
    /// case several tries (same case, same seed), because whether a schedule-dependent failure shows up
    /// is up to the OS scheduler.  More tries can only find more real failures.
    static RETRY: std::cell::Cell<bool> = const { std::cell::Cell::new(false) };
}
static EXECUTIONS: std::sync::atomic::AtomicU64 = std::sync::atomic::AtomicU64::new(0);

fn run(c: &Case) -> Outcome {
    let tries = if RETRY.with(|r| r.get()) { 4 } else { 1 };
    let mut last = run_once(c);
    for _ in 1..tries {
        if last.is_fail() {
            break;
        }
        last = run_once(c);
    }
    if last.is_fail() {
        RETRY.with(|r| r.set(true));
    }
    last
}

fn run_once(c: &Case) -> Outcome {
    EXECUTIONS.fetch_add(1, std::sync::atomic::Ordering::Relaxed);
    let p = &c.prog;
    if p.cross_edges().is_empty() || p.used_ctxs().len() < 2 {
        return Outcome::discard("no cross-context derived stream");
    }
    let plain = p.render(false);
    let with_ctx = p.render(true);
    let want = match reference(&plain, &c.inputs) {
        Ok(w) => w,
        Err(e) => return Outcome::discard(format!("reference engine rejected program: {}", vh_common::truncate(&e, 80))),
    };
    let ample = c.inputs.len() + want.len() + 8;
    let capacity = c.capacity.map(|x| x as usize).unwrap_or(ample);
    let mut r = match Run::start(&with_ctx, RunCfg { capacity, seed: c.seed, intensity: c.intensity, store: None, recovery: None }) {
        Ok(r) => r,
        Err(e) => return Outcome::fail("orchestrator-build-failed", format!("{}\n{}", e, with_ctx)),
    };
    for ev in &c.inputs {
        if let Err(e) = r.feed(ev, c.try_first) {
            let (_o, _t) = r.stop();
            return Outcome::fail("ingress-send-failed", format!("input id {}: {}\n{}", ev.id(), e, with_ctx));
        }
    }
    match r.wait_quiescent(BUDGET) {
        Quiesce::Yes => {}
        Quiesce::Panicked => {
            let _ = r.stop();
            return Outcome::fail("context-thread-panic", with_ctx);
        }
        Quiesce::Timeout(_) => {
            let _ = r.stop();
            return Outcome::discard("not quiescent within budget");
        }
    }
    let (outs, trace) = r.stop();
    let got: Vec<OutEv> = outs.iter().map(OutEv::from_event).collect();
    let st = trace_stats(&trace);

    let head = |extra: String| -> String {
        format!(
            "capacity={} inputs={} seed={} intensity={}\n{}\n{}",
            capacity,
            c.inputs.len(),
            c.seed,
            c.intensity,
            with_ctx,
            extra
        )
    };

    // first sentence of the statement: every event produced for a stream in another context is delivered
    if st.xsend_full > 0 {
        let (from, to, id) = st.lost_ids[0].clone();
        let small = c.capacity.is_some_and(|x| x <= 4);
        return Outcome::fail(
            "cross-context-event-lost:queue-full",
            head(format!(
                "{} of {} cross-context sends were refused (queue full) and dropped; first: event id {} from {} to {} (max queue depth seen {})",
                st.xsend_full,
                st.xsend_full + st.xsend_ok,
                id,
                from,
                to,
                st.max_depth
            )),
        )
        .class_if(small, "queue_full_loss:capacity<=4")
        .class_if(!small, "queue_full_loss:capacity>4")
        .class(format!("contexts={}", p.used_ctxs().len()));
    }
    if st.xsend_closed > 0 {
        return Outcome::fail("cross-context-send-to-closed-queue", head(format!("{} sends hit a closed channel", st.xsend_closed)));
    }

    let wm = by_stream(&want);
    let gm = by_stream(&got);
    let mut names: Vec<&String> = wm.keys().chain(gm.keys()).collect();
    names.sort();
    names.dedup();
    let empty: Vec<OutEv> = vec![];
    for n in names {
        let w = wm.get(n).unwrap_or(&empty);
        let g = gm.get(n).unwrap_or(&empty);
        if let Some(d) = diff_seq(w, g) {
            let si = p.streams.iter().enumerate().find(|(i, _)| &sname(*i) == n);
            let local = si.map(|(i, _)| p.local_edges().iter().any(|(_, c)| *c == i)).unwrap_or(false);
            let fan = si.map(|(_, s)| p.fanout_sources().contains(&s.src)).unwrap_or(false);
            let seq_remote = si.map(|(i, _)| p.seq_over_remote_transform().contains(&i)).unwrap_or(false);
            let sig = match d {
                _ if seq_remote => "sequence-over-remote-transforming-stream:resolved-differently",
                Diff::Missing if fan => "fanout-source:consumer-starved",
                Diff::Extra if local => "same-context-derived:duplicated",
                Diff::Missing => "output-missing",
                Diff::Extra => "output-extra",
                Diff::Order => "output-order",
                Diff::Content => "output-different",
            };
            return Outcome::fail(
                sig,
                head(format!(
                    "stream {}: expected {} outputs {}\n got {} outputs {}\n(cross sends ok {} / full {}, max depth {})",
                    n,
                    w.len(),
                    short_list(w, 12),
                    g.len(),
                    short_list(g, 12),
                    st.xsend_ok,
                    st.xsend_full,
                    st.max_depth
                )),
            );
        }
    }

    let cross_consumers: Vec<usize> = p.cross_edges().iter().map(|(_, c)| *c).collect();
    let consumer_out = cross_consumers.iter().any(|i| wm.get(&sname(*i)).is_some_and(|v| !v.is_empty()));
    let nontrivial = st.xsend_ok >= 2 && consumer_out;
    let mut o = Outcome::pass()
        .nontrivial(nontrivial)
        .class(format!("contexts={}", p.used_ctxs().len()))
        .class(format!("cross_depth={}", p.cross_depth().min(3)))
        .class_if(consumer_out, "cross_consumer_has_output")
        .class_if(st.xsend_ok >= 20, "cross_events>=20")
        .class_if(st.max_depth >= 2, "queue_depth>=2")
        .class_if(st.max_depth >= 8, "queue_depth>=8")
        .class_if(c.capacity.is_some_and(|x| x <= 4), "capacity<=4")
        .class_if(c.capacity.is_some_and(|x| (x as i64) <= st.max_depth), "queue_was_full_at_some_point")
        .class_if(c.try_first, "ingress_try_then_wait")
        .class_if(p.streams.iter().any(|s| s.emit_ctx) && with_ctx.contains("context: "), "emit_with_target_context")
        .class_if(!p.local_edges().is_empty(), "has_same_context_derived")
        .class_if(!p.fanout_sources().is_empty(), "has_fanout_source")
        .class(format!("intensity={}", c.intensity));
    for s in &p.streams {
        o = o.class(format!("op:{}", s.op.kind()));
    }
    let mut notes = p.notes.clone();
    notes.sort();
    notes.dedup();
    for n in notes {
        o = o.class(n);
    }
    for (_, cons) in p.cross_edges() {
        if p.streams[cons].op.stateful() {
            o = o.class("stateful_cross_consumer");
            break;
        }
    }
    o
}

fn main() {
    if std::env::var("VERIF_SHRINK_ITERS").is_err() {
        // every shrink step starts real threads
        std::env::set_var("VERIF_SHRINK_ITERS", "250");
    }
    let check = Check::new("C26", "exploration");
    check.rule(
        "random programs of 2-6 streams over 2-3 named contexts (filters, shifted emits, count / sliding-count / tumbling aggregates, \
         2-step sequences, distinct, limit; one source per stream; >=1 derived stream in another context than its source), <=150 (thorough 200) input \
         events, real ContextOrchestrator threads with a seeded H5 schedule perturbation (per-context slowness, yields, sleeps up to 2 ms) and \
         channel capacity 'ample' or 1..64; oracle = per-stream output sequences of the same program rendered without contexts in a plain Engine. \
         A run is judged only after the H5 message accounting reports quiescence (no message queued or in work). Non-trivial = >=2 cross-context \
         events delivered and a cross-context consumer that has output. Schedules are sampled, not enumerated.",
    );
    check.assume("plain single-threaded Engine fed one event at a time is the reference semantics of 'the same program without contexts'");
    check.assume("H5 accounting (pending counter) is the completion criterion; tokio mpsc channels are FIFO per sender");
    check.assume("thread schedules are sampled (seeded perturbation on top of the OS scheduler); a pass is evidence, not a proof over all schedules");
    let max_inputs = check.pick(150, 200);
    let clean = Topo { max_streams: 6, fanout: false, local_derived: true, pure_ingress: false, seq_over_remote_transform: false };
    check.explore("ample_capacity", move || strat(clean, false, max_inputs), 400, 6000, run);
    check.explore("small_capacity", move || strat(clean, true, max_inputs), 160, 2400, run);
    // the fan-out class is a recorded finding; this small sub-check keeps looking for anything else in it
    let fan = Topo { max_streams: 6, fanout: true, local_derived: true, pure_ingress: false, seq_over_remote_transform: false };
    check.explore("fanout", move || strat(fan, false, max_inputs), 40, 500, run);
    check.extra("executions", serde_json::json!(EXECUTIONS.load(std::sync::atomic::Ordering::Relaxed)));
    check.finish();
}
