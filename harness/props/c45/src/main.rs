//! C45 A resilient sink never loses an event and its breaker follows its contract.
//!
//! Harness-owned schedule: the production `ResilientSink` (+ `CircuitBreaker`,
//! `DeadLetterQueue`) wraps a mock inner sink whose `send`/`send_batch` park on a gate.
//! The sender futures are polled by hand on this thread (no executor, no timers), so the
//! script {start sender, complete sender ok/err, advance clock} fixes the interleaving
//! completely, and the breaker's `Instant::now()` follows the per-thread virtual clock.
use async_trait::async_trait;
use proptest::prelude::*;
use serde::{Deserialize, Serialize};
use std::future::Future;
use std::pin::Pin;
use std::sync::{Arc, Mutex};
use std::task::{Context, Poll, Waker};
use std::time::{Duration, Instant};
use tokio::sync::oneshot;
use varpulis_runtime::circuit_breaker::{CircuitBreaker, CircuitBreakerConfig, State};
use varpulis_runtime::dead_letter::DeadLetterQueue;
use varpulis_runtime::event::Event;
use varpulis_runtime::sink::{ResilientSink, Sink};
use vh_common::{Check, Outcome};
use vh_gen::{Ev, V};

vh_clock::install!();

// ------------------------------------------------------------------ case

#[derive(Clone, Debug, Serialize, Deserialize, PartialEq)]
enum Res {
    Ok,
    /// fail with error message `ERRORS[msg]`
    Err { msg: u8 },
    /// batches: deliver the first `k` events, then fail (single sends: same as Err)
    Partial { k: u8, msg: u8 },
}

#[derive(Clone, Debug, Serialize, Deserialize)]
enum Op {
    /// sender `s` hands over one event (`batch` = 0) or a batch of `batch` events
    Start { s: u8, batch: u8, payload: u8 },
    /// the downstream call of sender `s` completes
    Complete { s: u8, res: Res },
    Advance { ms: u64 },
}

#[derive(Clone, Debug, Serialize, Deserialize)]
struct Case {
    threshold: u32,
    reset_ms: u64,
    sink: u8,
    script: Vec<Op>,
    /// false (generator): script steps that fall into the recorded finding classes are
    /// skipped and counted; true (replays): they are executed and judged.
    #[serde(default)]
    include_known_classes: bool,
}

const SINKS: &[&str] = &["kafka-out", "mqtt sink", "q\"uote\\d", "na\u{ef}ve/\u{df}ink", "two\nlines", "x"];
const ERRORS: &[&str] = &["connection refused", "503 Service Unavailable", "bad \"quote\" \\ back", "multi\nline\terror", "\u{fc}n\u{ef}", "", "circuit breaker open"];
const MAX_STARTS: usize = 12;

fn payload(i: u8) -> V {
    match i % 8 {
        0 => V::Int(0),
        1 => V::s("plain"),
        2 => V::s("quote\" back\\ nl\n tab\t"),
        3 => V::f(f64::NAN),
        4 => V::f(f64::INFINITY),
        5 => V::s("\u{1F600} \u{0} \u{7f}"),
        6 => V::Int(i64::MIN),
        _ => V::f(-0.0),
    }
}

fn strat() -> impl Strategy<Value = Case> {
    let reset = proptest::sample::select(&[100u64, 500, 1000, 30_000][..]);
    (1u32..=4, reset, 0..SINKS.len() as u8, 1u8..=3).prop_flat_map(|(threshold, reset_ms, sink, senders)| {
        let res = prop_oneof![
            4 => Just(Res::Ok),
            7 => (0..ERRORS.len() as u8).prop_map(|msg| Res::Err { msg }),
            1 => (0u8..3, 0..ERRORS.len() as u8).prop_map(|(k, msg)| Res::Partial { k, msg }),
        ];
        let adv = prop_oneof![
            3 => Just(reset_ms),
            2 => Just(reset_ms - 100),
            2 => proptest::sample::select(&[100u64, 200, 500, 1000][..]),
            1 => Just(reset_ms * 2),
        ];
        let op = prop_oneof![
            6 => (0..senders, prop_oneof![3 => Just(0u8), 1 => 1u8..=3], any::<u8>()).prop_map(|(s, batch, payload)| Op::Start { s, batch, payload }),
            6 => (0..senders, res).prop_map(|(s, res)| Op::Complete { s, res }),
            2 => adv.prop_map(|ms| Op::Advance { ms }),
        ];
        proptest::collection::vec(op, 1..=36).prop_map(move |script| Case { threshold, reset_ms, sink, script, include_known_classes: false })
    })
}

// ------------------------------------------------------------------ mock downstream

struct Gate {
    res: Res,
}

#[derive(Default)]
struct MockState {
    next_gate: Option<oneshot::Receiver<Gate>>,
    entered: u32,
    delivered: Vec<i64>,
}

struct Mock {
    name: String,
    st: Mutex<MockState>,
}

fn ev_id(e: &Event) -> i64 {
    match e.data.get("id") {
        Some(varpulis_core::Value::Int(i)) => *i,
        _ => -1,
    }
}

impl Mock {
    async fn gate(&self) -> Res {
        let rx = {
            let mut st = self.st.lock().unwrap();
            st.entered += 1;
            st.next_gate.take().expect("harness: downstream entered without a gate")
        };
        rx.await.map(|g| g.res).unwrap_or(Res::Err { msg: 0 })
    }
}

#[async_trait]
impl Sink for Mock {
    fn name(&self) -> &str {
        &self.name
    }
    async fn send(&self, event: &Event) -> anyhow::Result<()> {
        match self.gate().await {
            Res::Ok => {
                self.st.lock().unwrap().delivered.push(ev_id(event));
                Ok(())
            }
            Res::Err { msg } | Res::Partial { msg, .. } => Err(anyhow::anyhow!("{}", ERRORS[msg as usize])),
        }
    }
    async fn send_batch(&self, events: &[Arc<Event>]) -> anyhow::Result<()> {
        match self.gate().await {
            Res::Ok => {
                self.st.lock().unwrap().delivered.extend(events.iter().map(|e| ev_id(e)));
                Ok(())
            }
            Res::Err { msg } => Err(anyhow::anyhow!("{}", ERRORS[msg as usize])),
            Res::Partial { k, msg } => {
                let k = (k as usize).min(events.len().saturating_sub(1));
                self.st.lock().unwrap().delivered.extend(events[..k].iter().map(|e| ev_id(e)));
                Err(anyhow::anyhow!("{}", ERRORS[msg as usize]))
            }
        }
    }
    async fn flush(&self) -> anyhow::Result<()> {
        Ok(())
    }
    async fn close(&self) -> anyhow::Result<()> {
        Ok(())
    }
}

// ------------------------------------------------------------------ reference automaton

#[derive(Clone, Copy, Debug)]
struct Bracket {
    before: Instant,
    after: Instant,
}

#[derive(Clone, Debug)]
enum M {
    Closed { consec: u32 },
    /// `opened`: the failure that opened the breaker; `last_fail`: most recent failure
    /// recorded since (calls admitted earlier may still fail while open)
    Open { opened: Bracket, last_fail: Bracket },
    HalfOpen { probe: usize },
}

impl M {
    fn name(&self) -> &'static str {
        match self {
            M::Closed { .. } => "Closed",
            M::Open { .. } => "Open",
            M::HalfOpen { .. } => "HalfOpen",
        }
    }
}

fn sname(s: State) -> &'static str {
    match s {
        State::Closed => "Closed",
        State::Open => "Open",
        State::HalfOpen => "HalfOpen",
    }
}

#[derive(Clone, Debug, PartialEq)]
enum Fate {
    InFlight,
    Rejected,
    Done(Res),
}

struct Req {
    ids: Vec<i64>,
    batch: bool,
    /// model epoch (number of model state changes) at admission
    epoch: u32,
    fate: Fate,
}

type Fut = Pin<Box<dyn Future<Output = anyhow::Result<()>>>>;

struct Slot {
    fut: Fut,
    tx: oneshot::Sender<Gate>,
    req: usize,
}

fn poll(f: &mut Fut) -> Poll<anyhow::Result<()>> {
    let mut cx = Context::from_waker(Waker::noop());
    f.as_mut().poll(&mut cx)
}

fn json_int(v: &serde_json::Value) -> Option<i64> {
    if let Some(i) = v.as_i64() {
        return Some(i);
    }
    // externally tagged encodings such as {"Int": 5}
    v.as_object().and_then(|o| if o.len() == 1 { o.values().next().and_then(|x| x.as_i64()) } else { None })
}

fn judge(c: &Case) -> Outcome {
    // memory-backed when available: one small DLQ file per case
    let base = if std::path::Path::new("/dev/shm").is_dir() { std::path::PathBuf::from("/dev/shm") } else { std::env::temp_dir() };
    let dir = match tempfile::Builder::new().prefix("vh-c45-").tempdir_in(base) {
        Ok(d) => d,
        Err(e) => return Outcome::discard(format!("tempdir: {}", e)),
    };
    let dlq_path = dir.path().join("dlq.jsonl");
    let dlq = match DeadLetterQueue::open(&dlq_path) {
        Ok(d) => Arc::new(d),
        Err(e) => return Outcome::discard(format!("dlq open: {}", e)),
    };
    let sink_name = SINKS[c.sink as usize % SINKS.len()];
    let mock = Arc::new(Mock { name: sink_name.to_string(), st: Mutex::new(MockState::default()) });
    let timeout = Duration::from_millis(c.reset_ms);
    let cb = Arc::new(CircuitBreaker::new(CircuitBreakerConfig { failure_threshold: c.threshold, reset_timeout: timeout }));
    let sink = Arc::new(ResilientSink::new(mock.clone(), cb.clone(), Some(dlq.clone())));

    let mut model = M::Closed { consec: 0 };
    let mut epoch = 0u32;
    // false once the statement no longer fixes the expected breaker state (only reachable
    // with include_known_classes); event conservation is still judged
    let mut model_defined = true;
    let mut reqs: Vec<Req> = vec![];
    let mut slots: Vec<Option<Slot>> = vec![None, None, None];
    let mut next_id = 0i64;
    let mut starts = 0usize;
    let mut cl: Vec<&'static str> = vec![];
    let (mut n_open, mut n_probe_ok, mut n_probe_fail, mut n_rejected, mut max_overlap, mut n_straggler_open) = (0u32, 0u32, 0u32, 0u32, 0usize, 0u32);
    let mut excluded_a = 0u32;
    let mut excluded_b = 0u32;
    let mut ambiguous_timeout = 0u32;

    // the script, then completion (Ok) of whatever is still in flight
    let mut script: Vec<Op> = c.script.clone();
    for s in 0..3u8 {
        script.push(Op::Complete { s, res: Res::Ok });
    }

    for (k, op) in script.iter().enumerate() {
        match op {
            Op::Advance { ms } => vh_clock::advance_ms(*ms),
            Op::Start { s, batch, payload: pl } => {
                let s = *s as usize % 3;
                if slots[s].is_some() || starts >= MAX_STARTS {
                    continue;
                }
                let in_flight = slots.iter().filter(|x| x.is_some()).count();
                if !c.include_known_classes {
                    match &model {
                        M::HalfOpen { .. } => {
                            excluded_a += 1;
                            continue;
                        }
                        M::Open { opened, .. } if in_flight > 0 => {
                            // this call could become the probe while older calls are in flight
                            let surely_rejected = Instant::now().duration_since(opened.before) + Duration::from_millis(50) < timeout;
                            if !surely_rejected {
                                excluded_b += 1;
                                continue;
                            }
                        }
                        _ => {}
                    }
                }
                starts += 1;
                let n = if *batch == 0 { 1 } else { *batch as usize };
                let evs: Vec<Arc<Event>> = (0..n)
                    .map(|i| {
                        let id = next_id;
                        next_id += 1;
                        Arc::new(Ev::new("E", id).with("id", V::Int(id)).with("p", payload(pl.wrapping_add(i as u8))).to_event())
                    })
                    .collect();
                let ids: Vec<i64> = evs.iter().map(|e| ev_id(e)).collect();
                let (tx, rx) = oneshot::channel();
                let entered_before = {
                    let mut st = mock.st.lock().unwrap();
                    st.next_gate = Some(rx);
                    st.entered
                };
                let sk = sink.clone();
                let mut fut: Fut = if *batch == 0 {
                    let e = evs[0].clone();
                    Box::pin(async move { sk.send(&e).await })
                } else {
                    Box::pin(async move { sk.send_batch(&evs).await })
                };
                let before = Instant::now();
                let first = poll(&mut fut);
                let after = Instant::now();
                let admitted = {
                    let mut st = mock.st.lock().unwrap();
                    let a = st.entered > entered_before;
                    if !a {
                        st.next_gate = None;
                    }
                    a
                };
                match (&first, admitted) {
                    (Poll::Pending, true) | (Poll::Ready(Err(_)), false) => {}
                    (Poll::Ready(Ok(())), false) => {
                        return Outcome::fail("ok-without-delivery", format!("op {} {:?}: send returned Ok but the downstream was never called", k, op));
                    }
                    other => return Outcome::fail("harness-unexpected-poll", format!("op {}: {:?}", k, other)),
                }
                // ---- what the statement requires for this call
                if model_defined {
                    let mut new_model = None;
                    match &model {
                        M::Closed { .. } => {
                            if !admitted {
                                return Outcome::fail("rejected-while-closed", format!("op {} {:?}: breaker closed, call rejected", k, op));
                            }
                        }
                        M::Open { opened, last_fail } => {
                            let must_reject = after.duration_since(opened.before) < timeout;
                            let must_admit = before.duration_since(last_fail.after) >= timeout;
                            if must_reject && admitted {
                                return Outcome::fail("admitted-before-reset-timeout", format!("op {} {:?}: opened <= {:?} ago, reset timeout {:?}", k, op, after.duration_since(opened.before), timeout));
                            }
                            if must_admit && !admitted {
                                return Outcome::fail("rejected-after-reset-timeout", format!("op {} {:?}: last failure >= {:?} ago, reset timeout {:?}", k, op, before.duration_since(last_fail.after), timeout));
                            }
                            if !must_reject && !must_admit {
                                ambiguous_timeout += 1;
                            }
                            if admitted {
                                new_model = Some(M::HalfOpen { probe: reqs.len() });
                                if in_flight > 0 {
                                    cl.push("probe_with_older_calls_in_flight");
                                }
                            }
                        }
                        M::HalfOpen { probe } => {
                            if admitted {
                                return Outcome::fail(
                                    "half-open-admits-second-call",
                                    format!("op {} {:?}: breaker half-open, probe (call #{}) has not completed, yet this call reached the downstream", k, op, probe),
                                );
                            }
                            cl.push("rejected_while_probe_pending");
                        }
                    }
                    if let Some(m) = new_model {
                        model = m;
                        epoch += 1;
                    }
                }
                reqs.push(Req { ids, batch: *batch != 0, epoch, fate: if admitted { Fate::InFlight } else { Fate::Rejected } });
                if admitted {
                    slots[s] = Some(Slot { fut, tx, req: reqs.len() - 1 });
                    max_overlap = max_overlap.max(in_flight + 1);
                } else {
                    n_rejected += 1;
                }
            }
            Op::Complete { s, res } => {
                let s = *s as usize % 3;
                let Some(mut slot) = slots[s].take() else { continue };
                let _ = slot.tx.send(Gate { res: res.clone() });
                let before = Instant::now();
                let r = poll(&mut slot.fut);
                let after = Instant::now();
                let single = !reqs[slot.req].batch;
                let failed = !matches!(res, Res::Ok);
                match r {
                    Poll::Ready(Ok(())) if !failed => {}
                    Poll::Ready(Err(_)) if failed => {}
                    other => return Outcome::fail("harness-unexpected-completion", format!("op {}: {:?} for {:?}", k, other, res)),
                }
                let _ = single;
                reqs[slot.req].fate = Fate::Done(res.clone());
                if model_defined {
                    let now = Bracket { before, after };
                    let req_epoch = reqs[slot.req].epoch;
                    let mut new_model = None;
                    let mut non_probe_in_half_open = false;
                    match &mut model {
                        M::Closed { consec } => {
                            if req_epoch != epoch {
                                // a call admitted before an earlier open period completes in a
                                // later closed period: the statement does not say how it counts
                                model_defined = false;
                            } else if failed {
                                *consec += 1;
                                if *consec >= c.threshold {
                                    new_model = Some(M::Open { opened: now, last_fail: now });
                                    n_open += 1;
                                }
                            } else {
                                *consec = 0;
                            }
                        }
                        M::Open { last_fail, .. } => {
                            n_straggler_open += 1;
                            if failed {
                                *last_fail = now;
                            }
                        }
                        M::HalfOpen { probe } => {
                            if *probe == slot.req {
                                if failed {
                                    new_model = Some(M::Open { opened: now, last_fail: now });
                                    n_probe_fail += 1;
                                } else {
                                    new_model = Some(M::Closed { consec: 0 });
                                    n_probe_ok += 1;
                                }
                            } else {
                                non_probe_in_half_open = true;
                            }
                        }
                    }
                    if let Some(m) = new_model {
                        model = m;
                        epoch += 1;
                    }
                    if model_defined {
                        let got = cb.state();
                        if sname(got) != model.name() {
                            if non_probe_in_half_open {
                                return Outcome::fail(
                                    "half-open-left-by-non-probe-completion",
                                    format!("op {} {:?}: breaker half-open with its probe still in flight; an older call completed and the breaker went {}", k, op, sname(got)),
                                );
                            }
                            let sig = match (&model, got) {
                                (M::Open { .. }, State::Closed) | (M::Closed { .. }, State::Open) => format!("open-threshold:expected-{}-got-{}", model.name(), sname(got)),
                                _ => format!("state-after-completion:expected-{}-got-{}", model.name(), sname(got)),
                            };
                            return Outcome::fail(sig, format!("op {} {:?} (threshold {}): model {:?}, breaker {}", k, op, c.threshold, model, sname(got)));
                        }
                    }
                }
            }
        }
    }

    // ---- conservation: every event handed over is delivered or in the DLQ
    drop(slots);
    let text = match std::fs::read_to_string(&dlq_path) {
        Ok(t) => t,
        Err(e) => return Outcome::fail("dlq-unreadable", format!("{}", e)),
    };
    // (event id, error text)
    let mut dlq_entries: Vec<(i64, String)> = vec![];
    for (ln, line) in text.lines().enumerate() {
        let v: serde_json::Value = match serde_json::from_str(line) {
            Ok(v) => v,
            Err(e) => return Outcome::fail("dlq-line-does-not-parse", format!("line {}: {} ({:?})", ln, e, line)),
        };
        if v["connector"].as_str() != Some(sink_name) {
            return Outcome::fail("dlq-line-does-not-name-sink", format!("line {}: connector {:?}, sink {:?}", ln, v["connector"], sink_name));
        }
        let Some(err) = v["error"].as_str() else {
            return Outcome::fail("dlq-line-without-error", format!("line {}: {}", ln, line));
        };
        let Some(id) = json_int(&v["event"]["data"]["id"]) else {
            return Outcome::fail("dlq-line-without-event", format!("line {}: {}", ln, line));
        };
        dlq_entries.push((id, err.to_string()));
    }
    let delivered = mock.st.lock().unwrap().delivered.clone();
    let mut both = false;
    for (ri, r) in reqs.iter().enumerate() {
        for id in &r.ids {
            let was_delivered = delivered.contains(id);
            let entries: Vec<&String> = dlq_entries.iter().filter(|(i, _)| i == id).map(|(_, e)| e).collect();
            let kind = if r.batch { "batch" } else { "single" };
            match &r.fate {
                Fate::InFlight => return Outcome::fail("harness-call-never-completed", format!("call #{}", ri)),
                Fate::Rejected => {
                    if was_delivered {
                        return Outcome::fail("harness-rejected-but-delivered", format!("event {}", id));
                    }
                    if entries.is_empty() {
                        return Outcome::fail(format!("event-lost:breaker-rejected:{}", kind), format!("event {} of call #{} was rejected by the breaker and is not in the DLQ", id, ri));
                    }
                    if entries.iter().any(|e| e.is_empty()) {
                        return Outcome::fail("dlq-rejection-without-reason", format!("event {}", id));
                    }
                }
                Fate::Done(Res::Ok) => {
                    if !was_delivered {
                        return Outcome::fail("harness-ok-not-delivered", format!("event {}", id));
                    }
                }
                Fate::Done(Res::Err { msg }) | Fate::Done(Res::Partial { msg, .. }) => {
                    if entries.is_empty() && !was_delivered {
                        return Outcome::fail(format!("event-lost:downstream-failed:{}", kind), format!("event {} of call #{}: downstream failed, not delivered, not in the DLQ", id, ri));
                    }
                    if !was_delivered && !entries.iter().any(|e| e.as_str() == ERRORS[*msg as usize]) {
                        return Outcome::fail("dlq-entry-does-not-name-error", format!("event {}: downstream error {:?}, DLQ errors {:?}", id, ERRORS[*msg as usize], entries));
                    }
                    if was_delivered && !entries.is_empty() {
                        both = true;
                    }
                }
            }
        }
    }
    let handed: usize = reqs.iter().map(|r| r.ids.len()).sum();
    if dlq.count() as usize != dlq_entries.len() {
        return Outcome::fail("dlq-count-differs-from-file", format!("count() {} lines {}", dlq.count(), dlq_entries.len()));
    }
    let mut out = Outcome::pass().nontrivial(n_open > 0 && (max_overlap >= 2 || n_probe_ok + n_probe_fail > 0));
    for x in cl {
        out = out.class(x);
    }
    out.class_if(n_open > 0, "opened")
        .class_if(n_rejected > 0, "rejected_to_dlq")
        .class_if(n_probe_ok > 0, "probe_closed")
        .class_if(n_probe_fail > 0, "probe_reopened")
        .class_if(max_overlap >= 2, "overlap>=2")
        .class_if(max_overlap >= 3, "overlap=3")
        .class_if(n_straggler_open > 0, "completion_while_open")
        .class_if(ambiguous_timeout > 0, "timeout_reading_ambiguous_followed")
        .class_if(reqs.iter().any(|r| r.batch), "has_batch")
        .class_if(both, "delivered_and_dlq(partial_batch)")
        .class_if(excluded_a > 0, "excluded:start-while-probe-pending")
        .class_if(excluded_b > 0, "excluded:probe-with-older-calls-in-flight")
        .class_if(!model_defined, "breaker_model_undefined_tail")
        .class_if(handed >= 8, "events>=8")
}

fn main() {
    let clock_ok = vh_clock::self_test();
    let check = Check::new("C45", "exploration");
    check.rule("threshold 1-4, reset timeout {0.1,0.5,1,30}s, sink names/error texts/payloads with quotes, newlines, unicode, NaN; script <=36 steps {start sender 0-2 with send or send_batch(1-3), complete sender ok/err/partial, advance clock}, <=12 calls, hand-polled futures on the virtual clock (interleaving fully owned by the script); oracle: reference breaker automaton keyed by call identity (opens after exactly `threshold` consecutive failed completions, must reject while < timeout since opening, must admit when >= timeout since the last failure, in between either; half-open admits only the probe and leaves half-open only through the probe's result) compared with which calls reach the downstream and with CircuitBreaker::state(); every handed event is delivered or has a DLQ line that parses, names the sink and (for downstream failures) the error; non-trivial = breaker opened and (>=2 calls overlapped or a probe completed)");
    check.assume("vh-clock interposition (self-tested); mock downstream; DLQ read back from its file after the script; sink_factory::wrap_with_resilience (private module, 5 lines: ResilientSink::new per sink) is not driven");
    if !clock_ok {
        check.inconclusive("virtual clock not active");
        check.finish();
    }
    check.explore("script", strat, 150_000, 3_000_000, judge);
    check.finish();
}
