//! C23 Hot reload keeps unchanged streams working and applies changed ones.
use proptest::prelude::*;
use serde::{Deserialize, Serialize};
use std::collections::{BTreeMap, BTreeSet};
use vh_common::{Check, Outcome};
use vh_gen::engine::{norm, parse, Eng};
use vh_gen::prog::*;
use vh_gen::seq::Op;
use vh_gen::{Ev, OutEv};

#[derive(Clone, Debug, Serialize, Deserialize)]
enum Edit {
    Identity,
    /// change a constant (threshold / window size / limit) of stream i: same operator count
    Tweak(u16),
    /// add a `.where(v >= -5)`-style op (operator count changes) to stream i
    AddOp(u16),
    /// remove stream i (and everything derived from it)
    Remove(u16),
    /// append a new stream
    Add(Box<Shape>),
}

#[derive(Clone, Debug, Serialize, Deserialize)]
struct Case {
    prog: Prog,
    edit: Edit,
    events: Vec<Ev>,
}

fn strat() -> impl Strategy<Value = Case> {
    let o = ProgOpts { max_streams: 3, ..ProgOpts::full() };
    let one = ProgOpts { max_streams: 1, ..ProgOpts::full() };
    let edit = prop_oneof![
        3 => Just(Edit::Identity),
        3 => any::<u16>().prop_map(Edit::Tweak),
        2 => any::<u16>().prop_map(Edit::AddOp),
        1 => any::<u16>().prop_map(Edit::Remove),
        1 => prog(one).prop_map(|p| Edit::Add(Box::new(p.streams[0].clone()))),
    ];
    (prog(o), edit, events(30)).prop_map(|(prog, edit, events)| Case { prog, edit, events })
}

/// P' and, per stream index of P', what happened to it.
#[derive(Clone, Copy, PartialEq, Debug)]
enum Fate {
    Same,
    Changed,
    Added,
}

fn apply(p: &Prog, e: &Edit) -> (Prog, Vec<(usize, Fate)>, Vec<usize>) {
    // returns (P', [(index in P, fate)] for streams of P' in P' order (Added use usize::MAX), removed indices of P)
    let n = p.streams.len();
    let pick = |i: &u16| ((*i as usize) * n) >> 16;
    let mut q = p.clone();
    let mut fates: Vec<(usize, Fate)> = (0..n).map(|i| (i, Fate::Same)).collect();
    let mut removed = vec![];
    match e {
        Edit::Identity => {}
        Edit::Tweak(i) => {
            let i = pick(i);
            let changed = match &mut q.streams[i] {
                Shape::Filter { cond, .. } => {
                    match cond {
                        Some(Cond::V(_, c)) => *c += 1,
                        Some(other) => *other = Cond::And(Box::new(other.clone()), Box::new(Cond::V(Op::Ge, 1))),
                        None => return (q, fates, removed), // nothing to tweak without changing the op count
                    }
                    true
                }
                Shape::Agg { win, .. } => {
                    *win = match win.clone() {
                        Win::Tumbling(n) => Win::Tumbling(n + 1),
                        Win::Count(n) => Win::Count(n + 1),
                        Win::SlidingTime(a, b) => Win::SlidingTime(a + 1, b),
                        Win::SlidingCount(a, b) => Win::SlidingCount(a + 1, b),
                        Win::Session(n) => Win::Session(n + 1),
                    };
                    true
                }
                Shape::Limit { n, .. } => {
                    *n += 2;
                    true
                }
                Shape::Join { win_s, .. } => {
                    *win_s += 2;
                    true
                }
                Shape::Seq { pat } => {
                    // change the last step's filter
                    let last = pat.steps.len() - 1;
                    if last == 0 {
                        false
                    } else {
                        // keep the surface form: in `sequence(a: A, b: B where ..)` the step filter is part of
                        // the SOURCE clause, in `A as a -> B where ..` it is an operation
                        pat.steps[last].filter = Some(vh_gen::seq::Filter::Const { field: "v".into(), op: Op::Ge, c: vh_gen::V::Int(2) });
                        vh_gen::seq::normalise(pat);
                        true
                    }
                }
                Shape::Distinct { .. } | Shape::JoinDerived { .. } | Shape::Process { .. } => false,
            };
            if changed && q.streams[i] != p.streams[i] {
                fates[i].1 = Fate::Changed;
            }
        }
        Edit::AddOp(i) => {
            let i = pick(i);
            if let Shape::Filter { cond, .. } = &mut q.streams[i] {
                if cond.is_none() {
                    *cond = Some(Cond::V(Op::Ge, 1));
                    fates[i].1 = Fate::Changed;
                }
            }
        }
        Edit::Remove(i) => {
            let i = pick(i);
            // remove i and all streams (transitively) derived from it
            let mut dead: BTreeSet<usize> = [i].into_iter().collect();
            for j in 0..n {
                if let Some(k) = p.streams[j].upstream() {
                    if dead.contains(&k) {
                        dead.insert(j);
                    }
                }
            }
            if dead.len() == n {
                return (q, fates, removed); // keep at least one stream: identity
            }
            // P' keeps the surviving streams under their ORIGINAL names: render by index mapping
            removed = dead.iter().cloned().collect();
        }
        Edit::Add(s) => {
            let mut s = (**s).clone();
            // the new stream reads a base type (derived sources would need index remapping)
            match &mut s {
                Shape::Filter { src, .. } | Shape::Agg { src, .. } | Shape::Distinct { src } | Shape::Limit { src, .. } | Shape::Process { src } => {
                    if matches!(src, Src::Stream(_)) {
                        *src = Src::Ty("A".into());
                    }
                }
                Shape::JoinDerived { .. } => s = Shape::Filter { src: Src::Ty("A".into()), cond: None, emit: Emit::Pass },
                _ => {}
            }
            q.streams.push(s);
            fates.push((usize::MAX, Fate::Added));
        }
    }
    (q, fates, removed)
}

fn render_without(p: &Prog, removed: &[usize]) -> String {
    let body = (0..p.streams.len()).filter(|i| !removed.contains(i)).map(|i| p.render_stream(i)).collect::<Vec<_>>().join("\n");
    // keep the user function that `.process(gen2())` streams call
    if (0..p.streams.len()).any(|i| !removed.contains(&i) && matches!(p.streams[i], Shape::Process { .. })) {
        format!("{}\n{}", PROCESS_FN, body)
    } else {
        body
    }
}

fn per_stream(o: &[OutEv]) -> BTreeMap<String, Vec<OutEv>> {
    let mut m: BTreeMap<String, Vec<OutEv>> = BTreeMap::new();
    for e in o {
        m.entry(e.ty.clone()).or_default().push(e.clone());
    }
    m
}

fn run(c: &Case) -> Outcome {
    let src_p = c.prog.render();
    let (q, fates, removed) = apply(&c.prog, &c.edit);
    let src_q = render_without(&q, &removed);
    let prog_q = match parse(&src_q) {
        Ok(p) => p,
        Err(e) => return Outcome::discard(format!("edited program rejected: {}", vh_common::truncate(&e, 60))),
    };
    let n = c.events.len();
    // streams downstream of a changed/removed stream are "affected": not judged
    let mut affected: BTreeSet<usize> = fates.iter().filter(|(_, f)| *f == Fate::Changed).map(|(i, _)| *i).collect();
    for j in 0..c.prog.streams.len() {
        if let Some(k) = c.prog.streams[j].upstream() {
            if affected.contains(&k) {
                affected.insert(j);
            }
        }
    }
    // uninterrupted P
    let mut base = match Eng::new(&src_p) {
        Ok(e) => e,
        Err(e) => return Outcome::discard(format!("program rejected: {}", vh_common::truncate(&e, 60))),
    };
    let mut base_outs: Vec<Vec<OutEv>> = vec![];
    for ev in &c.events {
        match base.process(ev) {
            Ok(o) => base_outs.push(norm(&o)),
            Err(e) => return Outcome::fail("engine-error", e),
        }
    }
    let kinds = c.prog.kinds();
    let qkinds = q.kinds();
    let edit_name = match &c.edit {
        Edit::Identity => "identity",
        Edit::Tweak(_) => "tweak",
        Edit::AddOp(_) => "add-op",
        Edit::Remove(_) => "remove",
        Edit::Add(_) => "add",
    };
    let effective_identity = fates.iter().all(|(_, f)| *f == Fate::Same) && removed.is_empty();
    let mut fails: Vec<(String, String)> = vec![];
    let mut seen = BTreeSet::new();
    let mut live_state_points = 0;
    for at in 0..=n {
        // engine running P, reloaded with P' after `at` events
        let mut eng = Eng::new(&src_p).unwrap();
        for ev in &c.events[..at] {
            let _ = eng.process(ev);
        }
        let cp = eng.engine.create_checkpoint();
        if cp.window_states.values().any(|w| !w.events.is_empty() || !w.partitions.is_empty()) || cp.sase_states.values().any(|s| !s.active_runs.is_empty() || !s.partitioned_runs.is_empty()) || (!cp.join_states.is_empty() && at > 0) {
            live_state_points += 1;
        }
        if let Err(e) = eng.engine.reload(&prog_q) {
            fails.push((format!("{}:reload-error", edit_name), format!("{}\n--- reload with ---\n{}\n{}", src_p, src_q, e)));
            break;
        }
        let mut got: Vec<OutEv> = vec![];
        for ev in &c.events[at..] {
            match eng.process(ev) {
                Ok(o) => got.extend(norm(&o)),
                Err(e) => {
                    fails.push((format!("{}:engine-error-after-reload", edit_name), e));
                    break;
                }
            }
        }
        let got = per_stream(&got);
        let want_same = per_stream(&base_outs[at..].iter().flatten().cloned().collect::<Vec<_>>());
        // fresh P' on the suffix (for changed / added streams reading base types)
        let mut fresh_outs: Option<BTreeMap<String, Vec<OutEv>>> = None;
        for (qi, (pi, fate)) in fates.iter().enumerate() {
            if removed.contains(pi) {
                // removed streams must be silent
                let name = sname(*pi);
                if got.get(&name).map(|v| !v.is_empty()).unwrap_or(false) && seen.insert(format!("removed:{}", name)) {
                    fails.push((format!("{}:removed-stream-still-emits:{}", edit_name, kinds[*pi]), format!("{}\n--- reload with ---\n{}\nreload after {} events: {} still emitted {:?}", src_p, src_q, at, name, got.get(&name))));
                }
                continue;
            }
            let name = sname(qi);
            let g = got.get(&name).cloned().unwrap_or_default();
            match fate {
                Fate::Same => {
                    if affected.contains(pi) {
                        continue;
                    }
                    let w = want_same.get(&name).cloned().unwrap_or_default();
                    if g != w {
                        let sig = format!("{}:unchanged-stream-differs:{}", if effective_identity { "identity" } else { edit_name }, kinds[*pi]);
                        if seen.insert(sig.clone()) {
                            fails.push((sig, format!("{}\n--- reload with ---\n{}\nreload after {} of {} events: unchanged stream {} continues differently\nnever reloaded: {:?}\nreloaded:       {:?}", src_p, src_q, at, n, name, w, g)));
                        }
                    }
                }
                Fate::Changed | Fate::Added => {
                    let derived = q.streams[qi].upstream().is_some();
                    if derived {
                        continue;
                    }
                    if fresh_outs.is_none() {
                        let mut f = match Eng::new(&src_q) {
                            Ok(e) => e,
                            Err(e) => return Outcome::discard(format!("edited program rejected by engine: {}", vh_common::truncate(&e, 60))),
                        };
                        let mut o = vec![];
                        for ev in &c.events[at..] {
                            if let Ok(x) = f.process(ev) {
                                o.extend(norm(&x));
                            }
                        }
                        fresh_outs = Some(per_stream(&o));
                    }
                    let w = fresh_outs.as_ref().unwrap().get(&name).cloned().unwrap_or_default();
                    if g != w {
                        let sig = format!("{}:{}-stream-not-like-fresh:{}", edit_name, if *fate == Fate::Added { "added" } else { "changed" }, qkinds[qi]);
                        if seen.insert(sig.clone()) {
                            fails.push((sig, format!("{}\n--- reload with ---\n{}\nreload after {} of {} events: stream {} does not behave like a freshly loaded one\nfresh P' on suffix: {:?}\nreloaded:           {:?}", src_p, src_q, at, n, name, w, g)));
                        }
                    }
                }
            }
        }
    }
    if !fails.is_empty() {
        return Outcome::fail_many(fails);
    }
    let stateful = c.prog.streams.iter().any(|s| s.stateful());
    let mut o = Outcome::pass().nontrivial(stateful && live_state_points > 0).class(format!("edit:{}", if effective_identity { "identity" } else { edit_name })).class_if(live_state_points > 0, "reload_with_live_state");
    for k in kinds {
        o = o.class(format!("kind:{}", k));
    }
    o
}

fn main() {
    let check = Check::new("C23", "exploration");
    check.rule("program P of 1-3 streams from the C16 grammar, edit P' in {identity, constant tweak with unchanged operator count (threshold, window size, limit, join window, sequence step filter), added operator, removed stream (+dependants), added stream}, <=30 events, reload at EVERY position. Oracle: (a) a stream whose definition is unchanged (and not downstream of a changed one) emits after the reload exactly what a never-reloaded engine emits; (b) a changed or added stream reading base event types emits exactly what a freshly loaded P' emits on the suffix; (c) removed streams are silent. Signatures carry the edit kind and the operator kind. Non-trivial = P has a stateful stream and some reload point has live state.");
    check.explore("reload", strat, 2_000, 20_000, run);
    check.finish();
}
