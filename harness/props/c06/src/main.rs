//! C06 ZDD operations implement set-family algebra exactly.
mod zddmodel;
use serde::{Deserialize, Serialize};
use vh_common::{Check, Outcome};
use zddmodel::*;

fn compare(m: &Machine, i: usize, what: &str) -> Result<(), (String, String)> {
    let r = &m.regs[i];
    let subsets = all_subsets();
    // standalone
    if r.zdd.count() != r.fam.len() {
        return Err((format!("{}:zdd-count", what), format!("count {} expected {} fam {:?}", r.zdd.count(), r.fam.len(), r.fam)));
    }
    let mut arena = m.arena.clone();
    if arena.count(r.ah) != r.fam.len() || m.arena.count_uncached(r.ah) != r.fam.len() {
        return Err((format!("{}:arena-count", what), format!("count {} expected {} fam {:?}", arena.count(r.ah), r.fam.len(), r.fam)));
    }
    if m.shared.count(r.sh) != r.fam.len() {
        return Err((format!("{}:shared-count", what), format!("count {} expected {}", m.shared.count(r.sh), r.fam.len())));
    }
    for s in &subsets {
        let want = r.fam.contains(&s.iter().cloned().collect::<Set>());
        if r.zdd.contains(s) != want {
            return Err((format!("{}:zdd-contains", what), format!("{:?} want {} fam {:?}", s, want, r.fam)));
        }
        let mut rev = s.clone();
        rev.reverse();
        if m.arena.contains(r.ah, &rev) != want || m.arena.contains_sorted(r.ah, s) != want {
            return Err((format!("{}:arena-contains", what), format!("{:?} want {} fam {:?}", s, want, r.fam)));
        }
        if m.shared.contains(r.sh, s) != want {
            return Err((format!("{}:shared-contains", what), format!("{:?} want {}", s, want)));
        }
    }
    let zi = fam_of_iter(r.zdd.iter()).map_err(|e| (format!("{}:zdd-iter", what), e))?;
    if zi != r.fam {
        return Err((format!("{}:zdd-iter", what), format!("iter {:?} expected {:?}", zi, r.fam)));
    }
    let ai = fam_of_iter(m.arena.iter(r.ah)).map_err(|e| (format!("{}:arena-iter", what), e))?;
    if ai != r.fam {
        return Err((format!("{}:arena-iter", what), format!("iter {:?} expected {:?}", ai, r.fam)));
    }
    let mut ts: Vec<Vec<u32>> = r.zdd.to_sets();
    ts.sort();
    let want: Vec<Vec<u32>> = r.fam.iter().map(|s| s.iter().cloned().collect()).collect();
    let mut w2 = want.clone();
    w2.sort();
    if ts != w2 {
        return Err((format!("{}:zdd-to_sets", what), format!("{:?} expected {:?}", ts, w2)));
    }
    Ok(())
}

fn opname(op: &Op) -> &'static str {
    match op {
        Op::Empty => "empty",
        Op::Base => "base",
        Op::Singleton(_) => "singleton",
        Op::FromSet(_) => "from_set",
        Op::Union(..) => "union",
        Op::Inter(..) => "intersection",
        Op::Diff(..) => "difference",
        Op::Product(..) => "product",
        Op::Pwo(..) => "product_with_optional",
        Op::Rebuild(..) => "rebuild",
        Op::Gc(_) => "gc",
    }
}

fn run_history(h: &History) -> Outcome {
    let mut m = Machine::new();
    for op in &h.ops {
        match m.apply(op) {
            Some(i) => {
                if let Err((sig, d)) = compare(&m, i, opname(op)) {
                    return Outcome::fail(sig, format!("after op {:?}: {}", op, d));
                }
            }
            None => {
                if matches!(op, Op::Gc(_)) {
                    for i in m.live() {
                        if let Err((sig, d)) = compare(&m, i, "after-gc") {
                            return Outcome::fail(sig, d);
                        }
                    }
                }
            }
        }
    }
    Outcome::pass()
        .nontrivial(m.mixed_top_nonempty > 0 || m.ops_after_gc > 0)
        .class_if(m.mixed_top_nonempty > 0, "binop_different_top_var_nonempty")
        .class_if(m.ops_after_gc > 0, "op_after_gc")
        .class_if(m.gc_dropped_nodes > 0, "gc_dropped_nodes")
}

/// exhaustive block: a pair of families over the first `nv` variables, each given as a bitmask over subsets
#[derive(Clone, Debug, Serialize, Deserialize)]
struct Pair {
    nv: u8,
    a: u32,
    b: u32,
}

fn fam_from_mask(nv: u8, mask: u32) -> Fam {
    let mut f = Fam::new();
    for s in 0..(1u32 << nv) {
        if mask >> s & 1 == 1 {
            f.insert((0..nv as usize).filter(|i| s >> i & 1 == 1).map(|i| VARS[i]).collect());
        }
    }
    f
}

fn run_pair(p: &Pair) -> Outcome {
    let (fa, fb) = (fam_from_mask(p.nv, p.a), fam_from_mask(p.nv, p.b));
    let mut m = Machine::new();
    let (za, zb) = (zdd_from_fam(&fa, 0), zdd_from_fam(&fb, 0));
    let (aa, ab) = (arena_from_fam(&mut m.arena, &fa, 0), arena_from_fam(&mut m.arena, &fb, 0));
    let (sa, sb) = (shared_from_fam(&m.shared, &fa, 0), shared_from_fam(&m.shared, &fb, 0));
    m.regs.push(Reg { fam: fa, zdd: za, ah: aa, sh: sa, live: true });
    m.regs.push(Reg { fam: fb, zdd: zb, ah: ab, sh: sb, live: true });
    for i in 0..2 {
        if let Err((sig, d)) = compare(&m, i, "build") {
            return Outcome::fail(sig, d);
        }
    }
    for op in [Op::Union(0, 65535), Op::Inter(0, 65535), Op::Diff(0, 65535), Op::Diff(65535, 0), Op::Product(0, 65535)] {
        // operands: register 0 and 1 are the first two live registers; later results are appended after them
        let mut mm_op = op.clone();
        // map u16 operands so that they always select registers 0 and 1
        let n = m.live().len();
        let sel = |k: usize| -> u16 { (((k * 65536) / n) + 1).min(65535) as u16 };
        mm_op = match mm_op {
            Op::Union(..) => Op::Union(sel(0), sel(1)),
            Op::Inter(..) => Op::Inter(sel(0), sel(1)),
            Op::Diff(0, _) => Op::Diff(sel(0), sel(1)),
            Op::Diff(..) => Op::Diff(sel(1), sel(0)),
            _ => Op::Product(sel(0), sel(1)),
        };
        let i = m.apply(&mm_op).unwrap();
        if let Err((sig, d)) = compare(&m, i, opname(&mm_op)) {
            return Outcome::fail(sig, format!("pair a={:?} b={:?} op {:?}: {}", m.regs[0].fam, m.regs[1].fam, mm_op, d));
        }
    }
    Outcome::pass().nontrivial(p.a != p.b && p.a != 0 && p.b != 0)
}

fn main() {
    let check = Check::new("C06", "exploration");
    check.rule("(a) random operation histories (<=24 ops: empty/base/singleton/from_set/union/intersection/difference/product/product_with_optional/rebuild/arena-gc) over 5 non-contiguous variables, executed in lock-step in a BTreeSet<BTreeSet<u32>> reference, the standalone Zdd, ZddArena and SharedArena; after every op count, contains (all 32 subsets), iter, to_sets are compared with the reference. Non-trivial = a binary op whose operands have different smallest variables with non-empty result, or any op after a gc. (b) exhaustive: every ordered pair of families over 3 variables (65536 pairs) x {union, intersection, difference both ways, product}; non-trivial = distinct non-empty operands.");
    check.assume("reference model: std BTreeSet algebra");
    check.explore("histories", || history(24, true), 80_000, 1_000_000, run_history);
    let nv: u8 = 3;
    let nfam = 1u32 << (1u32 << nv);
    let mut pairs = Vec::with_capacity((nfam * nfam) as usize);
    for a in 0..nfam {
        for b in 0..nfam {
            pairs.push(Pair { nv, a, b });
        }
    }
    check.enumerate("all_pairs", pairs, run_pair);
    check.finish();
}
