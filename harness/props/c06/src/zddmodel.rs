//! Shared by C06 and C07: operation histories over families of sets, executed in the
//! reference model (BTreeSet<BTreeSet<u32>>), the standalone `Zdd`, `ZddArena` and `SharedArena`.
use proptest::prelude::*;
use serde::{Deserialize, Serialize};
use std::collections::BTreeSet;
use varpulis_zdd::arena::{SharedArena, ZddArena, ZddHandle};
use varpulis_zdd::Zdd;

pub type Set = BTreeSet<u32>;
pub type Fam = BTreeSet<Set>;

/// variable ids actually used (non-contiguous on purpose)
pub const VARS: [u32; 5] = [0, 1, 2, 5, 9];

#[derive(Clone, Debug, Serialize, Deserialize)]
pub enum Op {
    Empty,
    Base,
    Singleton(u8),
    /// elements may be unsorted / duplicated (API sorts+dedups)
    FromSet(Vec<u8>),
    Union(u16, u16),
    Inter(u16, u16),
    Diff(u16, u16),
    /// standalone-only API; arena registers are rebuilt from the reference result
    Product(u16, u16),
    Pwo(u16, u8),
    /// build the family of a register again by another route (unions of from_set in a rotated order)
    Rebuild(u16, u8),
    /// arena gc keeping the registers whose mask bit is set (at least one)
    Gc(Vec<bool>),
}

#[derive(Clone, Debug, Serialize, Deserialize)]
pub struct History {
    pub ops: Vec<Op>,
}

pub fn op_strategy(with_gc: bool) -> BoxedStrategy<Op> {
    let v = 0u8..5;
    let base = prop_oneof![
        1 => Just(Op::Empty),
        2 => Just(Op::Base),
        3 => v.clone().prop_map(Op::Singleton),
        4 => proptest::collection::vec(0u8..5, 0..5).prop_map(Op::FromSet),
        6 => (any::<u16>(), any::<u16>()).prop_map(|(a, b)| Op::Union(a, b)),
        5 => (any::<u16>(), any::<u16>()).prop_map(|(a, b)| Op::Inter(a, b)),
        6 => (any::<u16>(), any::<u16>()).prop_map(|(a, b)| Op::Diff(a, b)),
        3 => (any::<u16>(), any::<u16>()).prop_map(|(a, b)| Op::Product(a, b)),
        6 => (any::<u16>(), v).prop_map(|(a, x)| Op::Pwo(a, x)),
        3 => (any::<u16>(), any::<u8>()).prop_map(|(a, x)| Op::Rebuild(a, x)),
    ];
    if with_gc {
        prop_oneof![18 => base, 2 => proptest::collection::vec(any::<bool>(), 1..8).prop_map(Op::Gc)].boxed()
    } else {
        base.boxed()
    }
}

pub fn history(max_ops: usize, with_gc: bool) -> impl Strategy<Value = History> {
    proptest::collection::vec(op_strategy(with_gc), 1..max_ops).prop_map(|ops| History { ops })
}

pub fn all_subsets() -> Vec<Vec<u32>> {
    (0u32..32).map(|m| (0..5).filter(|i| m >> i & 1 == 1).map(|i| VARS[i]).collect()).collect()
}

pub fn ref_product(a: &Fam, b: &Fam) -> Fam {
    let mut r = Fam::new();
    for x in a {
        for y in b {
            r.insert(x.union(y).cloned().collect());
        }
    }
    r
}

pub fn ref_pwo(a: &Fam, v: u32) -> Fam {
    let mut r = a.clone();
    for x in a {
        let mut y = x.clone();
        y.insert(v);
        r.insert(y);
    }
    r
}

pub fn zdd_from_fam(f: &Fam, rot: usize) -> Zdd {
    let mut sets: Vec<Vec<u32>> = f.iter().map(|s| s.iter().cloned().collect()).collect();
    if !sets.is_empty() {
        let n = sets.len();
        sets.rotate_left(rot % n);
        if rot & 128 != 0 {
            sets.reverse();
        }
    }
    let mut z = Zdd::empty();
    for s in sets {
        z = z.union(&Zdd::from_set(&s));
    }
    z
}

pub fn arena_from_fam(a: &mut ZddArena, f: &Fam, rot: usize) -> ZddHandle {
    let mut sets: Vec<Vec<u32>> = f.iter().map(|s| s.iter().cloned().collect()).collect();
    if !sets.is_empty() {
        let n = sets.len();
        sets.rotate_left(rot % n);
        if rot & 128 != 0 {
            sets.reverse();
        }
    }
    let mut h = a.empty();
    for s in sets {
        let x = a.from_set(&s);
        h = a.union(h, x);
    }
    h
}

pub fn shared_from_fam(a: &SharedArena, f: &Fam, rot: usize) -> ZddHandle {
    let mut sets: Vec<Vec<u32>> = f.iter().map(|s| s.iter().cloned().collect()).collect();
    if !sets.is_empty() {
        let n = sets.len();
        sets.rotate_left(rot % n);
        if rot & 128 != 0 {
            sets.reverse();
        }
    }
    let mut h = a.empty();
    for s in sets {
        let x = a.from_set(&s);
        h = a.union(h, x);
    }
    h
}

/// One register: the same family in all four representations (None = dead after gc).
pub struct Reg {
    pub fam: Fam,
    pub zdd: Zdd,
    pub ah: ZddHandle,
    pub sh: ZddHandle,
    pub live: bool,
}

pub struct Machine {
    pub regs: Vec<Reg>,
    pub arena: ZddArena,
    pub shared: SharedArena,
    pub gcs: usize,
    pub gc_dropped_nodes: usize,
    pub ops_after_gc: usize,
    pub mixed_top_nonempty: usize,
}

pub fn pick(i: u16, len: usize) -> usize {
    ((i as usize) * len) >> 16
}

impl Machine {
    pub fn new() -> Machine {
        Machine { regs: vec![], arena: ZddArena::new(), shared: SharedArena::new(), gcs: 0, gc_dropped_nodes: 0, ops_after_gc: 0, mixed_top_nonempty: 0 }
    }
    pub fn live(&self) -> Vec<usize> {
        (0..self.regs.len()).filter(|&i| self.regs[i].live).collect()
    }
    fn operand(&self, i: u16) -> Option<usize> {
        let l = self.live();
        if l.is_empty() {
            None
        } else {
            Some(l[pick(i, l.len())])
        }
    }
    /// Apply one op; returns the index of the new register (None for gc / no-op).
    pub fn apply(&mut self, op: &Op) -> Option<usize> {
        let new = |m: &mut Machine, fam: Fam, zdd: Zdd, ah: ZddHandle, sh: ZddHandle| {
            m.regs.push(Reg { fam, zdd, ah, sh, live: true });
            if m.gcs > 0 {
                m.ops_after_gc += 1;
            }
            Some(m.regs.len() - 1)
        };
        match op {
            Op::Empty => {
                let (ah, sh) = (self.arena.empty(), self.shared.empty());
                new(self, Fam::new(), Zdd::empty(), ah, sh)
            }
            Op::Base => {
                let (ah, sh) = (self.arena.base(), self.shared.base());
                new(self, [Set::new()].into_iter().collect(), Zdd::base(), ah, sh)
            }
            Op::Singleton(v) => {
                let v = VARS[*v as usize % 5];
                let (ah, sh) = (self.arena.singleton(v), self.shared.singleton(v));
                new(self, [[v].into_iter().collect::<Set>()].into_iter().collect(), Zdd::singleton(v), ah, sh)
            }
            Op::FromSet(xs) => {
                let xs: Vec<u32> = xs.iter().map(|v| VARS[*v as usize % 5]).collect();
                let (ah, sh) = (self.arena.from_set(&xs), self.shared.from_set(&xs));
                new(self, [xs.iter().cloned().collect::<Set>()].into_iter().collect(), Zdd::from_set(&xs), ah, sh)
            }
            Op::Union(a, b) | Op::Inter(a, b) | Op::Diff(a, b) | Op::Product(a, b) => {
                let (Some(a), Some(b)) = (self.operand(*a), self.operand(*b)) else { return None };
                let (ra, rb) = (&self.regs[a], &self.regs[b]);
                let fam: Fam = match op {
                    Op::Union(..) => ra.fam.union(&rb.fam).cloned().collect(),
                    Op::Inter(..) => ra.fam.intersection(&rb.fam).cloned().collect(),
                    Op::Diff(..) => ra.fam.difference(&rb.fam).cloned().collect(),
                    _ => ref_product(&ra.fam, &rb.fam),
                };
                let top = |f: &Fam| f.iter().filter_map(|s| s.iter().next().cloned()).min();
                if top(&ra.fam) != top(&rb.fam) && !fam.is_empty() {
                    self.mixed_top_nonempty += 1;
                }
                let zdd = match op {
                    Op::Union(..) => ra.zdd.union(&rb.zdd),
                    Op::Inter(..) => ra.zdd.intersection(&rb.zdd),
                    Op::Diff(..) => ra.zdd.difference(&rb.zdd),
                    _ => ra.zdd.product(&rb.zdd),
                };
                let (aa, ab, sa, sb) = (ra.ah, rb.ah, ra.sh, rb.sh);
                let (ah, sh) = match op {
                    Op::Union(..) => (self.arena.union(aa, ab), self.shared.union(sa, sb)),
                    Op::Inter(..) => (self.arena.intersection(aa, ab), self.shared.intersection(sa, sb)),
                    Op::Diff(..) => (self.arena.difference(aa, ab), self.shared.difference(sa, sb)),
                    _ => (arena_from_fam(&mut self.arena, &fam, 0), shared_from_fam(&self.shared, &fam, 0)),
                };
                new(self, fam, zdd, ah, sh)
            }
            Op::Pwo(a, v) => {
                let a = self.operand(*a)?;
                let v = VARS[*v as usize % 5];
                let ra = &self.regs[a];
                let fam = ref_pwo(&ra.fam, v);
                let zdd = ra.zdd.product_with_optional(v);
                let (aa, sa) = (ra.ah, ra.sh);
                let (ah, sh) = (self.arena.product_with_optional(aa, v), self.shared.product_with_optional(sa, v));
                new(self, fam, zdd, ah, sh)
            }
            Op::Rebuild(a, rot) => {
                let a = self.operand(*a)?;
                let fam = self.regs[a].fam.clone();
                let zdd = zdd_from_fam(&fam, *rot as usize);
                let ah = arena_from_fam(&mut self.arena, &fam, *rot as usize);
                let sh = shared_from_fam(&self.shared, &fam, *rot as usize);
                new(self, fam, zdd, ah, sh)
            }
            Op::Gc(mask) => {
                let live = self.live();
                if live.is_empty() {
                    return None;
                }
                let mut keep: Vec<usize> = live.iter().enumerate().filter(|(j, _)| mask[j % mask.len()]).map(|(_, i)| *i).collect();
                if keep.is_empty() {
                    keep.push(live[0]);
                }
                let ahs: Vec<ZddHandle> = keep.iter().map(|&i| self.regs[i].ah).collect();
                let shs: Vec<ZddHandle> = keep.iter().map(|&i| self.regs[i].sh).collect();
                let (st, nah) = self.arena.gc(&ahs);
                let (_, nsh) = self.shared.gc(&shs);
                self.gcs += 1;
                self.gc_dropped_nodes += st.nodes_before.saturating_sub(st.nodes_after);
                for i in live {
                    self.regs[i].live = false;
                }
                for (j, &i) in keep.iter().enumerate() {
                    self.regs[i].live = true;
                    self.regs[i].ah = nah[j];
                    self.regs[i].sh = nsh[j];
                }
                None
            }
        }
    }
}

pub fn fam_of_iter<I: Iterator<Item = Vec<u32>>>(it: I) -> Result<Fam, String> {
    let mut f = Fam::new();
    for s in it {
        if !s.windows(2).all(|w| w[0] < w[1]) {
            return Err(format!("iterated member not strictly ascending: {:?}", s));
        }
        if !f.insert(s.iter().cloned().collect()) {
            return Err(format!("iterated member yielded twice: {:?}", s));
        }
    }
    Ok(f)
}
