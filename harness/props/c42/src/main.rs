//! C42 Declaration for-loops expand to the same program as writing the copies by hand.
//!
//! A case is a *structured* program (declarations, comments, blank lines, loops with
//! nested loops).  It is rendered twice: (a) with `for VAR in A..B:` blocks, (b) expanded
//! by the harness by recursion over the structure (a different route than the parser's
//! iterative line-based expansion).  Oracle: `parse(a)` and `parse(b)` are the same
//! program modulo spans, or neither parses.
use proptest::prelude::*;
use serde::{Deserialize, Serialize};
use varpulis_core::ast::{Program, Stmt};
use varpulis_core::span::{Span, Spanned};
use vh_common::{Check, Outcome};
use vh_gen::vplsrc::Tape;

#[derive(Clone, Debug, Serialize, Deserialize)]
enum Item {
    /// template lines: first line at relative indent 0, continuation lines carry their own relative indent
    Decl(Vec<String>),
    Blank,
    Comment(String),
    Loop(Box<Loop>),
}

#[derive(Clone, Debug, Serialize, Deserialize)]
struct Loop {
    var: String,
    /// textual bounds (an integer literal or a `{outer}` placeholder)
    start: String,
    end: String,
    inclusive: bool,
    header_style: u8,
    body: Vec<Item>,
}

#[derive(Clone, Debug, Serialize, Deserialize)]
struct Case {
    /// body indentation unit
    unit: String,
    crlf: bool,
    trailing_newline: bool,
    items: Vec<Item>,
}

// ---------------------------------------------------------------- generation

const OUTER_VARS: &[&str] = &["i", "r", "row", "idx_1"];
const INNER_VARS: &[&str] = &["j", "c", "col", "k2"];

/// `{V}` = innermost loop variable in scope, `{U}` = outermost
const TEMPLATES: &[&[&str]] = &[
    &["context c{V}"],
    &["context t{U}_{V}"],
    &["stream S{V} = E{V}", "    .where(x > {V})", "    .emit(k: {V}, name: \"s{V}\")"],
    &["stream T{U}_{V} = Tick", "    .context(c{U})", "    .window(1{V})", "    .aggregate(total: sum(value) + {U})", "    .emit(total: total)"],
    &["connector C{V} = mqtt (host: \"h{V}\", port: 188{V})"],
    &["const K{V} = {V} * 10 + {U}"],
    &["var v{V}: int = {V}"],
    &["event Ev{V}:", "    x{V}: int", "    name: str"],
    &["fn f{V}(a: int) -> int:", "    if a > {V}:", "        return a + {U}", "    return {V}"],
    &["pattern P{V} = SEQ(A, B+ where x > {V}) within 5m"],
    &["stream Q{V} = A as a", "    -> B where x == a.x + {V} as b", "    .within(1{V}s)", "    .emit(d: b.x - {U})"],
    &["stream N{V} = Trade", "", "    .where(price > {V})", "    # about {V}", "    .emit(p: price)"],
    &["stream Plain = Trade", "    .emit(v: 1)"],
    &["stream M{V} = merge(A, stream B{V} = B.where(x == {V}))", "    .emit(topic: \"t/{U}/{V}\")"],
    &["fn g{V}():", "    for q in 0..{V}:", "        let z = q + {U}", "    return 0"],
    &["let w{V} = [{U}, {V}, {V}..5][0]"],
];

const PLAIN_TOP: &[&[&str]] = &[
    &["stream Before = Trade", "    .where(price > 1)"],
    &["fn helper(a: int) -> int:", "    for q in 0..3:", "        let z = q", "    return a"],
    &["event Base:", "    id: int"],
    &["context main_ctx"],
    &["connector Out = mqtt (host: \"localhost\", port: 1883)"],
    &["# a top-level comment with {i}"],
];

fn decl(t: &mut Tape, scope: &[String], rel: &str) -> Item {
    let tpl = TEMPLATES[t.below(TEMPLATES.len())];
    let inner = scope.last().cloned().unwrap_or_else(|| "i".into());
    let outer = scope.first().cloned().unwrap_or_else(|| "i".into());
    Item::Decl(
        tpl.iter()
            .map(|l| {
                let body = l.trim_start_matches(' ');
                let levels = (l.len() - body.len()) / 4;
                format!("{}{}", rel.repeat(levels), body.replace("{V}", &format!("{{{}}}", inner)).replace("{U}", &format!("{{{}}}", outer)))
            })
            .collect(),
    )
}

fn gen_loop(t: &mut Tape, scope: &mut Vec<String>, depth: usize, rel: &str) -> Loop {
    let var = if scope.is_empty() { t.of(OUTER_VARS) } else { t.of(INNER_VARS) }.to_string();
    // negative starts make `{i}` in identifier position unparsable (`c-1`) on both sides: keep them a minority
    let start_v = if t.chance(1, 10) { -1 - t.below(2) as i64 } else { t.below(4) as i64 };
    let len = match t.below(8) {
        0 => 0,
        1 => 1,
        7 => -(1 + t.below(2) as i64), // reversed range: empty
        k => k as i64, // 2..=6
    };
    let inclusive = t.chance(1, 3);
    let mut start = start_v.to_string();
    let mut end = if inclusive { start_v + len - 1 } else { start_v + len }.to_string();
    if let Some(outer) = scope.first() {
        // bounds that depend on the outer variable (substituted by the outer expansion)
        match t.below(6) {
            0 => end = format!("{{{}}}", outer),
            1 => start = format!("{{{}}}", outer),
            _ => {}
        }
    }
    scope.push(var.clone());
    let n = 1 + t.below(4);
    let mut body = vec![];
    for _ in 0..n {
        let item = match t.below(10) {
            0 => Item::Blank,
            1 => Item::Comment(format!("tile {{{}}} of {}", var, t.below(9))),
            2 | 3 if depth > 0 => Item::Loop(Box::new(gen_loop(t, scope, depth - 1, rel))),
            _ => decl(t, scope, rel),
        };
        body.push(item);
    }
    // a body needs at least one non-blank line to be a body at all
    if !body.iter().any(|i| !matches!(i, Item::Blank)) {
        body.push(decl(t, scope, rel));
    }
    scope.pop();
    Loop { var, start, end, inclusive, header_style: t.below(6) as u8, body }
}

fn gen_case(tape: &[u16]) -> Case {
    let mut t = Tape::new(tape);
    let unit = t.of(&["    ", "    ", "  ", "\t", "        ", " "]).to_string();
    let rel = t.of(&["    ", "    ", "  ", "\t"]).to_string();
    let crlf = t.chance(1, 8);
    let trailing_newline = !t.chance(1, 5);
    let mut items = vec![];
    let n = 1 + t.below(4);
    let mut have_loop = false;
    for k in 0..n {
        let want_loop = (k + 1 == n && !have_loop) || t.chance(1, 2);
        if want_loop {
            have_loop = true;
            let mut scope = vec![];
            items.push(Item::Loop(Box::new(gen_loop(&mut t, &mut scope, 1, &rel))));
        } else {
            match t.below(5) {
                0 => items.push(Item::Blank),
                _ => {
                    let tpl = PLAIN_TOP[t.below(PLAIN_TOP.len())];
                    items.push(Item::Decl(tpl.iter().map(|s| s.to_string()).collect()));
                }
            }
        }
    }
    Case { unit, crlf, trailing_newline, items }
}

// ---------------------------------------------------------------- rendering

fn header(l: &Loop) -> String {
    let op = if l.inclusive { "..=" } else { ".." };
    match l.header_style {
        0 | 1 => format!("for {} in {}{}{}:", l.var, l.start, op, l.end),
        2 => format!("for {} in {} {} {}:", l.var, l.start, op, l.end),
        3 => format!("for  {}  in  {}{}{}:", l.var, l.start, op, l.end),
        4 => format!("for {} in {}{}{}:   ", l.var, l.start, op, l.end),
        _ => format!("for {} in {}{}{} :", l.var, l.start, op, l.end),
    }
}

/// (a) the program written with loops
fn render_loops(items: &[Item], level: usize, unit: &str, out: &mut Vec<String>) {
    let pad = unit.repeat(level);
    for it in items {
        match it {
            Item::Decl(lines) => {
                for l in lines {
                    out.push(if l.is_empty() { String::new() } else { format!("{}{}", pad, l) });
                }
            }
            Item::Blank => out.push(String::new()),
            Item::Comment(c) => out.push(format!("{}# {}", pad, c)),
            Item::Loop(l) => {
                out.push(format!("{}{}", pad, header(l)));
                render_loops(&l.body, level + 1, unit, out);
            }
        }
    }
}

fn subst(s: &str, env: &[(String, i64)]) -> String {
    let mut r = s.to_string();
    for (var, val) in env {
        r = r.replace(&format!("{{{}}}", var), &val.to_string());
    }
    r
}

/// (b) the copies written by hand: recursion over the structure, innermost values substituted
/// together with the outer ones.  Returns None when a bound is not an integer after substitution
/// (cannot happen with generated cases).
fn render_by_hand(items: &[Item], env: &mut Vec<(String, i64)>, out: &mut Vec<String>, copies: &mut usize) -> Option<()> {
    for it in items {
        match it {
            Item::Decl(lines) => {
                for l in lines {
                    out.push(subst(l, env));
                }
            }
            Item::Blank => out.push(String::new()),
            Item::Comment(c) => out.push(format!("# {}", subst(c, env))),
            Item::Loop(l) => {
                let start: i64 = subst(&l.start, env).parse().ok()?;
                let end: i64 = subst(&l.end, env).parse().ok()?;
                let end = if l.inclusive { end + 1 } else { end };
                let mut v = start;
                while v < end {
                    env.push((l.var.clone(), v));
                    *copies += 1;
                    render_by_hand(&l.body, env, out, copies)?;
                    env.pop();
                    v += 1;
                }
            }
        }
    }
    Some(())
}

fn finish_text(lines: &[String], c: &Case) -> String {
    let nl = if c.crlf { "\r\n" } else { "\n" };
    let mut s = lines.join(nl);
    if c.trailing_newline {
        s.push_str(nl);
    }
    s
}

// ---------------------------------------------------------------- comparison modulo spans

fn strip_block(b: &mut [Spanned<Stmt>]) {
    for s in b {
        strip(s);
    }
}

fn strip(s: &mut Spanned<Stmt>) {
    s.span = Span::dummy();
    match &mut s.node {
        Stmt::FnDecl { body, .. } | Stmt::For { body, .. } | Stmt::While { body, .. } => strip_block(body),
        Stmt::If { then_branch, elif_branches, else_branch, .. } => {
            strip_block(then_branch);
            for (_, b) in elif_branches {
                strip_block(b);
            }
            if let Some(b) = else_branch {
                strip_block(b);
            }
        }
        _ => {}
    }
}

fn normalised(mut p: Program) -> Program {
    strip_block(&mut p.statements);
    p
}

fn stats(items: &[Item], depth: usize, max_depth: &mut usize, max_len: &mut i64, multi_line_body: &mut bool, dep_bounds: &mut bool, empty: &mut bool) {
    for it in items {
        if let Item::Loop(l) = it {
            *max_depth = (*max_depth).max(depth + 1);
            if let (Ok(a), Ok(b)) = (l.start.parse::<i64>(), l.end.parse::<i64>()) {
                let len = (if l.inclusive { b + 1 } else { b }) - a;
                *max_len = (*max_len).max(len);
                if len <= 0 {
                    *empty = true;
                }
            } else {
                *dep_bounds = true;
            }
            let body_lines: usize = l
                .body
                .iter()
                .map(|i| match i {
                    Item::Decl(ls) => ls.len(),
                    Item::Loop(_) => 2,
                    _ => 1,
                })
                .sum();
            if body_lines >= 2 {
                *multi_line_body = true;
            }
            stats(&l.body, depth + 1, max_depth, max_len, multi_line_body, dep_bounds, empty);
        }
    }
}

fn judge(c: &Case) -> Outcome {
    let mut a_lines = vec![];
    render_loops(&c.items, 0, &c.unit, &mut a_lines);
    let mut b_lines = vec![];
    let mut copies = 0usize;
    if render_by_hand(&c.items, &mut vec![], &mut b_lines, &mut copies).is_none() {
        return Outcome::discard("non-integer bound");
    }
    let a_src = finish_text(&a_lines, c);
    let b_src = finish_text(&b_lines, c);
    let (mut depth, mut max_len, mut multi, mut dep, mut empty) = (0usize, i64::MIN, false, false, false);
    stats(&c.items, 0, &mut depth, &mut max_len, &mut multi, &mut dep, &mut empty);
    let pa = varpulis_parser::parse(&a_src);
    let pb = varpulis_parser::parse(&b_src);
    let out = match (pa, pb) {
        (Ok(a), Ok(b)) => {
            let (a, b) = (normalised(a), normalised(b));
            if a != b || format!("{:?}", a) != format!("{:?}", b) {
                let (da, db) = (format!("{:?}", a.statements), format!("{:?}", b.statements));
                let i = a.statements.iter().zip(b.statements.iter()).position(|(x, y)| x != y).unwrap_or(a.statements.len().min(b.statements.len()));
                let kind = if a.statements.len() != b.statements.len() { "statement-count" } else { "statement-content" };
                return Outcome::fail(
                    format!("expansion-differs:{}:depth{}", kind, depth),
                    format!(
                        "with loops: {} statements, by hand: {}; first difference at statement {}: loops={} hand={}\n--- loop source ---\n{}\n--- hand expansion ---\n{}\n(full: {} vs {})",
                        a.statements.len(),
                        b.statements.len(),
                        i,
                        a.statements.get(i).map(|s| format!("{:?}", s.node)).unwrap_or_default(),
                        b.statements.get(i).map(|s| format!("{:?}", s.node)).unwrap_or_default(),
                        a_src,
                        b_src,
                        vh_common::truncate(&da, 300),
                        vh_common::truncate(&db, 300)
                    ),
                );
            }
            Outcome::pass().nontrivial(max_len >= 2 && multi).class("both_parse").class(format!("statements:{}", match a.statements.len() {
                0 => "0",
                1..=3 => "1-3",
                4..=10 => "4-10",
                _ => ">10",
            }))
        }
        (Err(ea), Err(eb)) => {
            if std::env::var("VERIF_C42_DEBUG").is_ok() {
                eprintln!("NEITHER: loops: {} | hand: {}\n{}\n----", ea, eb, b_src);
            }
            Outcome::pass().class("neither_parses")
        }
        (Err(e), Ok(_)) => {
            return Outcome::fail(format!("only-hand-expansion-parses:depth{}", depth), format!("loop source fails: {}\n--- loop source ---\n{}\n--- hand expansion ---\n{}", e, a_src, b_src));
        }
        (Ok(_), Err(e)) => {
            return Outcome::fail(format!("only-loop-source-parses:depth{}", depth), format!("hand expansion fails: {}\n--- loop source ---\n{}\n--- hand expansion ---\n{}", e, a_src, b_src));
        }
    };
    out.class(format!("nesting:{}", depth))
        .class_if(max_len >= 2, "range_len>=2")
        .class_if(multi, "multi_line_body")
        .class_if(dep, "inner_bound_from_outer_var")
        .class_if(empty, "has_empty_range")
        .class_if(c.crlf, "crlf")
        .class_if(c.unit == "\t", "tab_indent")
        .class_if(!c.trailing_newline, "no_trailing_newline")
        .class(format!("copies:{}", match copies {
            0 => "0",
            1..=3 => "1-3",
            4..=12 => "4-12",
            _ => ">12",
        }))
}

fn main() {
    let check = Check::new("C42", "exploration");
    check.rule("structured programs: 1-4 top-level items (plain declarations or `for VAR in A..B:` blocks, `..`/`..=`, ranges of length 0-6 incl. negative starts and reversed ranges, nesting <=2 with distinct variable names, inner bounds possibly `{outer}`), bodies of 1-4 items from 16 declaration templates (context/stream with continuation lines/connector/const/var/event/fn with block/pattern/merge, placeholders of inner and outer variable, also inside strings and comments), comments and blank lines inside bodies, 6 indentation units, 6 header spacings, CRLF; oracle: parse(loop text) == parse(structure expanded by the harness recursively) modulo statement spans, or neither parses; non-trivial = some range length >= 2 and a body of >= 2 lines (distinct by case)");
    check.assume("well-formed bodies only (body lines indented at least as much as the first body line); loop variables of nested loops are distinct (shadowing is not decided by the statement)");
    check.explore("loops", || proptest::collection::vec(any::<u16>(), 0..300).prop_map(|tape| gen_case(&tape)), 5_000, 80_000, judge);
    check.finish();
}
