//! C16 All event-processing entry points produce the same outputs.
use proptest::prelude::*;
use serde::{Deserialize, Serialize};
use std::collections::BTreeMap;
use vh_common::{Check, Outcome};
use vh_gen::engine::{norm, Eng};
use vh_gen::prog::*;
use vh_gen::{Ev, OutEv};

#[derive(Clone, Debug, Serialize, Deserialize)]
struct Case {
    prog: Prog,
    events: Vec<Ev>,
    cuts: Vec<u16>,
}

fn strat() -> impl Strategy<Value = Case> {
    (prog(ProgOpts::full()), events(60), proptest::collection::vec(any::<u16>(), 0..6)).prop_map(|(prog, events, cuts)| Case { prog, events, cuts })
}

#[derive(Clone, Copy, Debug, PartialEq)]
enum Path {
    Single,
    Batch,
    BatchSync,
    BatchShared,
}

fn run_path(src: &str, c: &Case, path: Path) -> Result<Vec<OutEv>, String> {
    let mut eng = Eng::new(src)?;
    let mut out = vec![];
    let pts = split_points(c.events.len(), &c.cuts);
    for w in pts.windows(2) {
        let batch = &c.events[w[0]..w[1]];
        if batch.is_empty() {
            continue;
        }
        let o = match path {
            Path::Single => eng.process_all(batch)?,
            Path::Batch => eng.process_batch(batch)?,
            Path::BatchSync => eng.process_batch_sync(batch)?,
            Path::BatchShared => eng.process_batch_shared(batch)?,
        };
        out.extend(norm(&o));
    }
    Ok(out)
}

fn per_stream(o: &[OutEv]) -> BTreeMap<String, Vec<OutEv>> {
    let mut m: BTreeMap<String, Vec<OutEv>> = BTreeMap::new();
    for e in o {
        m.entry(e.ty.clone()).or_default().push(e.clone());
    }
    m
}

fn run(c: &Case) -> Outcome {
    let src = c.prog.render();
    let base = match run_path(&src, c, Path::Single) {
        Ok(o) => o,
        Err(e) => {
            if e.starts_with("parse") || e.starts_with("load") {
                return Outcome::discard(format!("program rejected: {}", vh_common::truncate(&e, 80)));
            }
            return Outcome::fail("single:error", e);
        }
    };
    let kinds = c.prog.kinds();
    let mut fails: Vec<(String, String)> = vec![];
    for (path, pname) in [(Path::Batch, "batch"), (Path::BatchSync, "sync"), (Path::BatchShared, "shared")] {
        let got = match run_path(&src, c, path) {
            Ok(o) => o,
            Err(e) => {
                fails.push((format!("{}:error", pname), format!("{}\n{}", src, e)));
                continue;
            }
        };
        if got == base {
            continue;
        }
        let (mut a, mut b) = (base.clone(), got.clone());
        a.sort();
        b.sort();
        let detail = |what: &str| format!("{}\n{} path vs one-by-one: {}\none-by-one: {:?}\n{}: {:?}\nbatches at {:?}", src, pname, what, base, pname, got, split_points(c.events.len(), &c.cuts));
        if a != b {
            // content differs: which streams?
            let (pa, pb) = (per_stream(&base), per_stream(&got));
            let mut bad: Vec<String> = vec![];
            for k in pa.keys().chain(pb.keys()) {
                let (mut x, mut y) = (pa.get(k).cloned().unwrap_or_default(), pb.get(k).cloned().unwrap_or_default());
                x.sort();
                y.sort();
                if x != y && !bad.contains(k) {
                    bad.push(k.clone());
                }
            }
            // classify by the kind of the first differing stream
            let first = bad.first().cloned().unwrap_or_default();
            let idx: Option<usize> = first.strip_prefix('S').and_then(|n| n.parse::<usize>().ok()).map(|n| n - 1);
            let kind = idx.and_then(|i| kinds.get(i).cloned()).unwrap_or_else(|| format!("unknown-type:{}", first));
            let missing_all = pb.get(&first).map(|v| v.is_empty()).unwrap_or(true);
            fails.push((format!("{}:content:{}{}", pname, kind, if missing_all { ":no-output" } else { "" }), detail(&format!("different output multiset for stream(s) {:?}", bad))));
            continue;
        }
        if per_stream(&base) != per_stream(&got) {
            fails.push((format!("{}:order-within-stream", pname), detail("same multiset, different order within one output stream")));
            continue;
        }
        fails.push((format!("{}:order-across-streams", pname), detail("same per-stream sequences, different interleaving across streams")));
    }
    if !fails.is_empty() {
        // content differences first, then order within a stream, then interleaving
        fails.sort_by_key(|(s, _)| if s.contains(":content:") || s.ends_with(":error") { 0 } else if s.ends_with(":order-within-stream") { 1 } else { 2 });
        return Outcome::fail_many(fails);
    }
    let nt = c.prog.streams.len() >= 2 && (c.prog.has_derived() || c.prog.has_join()) && !base.is_empty();
    let mut o = Outcome::pass().nontrivial(nt).class_if(c.prog.has_derived(), "has_derived").class_if(c.prog.has_join(), "has_join").class_if(!base.is_empty(), "has_output");
    for k in kinds {
        o = o.class(format!("kind:{}", k));
    }
    o
}

fn main() {
    let check = Check::new("C16", "exploration");
    check.rule("programs of 1-4 streams from the grammar {filter/emit (pass, shift, no emit), tumbling/count/sliding/session windows + aggregate (+having, partition_by), 2-3 step sequences (all, not, partition), 2-way joins, distinct, limit, derived chains/diamonds over pass-like streams} rendered to VPL; <=60 events over A,B,C (ids, keys, ties in timestamps); random batch split (<=6 cuts). Oracle: the normalised output sequence of process() one-by-one equals that of process_batch, process_batch_sync and process_batch_shared for the same split; differences are classified as content (per stream kind), order within a stream, order across streams. Non-trivial = >=2 streams with a derived stream or a join and >=1 output.");
    check.explore("entry_points", strat, 10_000, 100_000, run);
    check.finish();
}
