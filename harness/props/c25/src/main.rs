//! C25 Trend aggregation counts are correct and unaffected by sharing.
//!
//! Oracle: brute-force enumeration of every index subsequence of the stream and a regular
//! expression match against the query's pattern (skip-till-any-match trends, Kleene+ = one
//! or more events of the type, as in docs/reference/trend-aggregation.md: "for a Kleene
//! pattern E+ with n matching events the count is 2^n - 1").
use proptest::prelude::*;
use serde::{Deserialize, Serialize};
use std::sync::Arc;
use varpulis_runtime::event::Event;
use varpulis_runtime::greta::{GretaAggregate, GretaExecutor, GretaQuery};
use varpulis_runtime::hamlet::template::TemplateBuilder;
use varpulis_runtime::hamlet::{HamletAggregator, HamletConfig, QueryRegistration};
use vh_common::{Check, Outcome};
use vh_gen::engine::Eng;
use vh_gen::{Ev, V};

const TYPES: &[&str] = &["A", "B", "C", "D"];

/// A query: a sequence of 2-3 distinct event types, 1-2 of them Kleene+.
#[derive(Clone, Debug, Serialize, Deserialize, PartialEq)]
struct Query {
    /// (type index, kleene)
    steps: Vec<(u8, bool)>,
}

impl Query {
    fn shape(&self) -> String {
        // canonical shape with types renamed in order of appearance: "A B+ C"
        self.steps.iter().enumerate().map(|(i, (_, k))| format!("{}{}", TYPES[i], if *k { "+" } else { "" })).collect::<Vec<_>>().join(" ")
    }
    fn text(&self) -> String {
        self.steps.iter().map(|(t, k)| format!("{}{}", TYPES[*t as usize], if *k { "+" } else { "" })).collect::<Vec<_>>().join(" ")
    }
    fn kleene_types(&self) -> Vec<u8> {
        self.steps.iter().filter(|(_, k)| *k).map(|(t, _)| *t).collect()
    }
}

#[derive(Clone, Debug, Serialize, Deserialize)]
struct Case {
    /// queries[0] is the query under test; the others run alongside it
    queries: Vec<Query>,
    /// event type indices, in arrival order
    events: Vec<u8>,
    /// false (generator): cases in a recorded finding class that can be avoided by
    /// construction are skipped and counted; true (replays): judged
    #[serde(default)]
    include_known_classes: bool,
}

// ------------------------------------------------------------------ brute force

/// does the type sequence `seq` match steps (each step: one event, or one-or-more if kleene)?
fn matches(steps: &[(u8, bool)], seq: &[u8]) -> bool {
    match steps.split_first() {
        None => seq.is_empty(),
        Some(((t, k), rest)) => {
            if seq.first() != Some(t) {
                return false;
            }
            // this event is the step's last one, or (Kleene) the step takes the next one too
            matches(rest, &seq[1..]) || (*k && matches(steps, &seq[1..]))
        }
    }
}

/// number of index subsequences of `events` that match the query
fn brute(q: &Query, events: &[u8]) -> u64 {
    let n = events.len();
    let mut count = 0u64;
    for mask in 1u32..(1u32 << n) {
        let seq: Vec<u8> = (0..n).filter(|i| mask & (1 << i) != 0).map(|i| events[i]).collect();
        if matches(&q.steps, &seq) {
            count += 1;
        }
    }
    count
}

/// second, independent formulation (dynamic programme over pattern positions) used only to
/// guard the enumeration oracle against a harness mistake
fn dp_count(q: &Query, events: &[u8]) -> u64 {
    // ends[i] = number of partial trends whose last event belongs to step i
    let mut ends = vec![0u64; q.steps.len()];
    for e in events {
        let prev = ends.clone();
        for (i, (t, k)) in q.steps.iter().enumerate() {
            if t == e {
                let from_before = if i == 0 { 1 } else { prev[i - 1] };
                ends[i] += from_before + if *k { prev[i] } else { 0 };
            }
        }
    }
    *ends.last().unwrap()
}

fn expected(q: &Query, events: &[u8]) -> Result<u64, Outcome> {
    let b = brute(q, events);
    if b != dp_count(q, events) {
        return Err(Outcome::fail("harness-oracles-disagree", format!("{} over {:?}: enumeration {} dp {}", q.text(), events, b, dp_count(q, events))));
    }
    Ok(b)
}

fn stream_text(events: &[u8]) -> String {
    events.iter().map(|t| TYPES[*t as usize]).collect()
}

// ------------------------------------------------------------------ generators

fn query() -> impl Strategy<Value = Query> {
    // 2-3 distinct types out of A,B,C (D is noise only), 1-2 Kleene steps
    (Just(vec![0u8, 1, 2]).prop_shuffle(), 2usize..=3, any::<[bool; 3]>(), 0usize..3).prop_map(|(perm, len, mut k, force)| {
        let n_k = k[..len].iter().filter(|x| **x).count();
        if n_k == 0 {
            k[force % len] = true;
        }
        if k[..len].iter().filter(|x| **x).count() > 2 {
            k[force % len] = false;
        }
        Query { steps: perm[..len].iter().zip(k.iter()).map(|(t, k)| (*t, *k)).collect() }
    })
}

/// bursty stream: runs of the same type
fn events() -> impl Strategy<Value = Vec<u8>> {
    proptest::collection::vec((prop_oneof![6 => 0u8..3, 1 => Just(3u8)], prop_oneof![3 => Just(1usize), 2 => Just(2usize), 2 => 3usize..=5]), 1..=8).prop_map(|runs| {
        let mut v = vec![];
        for (t, n) in runs {
            for _ in 0..n {
                if v.len() < 12 {
                    v.push(t);
                }
            }
        }
        v
    })
}

fn strat() -> impl Strategy<Value = Case> {
    (query(), proptest::collection::vec(query(), 0..=3), any::<[u8; 3]>(), events()).prop_map(|(q0, mut others, tweak, events)| {
        // make the other queries overlap with the first one: most reuse one of its Kleene types
        let kt = q0.kleene_types();
        for (i, o) in others.iter_mut().enumerate() {
            if tweak[i] % 4 != 0 {
                let want = kt[tweak[i] as usize % kt.len()];
                if !o.kleene_types().contains(&want) {
                    // rename types of `o` so that one of its Kleene steps is `want`
                    let from = o.kleene_types()[0];
                    for s in o.steps.iter_mut() {
                        if s.0 == from {
                            s.0 = want;
                        } else if s.0 == want {
                            s.0 = from;
                        }
                    }
                }
            }
        }
        let mut queries = vec![q0];
        queries.extend(others);
        Case { queries, events, include_known_classes: false }
    })
}

// ------------------------------------------------------------------ direct API

/// Build one aggregator for `queries` the way the template builder is documented to be
/// used (hamlet::aggregator tests, Engine::compile): one `add_sequence` per query, then
/// `add_kleene(query, type, state-of-that-step)`.
fn build(queries: &[&Query]) -> HamletAggregator {
    let mut b = TemplateBuilder::new();
    let mut base = 0u16;
    for (qi, q) in queries.iter().enumerate() {
        let names: Vec<&str> = q.steps.iter().map(|(t, _)| TYPES[*t as usize]).collect();
        b.add_sequence(qi as u32, &names);
        for (pos, (t, k)) in q.steps.iter().enumerate() {
            if *k {
                b.add_kleene(qi as u32, TYPES[*t as usize], base + pos as u16);
            }
        }
        base += q.steps.len() as u16 + 1;
    }
    let template = b.build();
    let regs: Vec<QueryRegistration> = queries
        .iter()
        .enumerate()
        .map(|(qi, q)| QueryRegistration {
            id: qi as u32,
            event_types: q.steps.iter().map(|(t, _)| template.type_index(TYPES[*t as usize]).unwrap()).collect(),
            kleene_types: q.steps.iter().filter(|(_, k)| *k).map(|(t, _)| template.type_index(TYPES[*t as usize]).unwrap()).collect(),
            aggregate: GretaAggregate::CountTrends,
        })
        .collect();
    let mut agg = HamletAggregator::new(HamletConfig { window_ms: 60_000, incremental: false, ..Default::default() }, template);
    for r in regs {
        agg.register_query(r);
    }
    agg
}

fn event(t: u8, i: usize) -> Arc<Event> {
    Arc::new(Ev::new(TYPES[t as usize], i as i64 * 10).with("id", V::Int(i as i64)).to_event())
}

/// window result (flush) per query id; absent = 0
fn run_direct(queries: &[&Query], events: &[u8]) -> Vec<u64> {
    let mut agg = build(queries);
    for (i, t) in events.iter().enumerate() {
        agg.process(event(*t, i));
    }
    let res = agg.flush();
    (0..queries.len()).map(|qi| res.iter().find(|r| r.query_id == qi as u32 && r.is_final).map(|r| r.value).unwrap_or(0)).collect()
}

fn run_greta(q: &Query, events: &[u8]) -> u64 {
    let mut g = GretaExecutor::new();
    let idx: Vec<u16> = q.steps.iter().map(|(t, _)| g.register_type(Arc::from(TYPES[*t as usize]))).collect();
    g.register_query(GretaQuery {
        id: 0,
        pattern_id: 0,
        event_types: idx.iter().copied().collect(),
        kleene_types: q.steps.iter().zip(&idx).filter(|((_, k), _)| *k).map(|(_, i)| *i).collect(),
        aggregate: GretaAggregate::CountTrends,
        window_ms: 60_000,
        slide_ms: 60_000,
    });
    let mut last = 0;
    for (i, t) in events.iter().enumerate() {
        for (_, c) in g.process(event(*t, i)) {
            last = c;
        }
    }
    last
}

fn burst_shared(c: &Case) -> bool {
    // a run of >=2 events of a Kleene type that >=2 queries have as Kleene type
    let mut i = 0;
    while i < c.events.len() {
        let t = c.events[i];
        let mut j = i;
        while j < c.events.len() && c.events[j] == t {
            j += 1;
        }
        if j - i >= 2 && c.queries.iter().filter(|q| q.kleene_types().contains(&t)).count() >= 2 {
            return true;
        }
        i = j;
    }
    false
}

fn classes(out: Outcome, c: &Case, total: u64) -> Outcome {
    out.class(format!("shape:{}", c.queries[0].shape()))
        .class(format!("queries:{}", c.queries.len()))
        .class_if(total > 0, "trends>0")
        .class_if(total > 20, "trends>20")
        .class_if(burst_shared(c), "shared_burst")
}

/// clause 1, direct API: window result (flush) of the query alone = number of trends
fn judge_direct_count(c: &Case) -> Outcome {
    let q0 = &c.queries[0];
    let total = match expected(q0, &c.events) {
        Ok(t) => t,
        Err(o) => return o,
    };
    let alone = run_direct(&[q0], &c.events)[0];
    if alone != total {
        return classes(
            Outcome::fail(
                "hamlet-count-differs-from-enumeration",
                format!("query {} over stream {}: {} trends by enumeration, HamletAggregator (alone, flush) reports {}; GRETA executor {}", q0.text(), stream_text(&c.events), total, alone, run_greta(q0, &c.events)),
            ),
            c,
            total,
        );
    }
    let greta = run_greta(q0, &c.events);
    classes(Outcome::pass(), c, total).nontrivial(total > 0).class_if(greta == total, "greta_agrees").class_if(greta != total, "greta_differs")
}

/// clause 2, direct API: same value alone and registered together with the other queries
/// (judged whether or not the value is the right one)
fn judge_direct_sharing(c: &Case) -> Outcome {
    if c.queries.len() < 2 {
        return Outcome::pass().class("single_query");
    }
    let q0 = &c.queries[0];
    let total = brute(q0, &c.events);
    let alone = run_direct(&[q0], &c.events)[0];
    let all: Vec<&Query> = c.queries.iter().collect();
    let together = run_direct(&all, &c.events)[0];
    if together != alone {
        return classes(
            Outcome::fail(
                "hamlet-sharing-changes-count",
                format!("query {} over {}: alone {}, registered with {:?}: {} ({} trends by enumeration)", q0.text(), stream_text(&c.events), alone, c.queries[1..].iter().map(|q| q.text()).collect::<Vec<_>>(), together, total),
            ),
            c,
            total,
        );
    }
    classes(Outcome::pass(), c, total).nontrivial(alone > 0 && burst_shared(c))
}

// ------------------------------------------------------------------ Engine API

fn render_query(i: usize, q: &Query) -> String {
    let mut s = format!("stream Q{} = ", i);
    for (pos, (t, k)) in q.steps.iter().enumerate() {
        let ty = TYPES[*t as usize];
        if pos == 0 {
            s.push_str(&format!("{}{} as s{}", if *k { "all " } else { "" }, ty, pos));
        } else {
            s.push_str(&format!("\n    -> {}{} as s{}", if *k { "all " } else { "" }, ty, pos));
        }
    }
    s.push_str(&format!("\n    .within(60s)\n    .trend_aggregate(c: count_trends())\n    .emit(q: {}, trends: c)\n\n", i));
    s
}

/// (event index, reported value) for each report of stream `qi`
fn run_engine(queries: &[&Query], events: &[u8]) -> Result<Vec<Vec<(usize, i64)>>, String> {
    let src: String = queries.iter().enumerate().map(|(i, q)| render_query(i, q)).collect();
    let mut eng = Eng::new(&src).map_err(|e| format!("{}\n{}", e, src))?;
    let mut reports = vec![vec![]; queries.len()];
    for (i, t) in events.iter().enumerate() {
        let ev = Ev::new(TYPES[*t as usize], i as i64 * 10).with("id", V::Int(i as i64));
        for o in vh_gen::engine::norm(&eng.process(&ev)?) {
            if let (Some(q), Some(v)) = (o.get_int("q"), o.get_int("trends")) {
                reports[q as usize].push((i, v));
            }
        }
    }
    Ok(reports)
}

/// The engine puts streams whose Kleene steps sit at the same pattern positions into one
/// shared aggregator (Engine::setup_hamlet_sharing groups by "type_<local index>").
fn engine_groups_q0(c: &Case) -> bool {
    let key = |q: &Query| q.steps.iter().enumerate().filter(|(_, (_, k))| *k).map(|(i, _)| i).collect::<Vec<_>>();
    c.queries[1..].iter().any(|q| key(q) == key(&c.queries[0]))
}

/// clause 1, Engine API: every TrendAggregateResult is judged against the trends that exist
/// when it is made; after the last event the last report must equal the window's count
fn judge_engine_count(c: &Case) -> Outcome {
    let q0 = &c.queries[0];
    let total = match expected(q0, &c.events) {
        Ok(t) => t,
        Err(o) => return o,
    };
    let alone = match run_engine(&[q0], &c.events) {
        Ok(r) => r[0].clone(),
        Err(e) => return Outcome::discard(format!("program rejected: {}", vh_common::truncate(&e, 80))),
    };
    for (i, v) in &alone {
        let exp = brute(q0, &c.events[..=*i]);
        if *v as u64 != exp {
            return classes(
                Outcome::fail(
                    "engine-report-differs-from-enumeration",
                    format!("query {} over {}: report after event #{} says {}, enumeration over the first {} events gives {}", q0.text(), stream_text(&c.events), i, v, i + 1, exp),
                ),
                c,
                total,
            );
        }
    }
    if total > 0 && alone.last().map(|(_, v)| *v as u64) != Some(total) {
        return classes(
            Outcome::fail(
                "engine-trends-completed-after-last-report",
                format!("query {} over {}: {} trends in the window, reports (event#, value) {:?}", q0.text(), stream_text(&c.events), total, alone),
            ),
            c,
            total,
        );
    }
    classes(Outcome::pass(), c, total).nontrivial(total > 0)
}

/// clause 2, Engine API: same reports alone and loaded together with the other queries
fn judge_engine_sharing(c: &Case) -> Outcome {
    if c.queries.len() < 2 {
        return Outcome::pass().class("single_query");
    }
    let grouped = engine_groups_q0(c);
    if grouped && !c.include_known_classes {
        return Outcome::pass().class("excluded:engine-shared-group");
    }
    let q0 = &c.queries[0];
    let total = brute(q0, &c.events);
    let alone = match run_engine(&[q0], &c.events) {
        Ok(r) => r[0].clone(),
        Err(e) => return Outcome::discard(format!("program rejected: {}", vh_common::truncate(&e, 80))),
    };
    let all: Vec<&Query> = c.queries.iter().collect();
    let together = match run_engine(&all, &c.events) {
        Ok(r) => r[0].clone(),
        Err(e) => return Outcome::discard(format!("program rejected: {}", vh_common::truncate(&e, 80))),
    };
    if together != alone {
        let sig = if grouped && together.is_empty() { "engine-shared-group-reports-nothing" } else { "engine-sharing-changes-reports" };
        return classes(
            Outcome::fail(sig, format!("query {} over {}: alone {:?}, loaded with {:?}: {:?}", q0.text(), stream_text(&c.events), alone, c.queries[1..].iter().map(|q| q.text()).collect::<Vec<_>>(), together)),
            c,
            total,
        );
    }
    classes(Outcome::pass(), c, total).nontrivial(!alone.is_empty()).class_if(grouped, "engine_shared_group")
}

/// development aid: agreement table per shape over all streams of <= 6 events (VERIF_C25_PROBE=1)
fn probe() {
    let shapes: Vec<Vec<(u8, bool)>> = vec![
        vec![(0, false), (1, true)],
        vec![(0, true), (1, false)],
        vec![(0, true), (1, true)],
        vec![(0, false), (1, true), (2, false)],
        vec![(0, true), (1, false), (2, false)],
        vec![(0, false), (1, false), (2, true)],
        vec![(0, false), (1, true), (2, true)],
        vec![(0, true), (1, true), (2, false)],
        vec![(0, true), (1, false), (2, true)],
    ];
    for steps in shapes {
        let q = Query { steps };
        let (mut n, mut ok_d, mut ok_e, mut ok_g, mut ok_d_pos, mut n_pos) = (0, 0, 0, 0, 0, 0);
        let mut first_bad: Vec<String> = vec![];
        for len in 1..=6u32 {
            for code in 0..3u32.pow(len) {
                let mut c = code;
                let evs: Vec<u8> = (0..len).map(|_| { let t = (c % 3) as u8; c /= 3; t }).collect();
                let b = brute(&q, &evs);
                let d = run_direct(&[&q], &evs)[0];
                let e = run_engine(&[&q], &evs).map(|r| r[0].last().map(|x| x.1 as u64).unwrap_or(0)).unwrap_or(u64::MAX);
                let g = run_greta(&q, &evs);
                n += 1;
                if b > 0 { n_pos += 1; if d == b { ok_d_pos += 1; } }
                if d == b { ok_d += 1 } else if first_bad.len() < 6 { first_bad.push(format!("{}: brute {} direct {} engine {} greta {}", evs.iter().map(|t| TYPES[*t as usize]).collect::<String>(), b, d, e, g)); }
                if e == b { ok_e += 1 }
                if g == b { ok_g += 1 }
            }
        }
        println!("{:<10} streams {} direct ok {} (with trends: {}/{}) engine-last ok {} greta ok {}", q.text(), n, ok_d, ok_d_pos, n_pos, ok_e, ok_g);
        for b in first_bad { println!("      {}", b); }
    }
}

fn probe2() {
    let qs: Vec<Query> = vec![
        Query { steps: vec![(0, false), (1, true)] },
        Query { steps: vec![(2, false), (1, true)] },
        Query { steps: vec![(0, false), (1, true), (2, false)] },
        Query { steps: vec![(1, true), (2, false)] },
        Query { steps: vec![(0, true), (1, false)] },
        Query { steps: vec![(0, false), (1, true), (2, true)] },
    ];
    for a in 0..qs.len() {
        for b in 0..qs.len() {
            let (q0, q1) = (&qs[a], &qs[b]);
            let (mut n, mut same_d, mut same_e) = (0, 0, 0);
            let mut bad: Vec<String> = vec![];
            for len in 1..=5u32 {
                for code in 0..3u32.pow(len) {
                    let mut c = code;
                    let evs: Vec<u8> = (0..len).map(|_| { let t = (c % 3) as u8; c /= 3; t }).collect();
                    let d1 = run_direct(&[q0], &evs)[0];
                    let d2 = run_direct(&[q0, q1], &evs)[0];
                    let e1 = run_engine(&[q0], &evs).unwrap()[0].clone();
                    let e2 = run_engine(&[q0, q1], &evs).unwrap()[0].clone();
                    n += 1;
                    if d1 == d2 { same_d += 1 }
                    if e1 == e2 { same_e += 1 } else if bad.len() < 3 { bad.push(format!("{}: engine alone {:?} together {:?}; direct {} / {}", evs.iter().map(|t| TYPES[*t as usize]).collect::<String>(), e1, e2, d1, d2)); }
                }
            }
            println!("{:<8} with {:<8}: streams {} direct same {} engine same {}", q0.text(), q1.text(), n, same_d, same_e);
            for b in bad { println!("      {}", b); }
        }
    }
}

fn main() {
    if std::env::var("VERIF_C25_PROBE2").is_ok() {
        probe2();
        return;
    }
    if std::env::var("VERIF_C25_PROBE").is_ok() {
        probe();
        return;
    }
    let check = Check::new("C25", "exploration");
    check.rule("1-4 queries, each a sequence of 2-3 distinct event types with 1-2 Kleene+ steps (A B+ C, A+ B, A B+ C+, ...), the others mostly sharing a Kleene type with the first; bursty streams (runs of one type) of <=12 events over A,B,C plus a noise type, one window. Four independent clauses: (direct_count) HamletAggregator flush value of the query alone = enumeration of all 2^n index subsequences matched against the pattern (cross-checked by an independent DP); (direct_sharing) value alone = value when registered together with the others; (engine_count) every TrendAggregateResult of `.trend_aggregate(c: count_trends())` = enumeration over the events seen so far, and the last report = the window's count; (engine_sharing) reports alone = reports when loaded with the other streams. non-trivial = >=1 trend (count clauses) / a non-zero value and a burst of >=2 events of a Kleene type that >=2 queries share (sharing clauses)");
    check.assume("trend semantics from docs/reference/trend-aggregation.md and the GRETA/Hamlet module docs (skip-till-any-match; E+ = non-empty in-order subset, 2^n - 1 for n events); patterns without predicates; all events inside one .within window; template construction as in hamlet::aggregator's own tests (add_sequence + add_kleene at the step's state)");
    check.explore("direct_count", strat, 16_000, 300_000, judge_direct_count);
    check.explore("direct_sharing", strat, 16_000, 300_000, judge_direct_sharing);
    check.explore("engine_count", strat, 6_000, 100_000, judge_engine_count);
    check.explore("engine_sharing", strat, 6_000, 100_000, judge_engine_sharing);
    check.finish();
}
