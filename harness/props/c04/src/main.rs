//! C04 Partitioned patterns, windows and aggregates act as independent per-key runs.
//!
//! Metamorphic oracle: the whole stream goes through one Engine E; for every partition value
//! (events without the key field form one more partition) the sub-sequence of its events — same
//! ids, same timestamps, same relative order — goes through a fresh Engine E_k loaded with the
//! same program.  multiset(outputs(E)) must equal the disjoint union of multiset(outputs(E_k)).
//! In addition every output must be traceable to one key only: a sequence match names events of
//! one partition; a window/aggregate output (count, sum(v), min(v), max(v), first(id), last(id))
//! must be exactly the aggregate of that key's arrivals between first and last.
use proptest::prelude::*;
use serde::{Deserialize, Serialize};
use std::collections::BTreeMap;
use vh_common::{Check, Outcome};
use vh_gen::engine::Eng;
use vh_gen::seq::*;
use vh_gen::{Ev, OutEv, V};

#[derive(Clone, Debug, Serialize, Deserialize)]
enum Win {
    /// aggregate directly on the partitioned stream
    None,
    Tumbling(i64),
    Sliding(i64, i64),
    Session(i64),
    Count(i64),
    SlidingCount(i64, i64),
}

#[derive(Clone, Debug, Serialize, Deserialize)]
enum Prog {
    Seq { kind: VKind, pat: Pat },
    Win { ty: String, win: Win },
    /// both streams in one program, fed by the same events
    Both { kind: VKind, pat: Pat, ty: String, win: Win },
}

#[derive(Clone, Debug, Serialize, Deserialize)]
struct Case {
    prog: Prog,
    events: Vec<Ev>,
}

fn win_src(name: &str, ty: &str, w: &Win) -> String {
    let wop = match w {
        Win::None => String::new(),
        Win::Tumbling(d) => format!("    .window({}ms)\n", d),
        Win::Sliding(d, s) => format!("    .window({}ms, sliding: {}ms)\n", d, s),
        Win::Session(g) => format!("    .window(session: {}ms)\n", g),
        Win::Count(n) => format!("    .window({})\n", n),
        Win::SlidingCount(n, s) => format!("    .window({}, sliding: {})\n", n, s),
    };
    format!(
        "stream {} = {}\n    .partition_by(k)\n{}    .aggregate(n: count(), s: sum(v), mn: min(v), mx: max(v), f: first(id), l: last(id))\n    .emit(n: n, s: s, mn: mn, mx: mx, f: f, l: l)\n",
        name, ty, wop
    )
}

fn src(p: &Prog) -> String {
    match p {
        Prog::Seq { pat, .. } => pat.render("M"),
        Prog::Win { ty, win } => win_src("W", ty, win),
        Prog::Both { pat, ty, win, .. } => format!("{}\n{}", pat.render("M"), win_src("W", ty, win)),
    }
}

// ------------------------------------------------------------------ generators

fn win(unit: i64) -> impl Strategy<Value = Win> {
    prop_oneof![
        1 => Just(Win::None),
        2 => (1i64..=5).prop_map(move |d| Win::Tumbling(d * unit)),
        2 => (1i64..=5, 1i64..=5).prop_map(move |(d, s)| Win::Sliding(d * unit, s * unit)),
        2 => (1i64..=5).prop_map(move |g| Win::Session(g * unit)),
        2 => (1i64..=4).prop_map(Win::Count),
        2 => (1i64..=4, 1i64..=4).prop_map(|(n, s)| Win::SlidingCount(n, s)),
    ]
}

fn key_value(i: i64, str_keys: bool) -> V {
    if str_keys {
        // never "" or "default" (the engine's placeholders for a missing key)
        V::Str(["key1", "key2", "k", "Default", "0", "a b"][i as usize % 6].to_string())
    } else {
        V::Int([1, 2, 3, 0, -1, 10][i as usize % 6])
    }
}

/// events of one type for the window programs: ms grid with ties, exact boundaries and mild disorder
fn win_events() -> impl Strategy<Value = Vec<Ev>> {
    (1i64..=6, any::<bool>(), any::<bool>(), 1i64..=5, proptest::collection::vec((0i64..6, 0u8..10, 0u8..8, -3i64..8, 0u8..100), 0..=60)).prop_map(|(nkeys, str_keys, missing, d, raw)| {
        let mut cur = 0i64;
        raw.into_iter()
            .enumerate()
            .map(|(i, (k, miss, dsel, v, jit))| {
                cur += [0, 0, 1, 1, d - 1, d, d + 1, 2 * d + 1][dsel as usize % 8].max(0);
                let ts = if jit < 8 { (cur - 1 - (jit as i64 % 3)).max(0) } else { cur };
                let mut e = Ev::new("A", ts).with("id", V::Int(i as i64 + 1));
                if !(missing && miss == 0) {
                    e = e.with(KEY, key_value(k % nkeys, str_keys));
                }
                e.with("v", V::Int(v))
            })
            .collect()
    })
}

fn seq_pat(kind: VKind) -> impl Strategy<Value = Pat> {
    pat(kind, PatOpts { allow_all: true, allow_not: false, allow_partition: true, max_steps: 4 }).prop_map(|mut p| {
        p.partition = true;
        p.not = None;
        p
    })
}

fn strat() -> impl Strategy<Value = Case> {
    let seq = prop_oneof![Just(VKind::Int), Just(VKind::Float)].prop_flat_map(|kind| {
        (seq_pat(kind), 1i64..=6, any::<bool>(), any::<bool>()).prop_flat_map(move |(pat, nkeys, missing, strk)| events(kind, 50, nkeys, missing, strk).prop_map(move |events| Case { prog: Prog::Seq { kind, pat: pat.clone() }, events }))
    });
    let w = (win(1), win_events()).prop_map(|(win, events)| Case { prog: Prog::Win { ty: "A".into(), win }, events });
    let both = prop_oneof![Just(VKind::Int)].prop_flat_map(|kind| {
        (seq_pat(kind), win(10), 1i64..=6, any::<bool>(), any::<bool>(), 0usize..4).prop_flat_map(move |(pat, win, nkeys, missing, strk, ty)| {
            // the window stream reads a type other than the pattern's first step, whose type the sentinels use
            let first = TYPES.iter().position(|t| *t == pat.steps[0].ty).unwrap_or(0);
            let wty = TYPES[(first + 1 + ty % 3) % 4].to_string();
            events(kind, 60, nkeys, missing, strk).prop_map(move |events| Case { prog: Prog::Both { kind, pat: pat.clone(), ty: wty.clone(), win: win.clone() }, events })
        })
    });
    prop_oneof![4 => seq, 5 => w, 2 => both]
}

// ------------------------------------------------------------------ execution

fn pkey(e: &Ev) -> Option<V> {
    e.get(KEY).cloned()
}

/// run `events` (+ the sequence sentinels of the partitions present) through a fresh engine
fn run_engine(source: &str, prog: &Prog, events: &[Ev], sentinel_src: &[Ev]) -> Result<Vec<OutEv>, String> {
    let mut eng = Eng::new(source)?;
    let mut all = events.to_vec();
    all.extend_from_slice(sentinel_src);
    let outs = eng.process_all(&all)?;
    let _ = prog;
    Ok(outs.iter().map(OutEv::from_event).collect())
}

fn is_sentinel_out(o: &OutEv) -> bool {
    o.fields.iter().any(|(k, v)| k.ends_with("_id") && v.strip_prefix('i').and_then(|s| s.parse::<i64>().ok()).is_some_and(|i| i >= SENTINEL_BASE))
}

/// every output must concern one key only
fn traceable(prog: &Prog, events: &[Ev], o: &OutEv) -> Result<(), (String, String)> {
    let by_id: BTreeMap<i64, (usize, &Ev)> = events.iter().enumerate().map(|(i, e)| (e.id(), (i, e))).collect();
    if o.ty == "M" {
        let mut keys = vec![];
        for (k, v) in &o.fields {
            if !k.ends_with("_id") {
                continue;
            }
            let Some(id) = v.strip_prefix('i').and_then(|s| s.parse::<i64>().ok()) else {
                // Kleene captures may be rendered as arrays or be absent: not traceable by id, skip
                continue;
            };
            match by_id.get(&id) {
                Some((_, e)) => keys.push(pkey(e)),
                None => return Err(("seq:unknown-id".into(), format!("{:?}", o))),
            }
        }
        if keys.windows(2).any(|w| w[0] != w[1]) {
            return Err(("seq:match-mixes-partitions".into(), format!("{:?} keys {:?}", o, keys)));
        }
        return Ok(());
    }
    // window/aggregate output
    let ty = match prog {
        Prog::Win { ty, .. } | Prog::Both { ty, .. } => ty.clone(),
        _ => return Err(("unexpected-output-type".into(), format!("{:?}", o))),
    };
    let (Some(n), Some(f), Some(l)) = (o.get_int("n"), o.get_int("f"), o.get_int("l")) else {
        return Err(("win:malformed-output".into(), format!("{:?}", o)));
    };
    let (Some((pf, ef)), Some((pl, el))) = (by_id.get(&f), by_id.get(&l)) else {
        return Err(("win:unknown-id".into(), format!("{:?}", o)));
    };
    if pkey(ef) != pkey(el) || pl < pf {
        return Err(("win:first-last-of-different-partitions".into(), format!("{:?}", o)));
    }
    let key = pkey(ef);
    let content: Vec<&Ev> = events[*pf..=*pl].iter().filter(|e| e.ty == ty && pkey(e) == key).collect();
    let vs: Vec<i64> = content.iter().map(|e| if let Some(V::Int(v)) = e.get("v") { *v } else { 0 }).collect();
    let want_s = format!("f{:?}", vs.iter().sum::<i64>() as f64);
    let want_mn = format!("f{:?}", *vs.iter().min().unwrap_or(&0) as f64);
    let want_mx = format!("f{:?}", *vs.iter().max().unwrap_or(&0) as f64);
    if content.len() as i64 != n || o.get("s") != Some(&want_s) || o.get("mn") != Some(&want_mn) || o.get("mx") != Some(&want_mx) {
        return Err((
            "win:aggregate-not-of-one-key".into(),
            format!("{:?}: the {} arrivals of key {:?} between ids {} and {} have v = {:?} (count {}, sum {}, min {}, max {})", o, content.len(), key, f, l, vs, vs.len(), want_s, want_mn, want_mx),
        ));
    }
    Ok(())
}

fn interleaved(keys: &[Option<V>]) -> bool {
    // some key re-appears after a different key: a ... b ... a
    for i in 0..keys.len() {
        for j in i + 1..keys.len() {
            if keys[j] != keys[i] {
                if keys[j + 1..].iter().any(|k| *k == keys[i]) {
                    return true;
                }
                break;
            }
        }
    }
    false
}

fn run(c: &Case) -> Outcome {
    let source = src(&c.prog);
    let (pat, kind) = match &c.prog {
        Prog::Seq { pat, kind } | Prog::Both { pat, kind, .. } => (Some(pat), Some(*kind)),
        _ => (None, None),
    };
    let sent: Vec<Ev> = match (pat, kind) {
        (Some(p), Some(k)) => sentinels(p, &c.events, k),
        _ => vec![],
    };
    let whole = match run_engine(&source, &c.prog, &c.events, &sent) {
        Ok(o) => o,
        Err(e) if e.starts_with("parse") || e.starts_with("load") => return Outcome::discard(format!("program rejected: {}", vh_common::truncate(&e, 60))),
        Err(e) => return Outcome::fail("engine-error", e),
    };
    // partitions in order of first appearance
    let mut keys: Vec<Option<V>> = vec![];
    for e in &c.events {
        let k = pkey(e);
        if !keys.contains(&k) {
            keys.push(k);
        }
    }
    let mut union: Vec<OutEv> = vec![];
    for k in &keys {
        let sub: Vec<Ev> = c.events.iter().filter(|e| pkey(e) == *k).cloned().collect();
        let ssub: Vec<Ev> = sent.iter().filter(|e| pkey(e) == *k).cloned().collect();
        match run_engine(&source, &c.prog, &sub, &ssub) {
            Ok(o) => union.extend(o),
            Err(e) => return Outcome::fail("engine-error:per-key-run", e),
        }
    }
    let mut a: Vec<OutEv> = whole.into_iter().filter(|o| !is_sentinel_out(o)).collect();
    let mut b: Vec<OutEv> = union.into_iter().filter(|o| !is_sentinel_out(o)).collect();
    for o in &a {
        if let Err((sig, d)) = traceable(&c.prog, &c.events, o) {
            return Outcome::fail(sig, format!("{}\nprogram:\n{}\nevents {:?}", d, source, c.events));
        }
    }
    a.sort();
    b.sort();
    if a != b {
        let only_whole: Vec<&OutEv> = a.iter().filter(|o| !b.contains(o)).take(4).collect();
        let only_keys: Vec<&OutEv> = b.iter().filter(|o| !a.contains(o)).take(4).collect();
        let fam = match &c.prog {
            Prog::Seq { .. } => "seq".to_string(),
            Prog::Win { win, .. } | Prog::Both { win, .. } => {
                let w = match win {
                    Win::None => "aggregate",
                    Win::Tumbling(_) => "tumbling",
                    Win::Sliding(..) => "sliding",
                    Win::Session(_) => "session",
                    Win::Count(_) => "count",
                    Win::SlidingCount(..) => "sliding-count",
                };
                let first = only_whole.first().or(only_keys.first()).map(|o| o.ty.clone()).unwrap_or_default();
                if first == "M" {
                    "seq".to_string()
                } else {
                    w.to_string()
                }
            }
        };
        return Outcome::fail(
            format!("{}:whole-run-differs-from-per-key-runs", fam),
            format!("only in whole run: {:?}\nonly in per-key runs: {:?}\n({} vs {} outputs)\nprogram:\n{}\nevents {:?}", only_whole, only_keys, a.len(), b.len(), source, c.events),
        );
    }
    let relevant: Vec<Option<V>> = c.events.iter().map(pkey).collect();
    let il = interleaved(&relevant);
    let fam = match &c.prog {
        Prog::Seq { .. } => "prog:sequence",
        Prog::Win { .. } => "prog:window",
        Prog::Both { .. } => "prog:sequence+window",
    };
    let mut o = Outcome::pass()
        .nontrivial(keys.len() >= 2 && il && !a.is_empty())
        .class(fam)
        .class(format!("partitions={}", keys.len().min(7)))
        .class_if(keys.contains(&None), "has_missing_key_partition")
        .class_if(il, "interleaved_keys")
        .class_if(!a.is_empty(), "has_output")
        .class_if(a.len() >= 5, "outputs>=5")
        .class_if(c.events.iter().any(|e| matches!(e.get(KEY), Some(V::Str(_)))), "string_keys")
        .class_if(c.events.iter().any(|e| matches!(e.get(KEY), Some(V::Int(_)))), "int_keys");
    if let Prog::Win { win, .. } | Prog::Both { win, .. } = &c.prog {
        o = o.class(match win {
            Win::None => "win:none",
            Win::Tumbling(_) => "win:tumbling",
            Win::Sliding(..) => "win:sliding",
            Win::Session(_) => "win:session",
            Win::Count(_) => "win:count",
            Win::SlidingCount(..) => "win:sliding-count",
        });
    }
    if let Some(p) = pat {
        o = o.class_if(p.has_all(), "seq:has_all").class(format!("seq:steps={}", p.steps.len()));
    }
    o
}

// ------------------------------------------------------------------ partitioned aggregate over a shared window

#[derive(Clone, Debug, Serialize, Deserialize)]
struct GroupCase {
    n: i64,
    events: Vec<Ev>,
}

/// `.window(N).partition_by(k).aggregate(..)`: the count window is shared, the aggregate is per key.
/// Every block of N arrivals must produce exactly one output per key present in the block, each
/// being the aggregate of that key's events only.
fn run_group(c: &GroupCase) -> Outcome {
    let source = format!(
        "stream G = A\n    .window({})\n    .partition_by(k)\n    .aggregate(n: count(), s: sum(v), mn: min(v), mx: max(v), f: first(id), l: last(id))\n    .emit(n: n, s: s, mn: mn, mx: mx, f: f, l: l)\n",
        c.n
    );
    let mut eng = match Eng::new(&source) {
        Ok(e) => e,
        Err(e) => return Outcome::discard(format!("program rejected: {}", vh_common::truncate(&e, 60))),
    };
    let mut blocks_multi = 0;
    let mut outputs = 0;
    for (bi, block) in c.events.chunks(c.n as usize).enumerate() {
        let mut got: Vec<OutEv> = vec![];
        for e in block {
            match eng.process(e) {
                Ok(o) => got.extend(o.iter().map(OutEv::from_event)),
                Err(e) => return Outcome::fail("engine-error", e),
            }
        }
        let mut want: Vec<OutEv> = vec![];
        if block.len() as i64 == c.n {
            let mut keys: Vec<Option<V>> = vec![];
            for e in block {
                if !keys.contains(&pkey(e)) {
                    keys.push(pkey(e));
                }
            }
            if keys.len() >= 2 {
                blocks_multi += 1;
            }
            for k in keys {
                let evs: Vec<&Ev> = block.iter().filter(|e| pkey(e) == k).collect();
                let vs: Vec<i64> = evs.iter().map(|e| if let Some(V::Int(v)) = e.get("v") { *v } else { 0 }).collect();
                let mut fields = vec![
                    ("n".to_string(), format!("i{}", evs.len())),
                    ("s".to_string(), format!("f{:?}", vs.iter().sum::<i64>() as f64)),
                    ("mn".to_string(), format!("f{:?}", *vs.iter().min().unwrap() as f64)),
                    ("mx".to_string(), format!("f{:?}", *vs.iter().max().unwrap() as f64)),
                    ("f".to_string(), format!("i{}", evs[0].id())),
                    ("l".to_string(), format!("i{}", evs[evs.len() - 1].id())),
                ];
                fields.sort();
                want.push(OutEv { ty: "G".into(), fields });
            }
        }
        got.sort();
        want.sort();
        outputs += got.len();
        if got != want {
            return Outcome::fail("group-by:aggregate-not-per-key", format!("block #{} ({:?}): got {:?} want {:?}\nprogram:\n{}", bi, block.iter().map(|e| (e.id(), pkey(e), e.get("v").cloned())).collect::<Vec<_>>(), got, want, source));
        }
    }
    Outcome::pass().nontrivial(blocks_multi > 0 && outputs > 0).class("prog:window-then-partitioned-aggregate").class_if(blocks_multi > 0, "block_with_several_keys")
}

fn main() {
    let check = Check::new("C04", "exploration");
    check.rule(
        "programs with partition_by(k): 1-4 step sequences without .not (both surface forms, constant / cross-alias filters, `all` steps), or tumbling/sliding/session/count/sliding-count/no window + \
         aggregate(count, sum, min, max, first(id), last(id)), or both streams in one program; streams of <=60 events with 1-6 key values of one type (ints incl. 0 and -1, or strings incl. \"0\", \"Default\", \"a b\"; never \"\" or \"default\"), \
         randomly interleaved, optionally events without k; window streams have ties, exact boundaries and mild disorder. Oracle: multiset(outputs of the whole run) == union of multisets of one fresh run per partition (same ids/timestamps), \
         and every output traceable to one key (match ids of one partition; window aggregate equals the aggregate of that key's arrivals between first and last). \
         non-trivial = >=2 partitions whose events interleave (a..b..a) and >=1 output",
    );
    check.assume("one sentinel event per partition (reserved ids) is appended in the whole run and in the matching per-key run to flush one-step patterns; outputs containing a sentinel are ignored on both sides");
    check.assume("sub group_by (`.window(N).partition_by(k).aggregate(..)`, the window itself is shared) is outside the per-key-run equation; it is judged by a direct reference: one output per key present in each block of N arrivals, aggregating that key's events only");
    check.assume(".not clauses are excluded (per stream by design, DESIGN 2.3); sequence semantics themselves are C01-C03's subject, only independence is judged here");
    check.explore("per_key", strat, 3_000, 60_000, run);
    check.explore("group_by", || (2i64..=8, win_events()).prop_map(|(n, events)| GroupCase { n, events }), 1_500, 30_000, run_group);
    check.finish();
}
