//! C41 The parser terminates without panicking and locates its errors inside the input.
//!
//! Inputs: grammar-aware and byte-level mutations of the repository's `.vpl` files and of
//! generated programs (vh_gen::vplsrc).  Oracle: `parse` returns (a panic inside the
//! parser's own thread, which `parse` reports as a "stack overflow" error, counts as a
//! panic); every position an error carries lies inside the *given* text.
//! Time is only a counted class (slow parses); a hang is the runner's watchdog.
use proptest::prelude::*;
use serde::{Deserialize, Serialize};
use varpulis_parser::ParseError;
use vh_common::{guard, Check, Outcome};
use vh_gen::vplsrc::{self, Tape};

#[derive(Clone, Debug, Serialize, Deserialize)]
struct Case {
    origin: String,
    src: String,
}

const SNIPPETS: &[&str] = &[
    "",
    "\n",
    "stream A = B",
    "stream A = B\n",
    "stream A = B.where(",
    "fn f():\n    return 1",
    "fn f():\n return (",
    "for i in 0..3:\n    context c{i}\nstream = \n",
    "event E:\n    x: int\n",
    "if x:\n    y\nelse:\n    z",
    "config:\n    a: 1\n",
    "stream X = A\n    .where(x > [1, 2][0])\n",
    "let s = \"unterminated",
    "/* open comment",
    "x = = y",
    "\u{00AB}INDENT\u{00BB}",
];

fn strat() -> impl Strategy<Value = Case> {
    let corpus = vplsrc::corpus_vpl();
    (any::<u16>(), any::<u16>(), proptest::collection::vec(any::<u16>(), 0..160), 0usize..7, proptest::collection::vec(any::<u16>(), 16..128)).prop_map(move |(sel, which, gtape, nm, mtape)| {
        let mut t = Tape::new(&gtape);
        let (mut origin, base) = match vh_common::idx::pick(sel, 10) {
            0..=4 if !corpus.is_empty() => {
                let (p, txt) = &corpus[vh_common::idx::pick(which, corpus.len())];
                (format!("corpus:{}", p), txt.clone())
            }
            5 => {
                let s = SNIPPETS[vh_common::idx::pick(which, SNIPPETS.len())];
                ("snippet".to_string(), s.to_string())
            }
            _ => ("generated".to_string(), vplsrc::program(&mut t)),
        };
        let mut mt = Tape::new(&mtape);
        let (src, labels) = vplsrc::mutate(&base, nm, &mut mt, corpus);
        for l in labels {
            origin.push('+');
            origin.push_str(l);
        }
        Case { origin, src }
    })
}

/// Position check of one error against the given text.  Ok(class) / Err((sig, detail)).
fn check_positions(src: &str, e: &ParseError) -> Result<&'static str, (String, String)> {
    let lines: Vec<&str> = src.split('\n').collect();
    let off = |what: &str, p: usize| -> Result<(), (String, String)> {
        if p > src.len() {
            Err((format!("offset-outside-input:{}", what), format!("{} offset {} > input length {} ({:?})", what, p, src.len(), e)))
        } else {
            Ok(())
        }
    };
    match e {
        ParseError::Located { line, column, position, .. } => {
            if *line == 0 && *column == 0 {
                // "no location" convention of the hand-written AST builders
                off("Located", *position)?;
                return Ok("err:located_without_position");
            }
            if *line == 0 || *line > lines.len() {
                return Err(("line-outside-input".into(), format!("line {} of an input with {} line(s); error: {}", line, lines.len(), e)));
            }
            let l = lines[*line - 1];
            // most lenient unit: bytes (>= chars >= UTF-16 units); +1 = just past the end of the line
            if *column == 0 || *column > l.len() + 1 {
                return Err(("column-outside-line".into(), format!("column {} on line {} which has {} bytes ({:?}); error: {}", column, line, l.len(), l, e)));
            }
            off("Located", *position)?;
            Ok("err:located")
        }
        ParseError::UnexpectedToken { position, .. } => off("UnexpectedToken", *position).map(|_| "err:unexpected_token"),
        ParseError::InvalidToken { position, .. } => off("InvalidToken", *position).map(|_| "err:invalid_token"),
        ParseError::UnterminatedString(p) => off("UnterminatedString", *p).map(|_| "err:unterminated_string"),
        ParseError::Custom { span, .. } => {
            off("Custom.start", span.start)?;
            off("Custom.end", span.end)?;
            if span.start > span.end {
                return Err(("span-reversed".into(), format!("{:?}", e)));
            }
            Ok("err:custom")
        }
        ParseError::UnexpectedEof => Ok("err:eof"),
        ParseError::InvalidNumber(_) => Ok("err:invalid_number"),
        ParseError::InvalidDuration(_) => Ok("err:invalid_duration"),
        ParseError::InvalidTimestamp(_) => Ok("err:invalid_timestamp"),
        ParseError::InvalidEscape(_) => Ok("err:invalid_escape"),
    }
}

fn max_bracket_depth(src: &str) -> usize {
    let mut d = 0usize;
    let mut m = 0usize;
    for b in src.bytes() {
        match b {
            b'(' | b'[' | b'{' => {
                d += 1;
                m = m.max(d);
            }
            b')' | b']' | b'}' => d = d.saturating_sub(1),
            _ => {}
        }
    }
    m
}

fn judge(c: &Case) -> Outcome {
    let src = &c.src;
    if vplsrc::index_nest_depth(src) > vplsrc::MAX_INDEX_NEST + 1 && max_bracket_depth(src) <= 26 {
        // exponential (2^depth) zone of nested index brackets below the parser's nesting cap:
        // bounded, but a single parse takes seconds to minutes; documented in `nesting_profile`
        return Outcome::discard("excluded:index_nesting>16_below_cap");
    }
    let t0 = std::time::Instant::now();
    let res = match guard(|| varpulis_parser::parse(src)) {
        Ok(r) => r,
        Err(p) => return Outcome::fail(p.sig(), format!("parse panicked at {}:{}: {}", p.file, p.line, p.message)),
    };
    let ms = t0.elapsed().as_millis();
    let depth = max_bracket_depth(src);
    if ms >= 1000 && std::env::var("VERIF_C41_DUMP_SLOW").is_ok() {
        eprintln!("SLOW {} ms: {}", ms, serde_json::to_string(c).unwrap_or_default());
    }
    let mut out = match &res {
        Ok(_) => Outcome::pass().class("parsed_ok"),
        Err(e) => {
            if let ParseError::InvalidToken { message, .. } = e {
                if message.contains("stack overflow") {
                    // `parse` runs the real parser on its own thread and maps a *panic* of that
                    // thread to this message (a real stack overflow would abort the process).
                    return Outcome::fail("panic-inside-parser-thread", format!("the parser thread panicked (reported as {:?}); input {:?}", message, vh_common::truncate(src, 400)));
                }
            }
            match check_positions(src, e) {
                Ok(cl) => Outcome::pass().nontrivial(true).class("parse_error").class(cl),
                Err((sig, detail)) => return Outcome::fail(sig, detail),
            }
        }
    };
    // time: a counted class only, never a verdict
    out = out.class_if(ms >= 1000, "slow>=1s").class_if(ms >= 5000, "slow>=5s");
    out = out
        .class_if(!src.is_ascii(), "non_ascii")
        .class_if(depth > 24, "bracket_depth>24")
        .class_if((9..=24).contains(&depth), "bracket_depth9-24")
        .class_if(src.contains('\t'), "has_tab")
        .class_if(src.contains("\r\n"), "crlf")
        .class_if(c.origin.starts_with("corpus:"), "base:corpus")
        .class_if(c.origin.starts_with("generated"), "base:generated")
        .class_if(c.origin.starts_with("snippet"), "base:snippet")
        .class_if(src.lines().any(|l| l.starts_with("for ") && l.contains("..") && l.trim_end().ends_with(':')), "has_decl_loop");
    for l in c.origin.split('+').skip(1) {
        out = out.class(format!("mut:{}", l));
    }
    out
}

/// Time of `parse` for nested-bracket inputs by style and depth (evidence only, never a verdict):
/// for each style the depth is raised until one parse takes more than 400 ms.
fn nesting_profile() -> serde_json::Value {
    let styles: &[(&str, &str, &str, &str)] = &[
        ("paren", "(", ")", "let v = "),
        ("array", "[", "]", "let v = "),
        ("map", "{a: ", "}", "let v = "),
        ("call", "f(", ")", "let v = "),
        ("index", "a[", "]", "let v = "),
        ("neg_paren", "-(", ")", "let v = "),
        ("type_array", "[", "]", "type T = "),
        ("where_index", "a[", "]", "stream S = A.where(x > "),
    ];
    let mut out = serde_json::Map::new();
    for (name, o, c, prefix) in styles {
        for (variant, closed) in [("balanced", true), ("unclosed", false)] {
            let mut rows = vec![];
            for depth in 1..=24usize {
                let mut s = prefix.to_string();
                s.push_str(&o.repeat(depth));
                s.push_str(if *prefix == "type T = " { "int" } else { "1" });
                if closed {
                    s.push_str(&c.repeat(depth));
                } else {
                    s.push_str(&c.repeat(depth / 2));
                }
                if prefix.starts_with("stream") {
                    s.push(')');
                }
                s.push('\n');
                let t0 = std::time::Instant::now();
                let r = varpulis_parser::parse(&s);
                let ms = t0.elapsed().as_secs_f64() * 1000.0;
                rows.push(serde_json::json!({"depth": depth, "ms": (ms * 10.0).round() / 10.0, "ok": r.is_ok()}));
                if ms > 400.0 {
                    break;
                }
            }
            out.insert(format!("{}:{}", name, variant), serde_json::Value::Array(rows));
        }
    }
    serde_json::Value::Object(out)
}

fn main() {
    let check = Check::new("C41", "exploration");
    if std::env::var("VERIF_C41_PROFILE").is_ok() {
        println!("{}", serde_json::to_string_pretty(&nesting_profile()).unwrap());
        return;
    }
    let corpus = vplsrc::corpus_vpl();
    check.rule("source texts = 0-6 token-level/byte-level mutations (token delete/dup/swap/replace/insert, bracket unbalancing, nesting runs up to depth 40, indentation and tab changes incl. Unicode spaces, non-ASCII and marker-text insertion, truncation, line splice/dup/delete, CRLF, wrapping lines into `for i in a..b:` declaration loops) of a repository .vpl file (50%), a generated program over the pest grammar (40%) or a small snippet (10%); oracle: parse returns without panic (also inside its own parser thread) and every line/column/offset of the error lies inside the given text; non-trivial = input that fails to parse (distinct by text)");
    check.assume("corpus read from /repo at run time (a generated grammar covers the domain if files move); elapsed time is only a counted class, a hang is caught by the runner's watchdog (inconclusive)");
    check.extra("corpus_vpl_files", serde_json::json!(corpus.len()));
    check.extra("corpus_vpl_nonempty", serde_json::json!(corpus.iter().filter(|(_, t)| !t.trim().is_empty()).count()));

    // the unmutated corpus and snippets first (finite)
    let mut fixed: Vec<Case> = corpus.iter().map(|(p, t)| Case { origin: format!("corpus:{}", p), src: t.clone() }).collect();
    fixed.extend(SNIPPETS.iter().map(|s| Case { origin: "snippet".into(), src: s.to_string() }));
    check.enumerate("corpus_unmutated", fixed, |c: &Case| {
        let o = judge(c);
        // the example programs are expected to parse; count (not judge) those that do not
        o.class("unmutated")
    });
    check.explore("mutated", strat, 20_000, 300_000, judge);
    if !check.is_replay() {
        // evidence only: parse time doubles per nested index bracket (see vplsrc::MAX_INDEX_NEST)
        check.extra("nesting_profile_ms_not_judged", nesting_profile());
    }
    check.finish();
}
