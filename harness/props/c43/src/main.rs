//! C43 Language-server requests never crash and report valid ranges.
//!
//! The public request functions of `varpulis_lsp` (the bodies of the tower-lsp handlers)
//! are called directly on mutated documents and hostile cursor positions.  Oracle: no
//! panic; every reported range / semantic token lies inside the document.  Positions are
//! UTF-16 code units per line (the server does not negotiate another encoding).
use proptest::prelude::*;
use serde::{Deserialize, Serialize};
use tower_lsp::lsp_types::{CompletionTextEdit, Position, Range, Url};
use vh_common::idx::pick;
use vh_common::{guard, Check, Outcome};
use vh_gen::vplsrc::{self, Tape};

#[derive(Clone, Debug, Serialize, Deserialize)]
struct Case {
    origin: String,
    text: String,
    /// (line, character) cursor positions
    positions: Vec<(u32, u32)>,
}

/// Lines that steer the completion-context detection onto non-ASCII text.
const LSP_LINES: &[&str] = &[
    "stream X = Ev.from(Kafkaé, topic: \"t\"",
    "    .from( Kafkaé, ",
    "    .to( ü, ",
    "    .to(Out, topic: \"é\", ",
    "connector  Kafkaé = kafka (brokers: \"b\")",
    "connector Out = mqtt (host: \"h\")",
    "    é.",
    "日本@",
    "    .window(é",
    "    .aggregate(é: sum(日本), ",
    "stream é = 日本.where(",
    "pattern P😀 = SEQ(",
    "    x😀: ",
    "let 😀 = 1",
    "event É:",
    "fn f(é: int):",
    "    # comment 😀 with # inside",
    "stream S = A.where(name == \"😀😀\" and x > ",
    "\u{2028}stream",
];

fn positions_for(text: &str, t: &mut Tape, n: usize) -> Vec<(u32, u32)> {
    let lines: Vec<&str> = text.split('\n').collect();
    let non_ascii: Vec<usize> = lines.iter().enumerate().filter(|(_, l)| !l.is_ascii()).map(|(i, _)| i).collect();
    let mut out = vec![];
    for _ in 0..n {
        let li = if !non_ascii.is_empty() && t.chance(1, 2) { non_ascii[t.below(non_ascii.len())] } else { t.below(lines.len()) };
        let l = lines[li];
        let u16len = l.encode_utf16().count();
        let p = match t.below(12) {
            0 => (lines.len() as u32, 0),                      // one past the last line
            1 => (lines.len() as u32 + t.below(5) as u32, t.below(10) as u32),
            2 => (li as u32, u16len as u32 + 1 + t.below(3) as u32), // past the end of the line
            3 => (li as u32, u16len as u32),                   // at the end of the line
            4 => (u32::MAX, u32::MAX),
            5 => (li as u32, u32::MAX),
            6 => (li as u32, l.len() as u32),                  // byte length used as a column
            7 | 8 => {
                // right after / in the middle of a non-ASCII character (UTF-16 units)
                let mut col = 0u32;
                let mut cands = vec![];
                for ch in l.chars() {
                    let w = ch.len_utf16() as u32;
                    if !ch.is_ascii() {
                        cands.push(col + 1); // after a BMP char, or between the surrogates of an astral one
                        cands.push(col + w);
                    }
                    col += w;
                }
                if cands.is_empty() {
                    (li as u32, t.below(u16len + 1) as u32)
                } else {
                    (li as u32, cands[t.below(cands.len())])
                }
            }
            9 | 10 => {
                // on an identifier (definition / references / hover)
                let mut col = 0u32;
                let mut cands = vec![];
                for ch in l.chars() {
                    if ch.is_alphabetic() || ch == '_' {
                        cands.push(col);
                    }
                    col += ch.len_utf16() as u32;
                }
                if cands.is_empty() {
                    (li as u32, 0)
                } else {
                    (li as u32, cands[t.below(cands.len())])
                }
            }
            _ => (li as u32, t.below(l.len() + 2) as u32), // anywhere up to the byte length + 1
        };
        out.push(p);
    }
    out
}

fn strat() -> impl Strategy<Value = Case> {
    let corpus = vplsrc::corpus_vpl();
    (any::<u16>(), any::<u16>(), proptest::collection::vec(any::<u16>(), 0..160), 0usize..5, proptest::collection::vec(any::<u16>(), 24..160)).prop_map(move |(sel, which, gtape, nm, mtape)| {
        let mut t = Tape::new(&gtape);
        let (mut origin, base) = match pick(sel, 10) {
            0..=4 if !corpus.is_empty() => {
                let (p, txt) = &corpus[pick(which, corpus.len())];
                (format!("corpus:{}", p), txt.clone())
            }
            _ => ("generated".to_string(), vplsrc::program(&mut t)),
        };
        let mut mt = Tape::new(&mtape);
        let benign = pick(sel.wrapping_mul(31), 10) < 4;
        let (mut text, labels) = if benign { (base.clone(), vec![]) } else { vplsrc::mutate(&base, nm, &mut mt, corpus) };
        for l in labels {
            origin.push('+');
            origin.push_str(l);
        }
        if benign {
            // keep the document parsable: multi-byte text only in trailing comments and in
            // complete declarations appended at the end
            let mut lines: Vec<String> = text.split('\n').map(|l| l.to_string()).collect();
            for _ in 0..(1 + mt.below(3)) {
                let i = mt.below(lines.len());
                if !lines[i].contains('"') && !lines[i].contains("/*") && !lines[i].contains("*/") {
                    lines[i].push_str(mt.of(&["  # é", " # 😀😀 日本", "\t# naïve 𝒳", " # ß"]));
                }
            }
            text = lines.join("\n");
            if !text.ends_with('\n') {
                text.push('\n');
            }
            for _ in 0..mt.below(3) {
                text.push_str(mt.of(&[
                    "stream Zz1 = Trade.where(name == \"é😀\")\n",
                    "const LABEL = \"日本語 😀\"\n",
                    "event Extra:\n    note: str  # 😀\n",
                    "stream Zz2 = Extra\n    .where(note == \"ü\")   # é\n    .emit(n: note)\n",
                    "fn helper_zz(a: int) -> int:\n    return a + 1  # 😀\n",
                ]));
            }
            origin.push_str("+benign_non_ascii");
        }
        // LSP-specific lines (completion contexts, non-ASCII identifiers)
        let extra = if benign { 0 } else { mt.below(4) };
        for _ in 0..extra {
            let mut lines: Vec<&str> = text.split('\n').collect();
            let at = mt.below(lines.len() + 1);
            lines.insert(at, LSP_LINES[mt.below(LSP_LINES.len())]);
            text = lines.join("\n");
            origin.push_str("+lsp_line");
        }
        let npos = 1 + mt.below(6);
        let positions = positions_for(&text, &mut mt, npos);
        Case { origin, text, positions }
    })
}

/// Line table of a document: UTF-16 length of every line, under the LSP line-ending rule
/// (`\n`, `\r\n`, `\r`) and under the `\n`-only rule the server uses; a position is accepted
/// when it is inside the document under either reading (lenient on purpose).
struct Doc {
    lsp: Vec<usize>,
    nl: Vec<usize>,
}

impl Doc {
    fn new(text: &str) -> Doc {
        let nl = text.split('\n').map(|l| l.encode_utf16().count()).collect();
        let mut lsp = vec![];
        let mut cur = 0usize;
        let mut it = text.chars().peekable();
        while let Some(c) = it.next() {
            match c {
                '\r' => {
                    if it.peek() == Some(&'\n') {
                        it.next();
                    }
                    lsp.push(cur);
                    cur = 0;
                }
                '\n' => {
                    lsp.push(cur);
                    cur = 0;
                }
                c => cur += c.len_utf16(),
            }
        }
        lsp.push(cur);
        Doc { lsp, nl }
    }
    fn pos_inside(&self, p: Position) -> bool {
        let ok = |t: &Vec<usize>| t.get(p.line as usize).map(|len| p.character as usize <= *len).unwrap_or(false);
        ok(&self.lsp) || ok(&self.nl)
    }
    fn range_inside(&self, r: &Range) -> Result<(), String> {
        if !self.pos_inside(r.start) {
            return Err(format!("start {}:{} outside the document", r.start.line, r.start.character));
        }
        if !self.pos_inside(r.end) {
            return Err(format!("end {}:{} outside the document", r.end.line, r.end.character));
        }
        if (r.start.line, r.start.character) > (r.end.line, r.end.character) {
            return Err(format!("start {}:{} after end {}:{}", r.start.line, r.start.character, r.end.line, r.end.character));
        }
        Ok(())
    }
    fn describe(&self, line: u32) -> String {
        format!("line {} has {:?} UTF-16 units, document has {} lines", line, self.nl.get(line as usize), self.nl.len())
    }
}

fn judge(c: &Case) -> Outcome {
    let text = &c.text;
    if vplsrc::index_nest_depth(text) > vplsrc::MAX_INDEX_NEST + 1 {
        return Outcome::discard("excluded:index_nesting>16 (exponential parse time, see C41)");
    }
    let doc = Doc::new(text);
    let uri = Url::parse("file:///case.vpl").unwrap();
    let snippet = || vh_common::truncate(text, 500);
    let mut ranges = 0usize;
    let mut out = Outcome::pass();

    macro_rules! call {
        ($name:expr, $e:expr) => {
            match guard(|| $e) {
                Ok(v) => v,
                Err(p) => {
                    return Outcome::fail(format!("{}-{}", $name, p.sig()), format!("{} panicked at {}:{}: {}; document={:?} positions={:?}", $name, p.file, p.line, p.message, snippet(), c.positions));
                }
            }
        };
    }
    macro_rules! check_range {
        ($name:expr, $r:expr) => {{
            ranges += 1;
            if let Err(why) = doc.range_inside($r) {
                return Outcome::fail(format!("{}-range-outside-document", $name), format!("{}: {} ({}); range={:?}; document={:?}", $name, why, doc.describe($r.end.line), $r, snippet()));
            }
        }};
    }

    // document-level requests
    let diags = call!("diagnostics", varpulis_lsp::diagnostics::get_diagnostics(text));
    for d in &diags {
        check_range!("diagnostics", &d.range);
    }
    let syntax_error = diags.iter().any(|d| d.source.as_deref() == Some("varpulis") && d.code.is_none() && d.severity == Some(tower_lsp::lsp_types::DiagnosticSeverity::ERROR));
    let symbols = call!("document_symbols", varpulis_lsp::semantic::get_document_symbols(text));
    for s in &symbols {
        check_range!("document_symbols", &s.location.range);
    }
    let tokens = call!("semantic_tokens", varpulis_lsp::semantic::get_semantic_tokens(text));
    let (mut line, mut ch) = (0u32, 0u32);
    for (i, tk) in tokens.iter().enumerate() {
        if tk.delta_line > 0 {
            line = line.saturating_add(tk.delta_line);
            ch = tk.delta_start;
        } else {
            ch = ch.saturating_add(tk.delta_start);
        }
        let r = Range { start: Position { line, character: ch }, end: Position { line, character: ch.saturating_add(tk.length) } };
        ranges += 1;
        if let Err(why) = doc.range_inside(&r) {
            return Outcome::fail("semantic_tokens-token-outside-document", format!("token #{} {:?} decodes to {:?}: {} ({}); document={:?}", i, tk, r, why, doc.describe(line), snippet()));
        }
    }
    out = out.class_if(!tokens.is_empty(), "has_semantic_tokens").class_if(!symbols.is_empty(), "has_symbols").class_if(!diags.is_empty(), "has_diagnostics");

    // cursor requests
    let mut hovers = 0;
    let mut defs = 0;
    let mut refs = 0;
    let mut completions = 0;
    for &(l, ch) in &c.positions {
        let pos = Position { line: l, character: ch };
        if call!("hover", varpulis_lsp::hover::get_hover(text, pos)).map(|h| h.range.map(|r| doc.range_inside(&r))).is_some() {
            hovers += 1;
        }
        let items = call!("completion", varpulis_lsp::completion::get_completions(text, pos));
        completions += items.len();
        for it in &items {
            if let Some(CompletionTextEdit::Edit(e)) = &it.text_edit {
                check_range!("completion", &e.range);
            }
        }
        if let Some(loc) = call!("definition", varpulis_lsp::navigation::get_definition(text, pos, &uri)) {
            defs += 1;
            check_range!("definition", &loc.range);
        }
        if let Some(locs) = call!("references", varpulis_lsp::navigation::get_references(text, pos, &uri)) {
            refs += locs.len();
            for loc in &locs {
                check_range!("references", &loc.range);
            }
        }
        let inside = doc.pos_inside(pos);
        out = out.class(if inside { "pos:inside" } else { "pos:outside" });
    }
    let non_ascii = !text.is_ascii();
    out.nontrivial(non_ascii || syntax_error)
        .class_if(non_ascii, "doc:non_ascii")
        .class_if(text.chars().any(|c| c.len_utf16() == 2), "doc:astral_chars")
        .class_if(syntax_error, "doc:syntax_error")
        .class_if(!syntax_error, "doc:parses")
        .class_if(hovers > 0, "hover_hit")
        .class_if(defs > 0, "definition_hit")
        .class_if(refs > 0, "references_hit")
        .class_if(completions > 0, "completion_items")
        .class_if(ranges > 0, "ranges_checked")
        .class_if(text.contains('\r'), "doc:has_cr")
        .class(if c.origin.starts_with("corpus") { "base:corpus" } else { "base:generated" })
}

fn main() {
    let check = Check::new("C43", "exploration");
    let corpus = vplsrc::corpus_vpl();
    check.rule("documents = repository .vpl file (50%) or generated program (50%) with 0-4 token/byte-level mutations (incl. multi-byte and astral characters, Unicode spaces, CR/CRLF) plus 0-3 inserted lines that trigger completion contexts on non-ASCII text; 1-6 cursor positions each: inside lines, at/after line end, one past the last line, mid-surrogate, byte-length-as-column, u32::MAX; requests: diagnostics, document symbols, semantic tokens (per document), hover, completion, definition, references (per position); oracle: no panic, every range/token inside the document (line exists, character <= UTF-16 length of the line under LSP or \\n-only line splitting, start <= end); non-trivial = document with a non-ASCII character or a syntax error (distinct by case)");
    check.assume("the request functions are called directly (the tower-lsp handlers only look the document up and forward); positions are UTF-16 code units (no positionEncoding is negotiated)");
    let fixed: Vec<Case> = corpus
        .iter()
        .map(|(p, t)| {
            let nlines = t.split('\n').count() as u32;
            Case { origin: format!("corpus:{}", p), text: t.clone(), positions: vec![(0, 0), (nlines / 2, 3), (nlines.saturating_sub(1), 0), (nlines, 0)] }
        })
        .collect();
    check.enumerate("corpus_unmutated", fixed, judge);
    check.explore("mutated", strat, 5_000, 100_000, judge);
    check.finish();
}
