//! C17 Each stream processes each routed event exactly once.
use proptest::prelude::*;
use serde::{Deserialize, Serialize};
use std::collections::{BTreeMap, BTreeSet};
use vh_common::{Check, Outcome};
use vh_gen::engine::Eng;
use vh_gen::prog::*;
use vh_gen::seq::Op;
use vh_gen::{Ev, V};

#[derive(Clone, Debug, Serialize, Deserialize)]
struct Case {
    prog: Prog,
    events: Vec<Ev>,
    cuts: Vec<u16>,
}

/// conditions over fields that are always present (v, s): the routing model must be exact
fn sanitize(c: &Cond) -> Cond {
    match c {
        Cond::K(eq, n) => Cond::V(if *eq { Op::Ge } else { Op::Lt }, *n),
        Cond::And(a, b) => Cond::And(Box::new(sanitize(a)), Box::new(sanitize(b))),
        Cond::Or(a, b) => Cond::Or(Box::new(sanitize(a)), Box::new(sanitize(b))),
        other => other.clone(),
    }
}

fn strat() -> impl Strategy<Value = Case> {
    let o = ProgOpts { max_streams: 5, join_derived: false, ..ProgOpts::full() };
    (prog(o), events(40), proptest::collection::vec(any::<u16>(), 0..4), proptest::collection::vec(any::<bool>(), 5)).prop_map(|(mut prog, events, cuts, force)| {
        // bias towards chains/diamonds: re-source some pass-like/agg streams to an earlier pass-like stream
        for i in 1..prog.streams.len() {
            let pass: Vec<usize> = (0..i).filter(|j| prog.streams[*j].pass_like()).collect();
            if force[i % 5] && !pass.is_empty() {
                let tgt = Src::Stream(pass[i % pass.len()]);
                match &mut prog.streams[i] {
                    Shape::Filter { src, .. } | Shape::Agg { src, .. } | Shape::Distinct { src } | Shape::Limit { src, .. } | Shape::Process { src } => *src = tgt,
                    _ => {}
                }
            }
        }
        for s in prog.streams.iter_mut() {
            if let Shape::Filter { cond: Some(c), .. } = s {
                *c = sanitize(c);
            }
        }
        Case { prog, events, cuts }
    })
}

fn eval(c: &Cond, v: i64, s: &str) -> bool {
    match c {
        Cond::V(op, k) => op.holds(v.cmp(k)),
        Cond::S(eq, x) => (s == x) == *eq,
        Cond::K(..) => unreachable!(),
        Cond::And(a, b) => eval(a, v, s) && eval(b, v, s),
        Cond::Or(a, b) => eval(a, v, s) || eval(b, v, s),
    }
}

/// what a stream consumes (event type / stream names)
fn consumes(p: &Prog, i: usize) -> BTreeSet<String> {
    match &p.streams[i] {
        Shape::Seq { pat } => pat.types().into_iter().collect(),
        Shape::Join { l, r, .. } => [l.clone(), r.clone()].into_iter().collect(),
        other => match other.src().unwrap() {
            Src::Ty(t) => [t.clone()].into_iter().collect(),
            Src::Stream(j) => [sname(*j)].into_iter().collect(),
        },
    }
}

#[derive(Clone)]
struct Item {
    ty: String,
    id: i64,
    v: i64,
    s: String,
}

/// Expected deliveries (stream name, event type, id) by forward propagation through the
/// declared consumption graph, with a model of the pass-like operators.
fn expected(p: &Prog, evs: &[Ev]) -> Vec<(String, String, i64)> {
    let n = p.streams.len();
    let cons: Vec<BTreeSet<String>> = (0..n).map(|i| consumes(p, i)).collect();
    let mut seen_distinct: Vec<BTreeSet<i64>> = vec![BTreeSet::new(); n];
    let mut limit_count: Vec<u32> = vec![0; n];
    let mut out = vec![];
    for e in evs {
        let v = match e.get("v") {
            Some(V::Int(i)) => *i,
            _ => 0,
        };
        let s = match e.get("s") {
            Some(V::Str(x)) => x.clone(),
            _ => String::new(),
        };
        // depth-first or breadth-first does not matter for the delivery multiset of pass-like streams,
        // except for distinct/limit state, which only depends on the per-stream arrival order (FIFO in both).
        let mut queue = std::collections::VecDeque::from([(Item { ty: e.ty.clone(), id: e.id(), v, s }, 0usize)]);
        while let Some((it, depth)) = queue.pop_front() {
            if depth >= 10 {
                continue;
            }
            for i in 0..n {
                if !cons[i].contains(&it.ty) {
                    continue;
                }
                out.push((sname(i), it.ty.clone(), it.id));
                let produced: Option<Item> = match &p.streams[i] {
                    Shape::Filter { cond, emit, .. } => {
                        if cond.as_ref().map(|c| eval(c, it.v, &it.s)).unwrap_or(true) {
                            Some(Item { ty: sname(i), id: it.id, v: if *emit == Emit::Shift { it.v + 1 } else { it.v }, s: it.s.clone() })
                        } else {
                            None
                        }
                    }
                    Shape::Distinct { .. } => {
                        if seen_distinct[i].insert(it.v) {
                            Some(Item { ty: sname(i), ..it.clone() })
                        } else {
                            None
                        }
                    }
                    Shape::Limit { n, .. } => {
                        if limit_count[i] < *n {
                            limit_count[i] += 1;
                            Some(Item { ty: sname(i), ..it.clone() })
                        } else {
                            None
                        }
                    }
                    Shape::Process { .. } => {
                        // gen2(): two events per input (id 0 and 1, v = id, s = "x")
                        queue.push_back((Item { ty: sname(i), id: 0, v: 0, s: "x".into() }, depth + 1));
                        Some(Item { ty: sname(i), id: 1, v: 1, s: "x".into() })
                    }
                    _ => None, // leaves: nobody consumes their outputs in this grammar
                };
                if let Some(o) = produced {
                    queue.push_back((o, depth + 1));
                }
            }
        }
    }
    out.sort();
    out
}

fn run(c: &Case) -> Outcome {
    let src = c.prog.render();
    let want = expected(&c.prog, &c.events);
    let n = c.prog.streams.len();
    let cons: Vec<BTreeSet<String>> = (0..n).map(|i| consumes(&c.prog, i)).collect();
    let mut fails: Vec<(String, String)> = vec![];
    for (pi, pname) in ["single", "batch", "sync", "shared"].iter().enumerate() {
        let mut eng = match Eng::new(&src) {
            Ok(e) => e,
            Err(e) => return Outcome::discard(format!("program rejected: {}", vh_common::truncate(&e, 80))),
        };
        let mut got: Vec<(String, String, i64)> = vec![];
        let pts = split_points(c.events.len(), &c.cuts);
        for w in pts.windows(2) {
            let batch = &c.events[w[0]..w[1]];
            if batch.is_empty() {
                continue;
            }
            varpulis_runtime::verif_hooks::start_recording();
            let r = match pi {
                0 => eng.process_all(batch),
                1 => eng.process_batch(batch),
                2 => eng.process_batch_sync(batch),
                _ => eng.process_batch_shared(batch),
            };
            let trace = varpulis_runtime::verif_hooks::take();
            if let Err(e) = r {
                fails.push((format!("{}:error", pname), e));
                break;
            }
            for (tag, payload) in trace {
                if tag == "delivered" {
                    let mut it = payload.splitn(3, '|');
                    let (s, t, id) = (it.next().unwrap_or(""), it.next().unwrap_or(""), it.next().unwrap_or(""));
                    got.push((s.to_string(), t.to_string(), id.parse().unwrap_or(-1)));
                }
            }
        }
        got.sort();
        if got == want {
            continue;
        }
        // classify
        let mut cnt: BTreeMap<&(String, String, i64), i64> = BTreeMap::new();
        for g in &got {
            *cnt.entry(g).or_default() += 1;
        }
        let mut wcnt: BTreeMap<&(String, String, i64), i64> = BTreeMap::new();
        for g in &want {
            *wcnt.entry(g).or_default() += 1;
        }
        let foreign = got.iter().find(|(s, t, _)| {
            let i: usize = s[1..].parse::<usize>().unwrap_or(1) - 1;
            !cons.get(i).map(|c| c.contains(t)).unwrap_or(false)
        });
        let dup = cnt.iter().find(|(k, n)| **n > *wcnt.get(*k).unwrap_or(&0) && wcnt.contains_key(*k));
        let missing = wcnt.iter().find(|(k, n)| **n > *cnt.get(*k).unwrap_or(&0));
        let extra = cnt.iter().find(|(k, _)| !wcnt.contains_key(*k));
        let (sig, what) = if let Some(f) = foreign {
            ("delivered-to-non-consumer", format!("{:?}", f))
        } else if let Some((k, n)) = dup {
            ("delivered-more-than-once", format!("{:?} x{}", k, n))
        } else if let Some((k, _)) = missing {
            ("not-delivered", format!("{:?}", k))
        } else if let Some((k, _)) = extra {
            ("unexpected-delivery", format!("{:?}", k))
        } else {
            ("differs", String::new())
        };
        fails.push((format!("{}:{}", pname, sig), format!("{}\n{} path: {} {}\nexpected {:?}\ngot {:?}", src, pname, sig, what, want, got)));
    }
    if !fails.is_empty() {
        return Outcome::fail_many(fails);
    }
    let derived_deliveries = want.iter().filter(|(_, t, _)| t.starts_with('S')).count();
    // diamond: one stream consumed by >=2 streams; sink: a pass-like stream nobody consumes
    let mut fan: BTreeMap<String, usize> = BTreeMap::new();
    for cset in &cons {
        for t in cset {
            if t.starts_with('S') {
                *fan.entry(t.clone()).or_default() += 1;
            }
        }
    }
    let diamond = fan.values().any(|n| *n >= 2);
    let sink = (0..n).any(|i| c.prog.streams[i].pass_like() && !fan.contains_key(&sname(i)));
    let depth = {
        // longest chain of Src::Stream links
        let mut d = vec![1usize; n];
        for i in 0..n {
            if let Some(Src::Stream(j)) = c.prog.streams[i].src() {
                d[i] = d[*j] + 1;
            }
        }
        d.into_iter().max().unwrap_or(1)
    };
    Outcome::pass()
        .nontrivial((diamond || sink) && derived_deliveries > 0)
        .class_if(diamond, "diamond")
        .class_if(sink, "stream_without_consumer")
        .class_if(derived_deliveries > 0, "derived_delivery")
        .class(format!("chain_depth={}", depth))
        .class_if(c.prog.streams.iter().any(|s| matches!(s, Shape::Filter { emit: Emit::None, .. })), "has_noemit_stream")
        .class_if(c.prog.streams.iter().any(|s| matches!(s, Shape::Process { .. })), "has_process_stream")
}

fn main() {
    let check = Check::new("C17", "exploration");
    check.rule("programs of 1-5 streams (filters with/without emit, distinct, limit as inner nodes; windows/aggregates, sequences, joins as leaves) wired into chains and diamonds over A,B,C; <=40 events, random batch split; all four entry points. Hook H3 records every (stream, event type, event id) handed to a stream's pipeline. Oracle: the recorded multiset equals the expected deliveries computed by forward propagation through the program's DECLARED consumption graph with a model of the pass-like operators (filter condition, v+1 emit, distinct(v), limit(n)): none missing, none twice, none to a stream that consumes neither the type nor the stream name. Non-trivial = a diamond or a stream without downstream consumer, with >=1 derived delivery.");
    check.assume("hook H3 sits at the top of process_stream_with_functions / process_stream_sync; filter conditions only over fields that are always present; cycles / chains beyond depth 10 are not generated");
    check.explore("deliveries", strat, 10_000, 100_000, run);
    check.finish();
}
