//! C15 Joins correlate exactly the same-key events that are within the window.
//!
//! Reference model (statement + DESIGN §2.7): the list of all arrivals.  When event e (source
//! s_e, key k, timestamp t) arrives, for every joined source s let
//!   P_s = the events of s received so far (e included) with key k and ts >= t - W, in arrival order.
//! A joined output is required iff every P_s is non-empty, forbidden iff some P_s is empty, and
//! its fields for source s come from the most recently arrived member of P_s.
//!
//! Two implementation limits make some verdicts three-valued (the statement does not mention
//! either, the quantifier names the first):
//!  * the per-(source,key) cap keeps only the most recent `cap` arrivals — an event with >= cap later
//!    arrivals of its (source,key) may or may not still be buffered;
//!  * expiry runs on the timestamp of whatever arrives: an event x is dropped once some later
//!    arrival j had t_j - W > x.ts.  For in-order input such an x is outside every later window,
//!    but an *older-stamped late arrival* e can still have x inside its window.  Arrivals whose
//!    verdict depends on such an x are the known-finding class `late-arrival-behind-expiry`;
//!    generated cases skip judging exactly those arrivals (counted as `excluded:*`), the
//!    committed replay judges them by the literal statement.
//! D_s = members of P_s that are certainly still buffered (fewer than cap later arrivals of the
//! same source/key, no later arrival j with t_j - W > x.ts).  Output is *required* iff all D_s are
//! non-empty; the member chosen for s must be in P_s and must not be older (by arrival) than
//! any member of D_s.
use proptest::prelude::*;
use serde::{Deserialize, Serialize};
use std::collections::BTreeMap;
use varpulis_core::Value;
use varpulis_runtime::join::JoinBuffer;
use vh_common::{Check, Outcome};
use vh_gen::engine::Eng;
use vh_gen::{Ev, V};

const SRC: [&str; 3] = ["A", "B", "C"];
const KEYS: [&str; 3] = ["ka", "kb", "kc"];
const ID0: i64 = 100;

#[derive(Clone, Debug, Serialize, Deserialize)]
struct JEv {
    src: u8,
    /// None = the event has no key field
    key: Option<u8>,
    /// timestamp in grid units
    ts: i64,
}

#[derive(Clone, Debug, Serialize, Deserialize)]
struct Case {
    nsrc: u8,
    /// window in grid units (direct: 1 unit = 100 ms, engine: 1 unit = 1 s)
    window: i64,
    /// per source/key cap (direct API only; None = default 1000)
    cap: Option<u8>,
    /// judge arrivals of the known-finding class by the literal statement (replays only)
    strict_late: bool,
    evs: Vec<JEv>,
}

fn strat(engine: bool) -> impl Strategy<Value = Case> {
    (
        prop_oneof![2 => Just(2u8), 1 => Just(3u8)],
        1i64..=5,
        prop_oneof![2 => Just(None), 2 => Just(Some(2u8)), 2 => (1u8..=4).prop_map(Some)],
        // 0 in-order, 1 mild disorder, 2 strong disorder, 3 mostly stale-on-arrival (older than the window)
        prop_oneof![3 => Just(0u8), 3 => Just(1u8), 2 => Just(2u8), 2 => Just(3u8)],
        1u8..=3,
        proptest::collection::vec((0u8..3, 0u8..20, 0u8..8, 0u8..100, 0u8..8), 0..=60),
    )
        .prop_map(move |(nsrc, window, cap, disorder, nkeys, raw)| {
            let mut cur = 0i64;
            let mut evs = vec![];
            for (src, key, dsel, jit, jamt) in raw {
                let delta = [0, 0, 1, 1, 1, 2, window, window + 1][dsel as usize % 8];
                cur += delta;
                let mut ts = cur;
                let p = match disorder {
                    0 => 0,
                    1 => 15,
                    2 => 40,
                    _ => 65,
                };
                if jit < p {
                    let amt = if disorder == 3 {
                        [window + 1, window + 1, window + 2, 2 * window, 2 * window + 1, window, 1, 3 * window][jamt as usize % 8]
                    } else {
                        [1, 1, 2, window - 1, window, window + 1, window + 2, 2 * window][jamt as usize % 8].max(1)
                    };
                    ts = (cur - amt).max(0);
                }
                let key = if key == 19 { None } else { Some(key % nkeys) };
                evs.push(JEv { src: src % nsrc, key, ts });
            }
            Case { nsrc, window, cap: if engine { None } else { cap }, strict_late: false, evs }
        })
}

// --------------------------------------------------------------- reference model

#[derive(Debug)]
struct Verdict {
    /// per source: P_s as arrival indices
    p: Vec<Vec<usize>>,
    /// per source: D_s
    d: Vec<Vec<usize>>,
    /// per source: members of P_s that are within the cap but may have been expired by a later-stamped arrival
    late_only: Vec<Vec<usize>>,
}

fn verdict(case: &Case, m: usize) -> Option<Verdict> {
    let e = &case.evs[m];
    let k = e.key?;
    let w = case.window;
    let cap = case.cap.map(|c| c as usize).unwrap_or(1000);
    let mut v = Verdict { p: vec![], d: vec![], late_only: vec![] };
    for s in 0..case.nsrc {
        let same: Vec<usize> = (0..=m).filter(|&i| case.evs[i].src == s && case.evs[i].key == Some(k)).collect();
        let mut p = vec![];
        let mut d = vec![];
        let mut lo = vec![];
        for (pos, &i) in same.iter().enumerate() {
            let x = &case.evs[i];
            if x.ts < e.ts - w {
                continue;
            }
            p.push(i);
            let later_same = same.len() - 1 - pos;
            let within_cap = later_same < cap;
            // an arrival strictly between x and e that carried a key and whose window had already left x behind
            let expirable = (i + 1..m).any(|j| case.evs[j].key.is_some() && x.ts < case.evs[j].ts - w);
            if within_cap && !expirable {
                d.push(i);
            } else if within_cap {
                lo.push(i);
            }
        }
        v.p.push(p);
        v.d.push(d);
        v.late_only.push(lo);
    }
    Some(v)
}

/// naive in-order model: window [t-W, t], freshest = greatest timestamp (ties: latest arrival)
fn naive(case: &Case, m: usize) -> Option<Option<Vec<usize>>> {
    let e = &case.evs[m];
    let k = e.key?;
    let mut pick = vec![];
    for s in 0..case.nsrc {
        let best = (0..=m).filter(|&i| case.evs[i].src == s && case.evs[i].key == Some(k) && case.evs[i].ts >= e.ts - case.window && case.evs[i].ts <= e.ts).max_by_key(|&i| (case.evs[i].ts, i));
        match best {
            Some(i) => pick.push(i),
            None => return Some(None),
        }
    }
    Some(Some(pick))
}

#[derive(Default)]
struct Tally {
    outputs: usize,
    required: usize,
    forbidden: usize,
    either_cap: usize,
    excluded_late: usize,
    naive_differs: usize,
    cap_bites: usize,
    out_of_order: bool,
    future_partner: usize,
}

/// Judge what the implementation did on arrival m: `got` = per source the id chosen, or None (no output).
fn judge_arrival(case: &Case, what: &str, m: usize, got: Option<&Vec<Option<i64>>>, t: &mut Tally) -> Result<(), (String, String)> {
    let e = &case.evs[m];
    let Some(v) = verdict(case, m) else {
        // no key value: nothing can be correlated
        if got.is_some() {
            return Err((format!("{}:output-for-keyless-event", what), format!("arrival #{} has no key field but produced {:?}", m, got)));
        }
        return Ok(());
    };
    let possible = v.p.iter().all(|p| !p.is_empty());
    let required = v.d.iter().all(|d| !d.is_empty());
    // would the answer be "required" if expiry by later-stamped arrivals did not exist?
    let required_but_for_expiry = (0..case.nsrc as usize).all(|s| !v.d[s].is_empty() || !v.late_only[s].is_empty());
    // statistics
    if let Some(n) = naive(case, m) {
        let truth: Option<Vec<usize>> = if possible { Some(v.p.iter().map(|p| *p.last().unwrap()).collect()) } else { None };
        if n != truth {
            t.naive_differs += 1;
        }
    }
    if v.p.iter().flatten().any(|&i| case.evs[i].ts > e.ts) {
        t.future_partner += 1;
    }
    let late_class = possible && !required && required_but_for_expiry;
    if possible && !required && !required_but_for_expiry {
        t.cap_bites += 1;
    }
    match got {
        None => {
            if required {
                return Err((
                    format!("{}:miss:retained-event-lost", what),
                    format!("arrival #{} {:?}: every source has a buffered same-key event in the window (certain sets {:?}) but no output", m, e, v.d),
                ));
            }
            if late_class {
                if case.strict_late {
                    return Err((
                        "late-arrival-behind-expiry:miss".to_string(),
                        format!("arrival #{} {:?}: in-window same-key events {:?} exist for every source, but some were already expired by a later-stamped arrival; no output", m, e, v.p),
                    ));
                }
                t.excluded_late += 1;
            } else if possible {
                t.either_cap += 1;
            } else {
                t.forbidden += 1;
            }
            Ok(())
        }
        Some(ids) => {
            t.outputs += 1;
            if !possible {
                return Err((
                    format!("{}:spurious-output", what),
                    format!("arrival #{} {:?}: output {:?} but some source has no same-key event with ts >= {} (P = {:?})", m, e, ids, e.ts - case.window, v.p),
                ));
            }
            if required {
                t.required += 1;
            } else if late_class {
                t.excluded_late += 1;
            } else {
                t.either_cap += 1;
            }
            for s in 0..case.nsrc as usize {
                let Some(id) = ids[s] else {
                    return Err((format!("{}:output-lacks-source", what), format!("arrival #{}: output has no id for source {}", m, SRC[s])));
                };
                let idx = (id - ID0) as usize;
                if !v.p[s].contains(&idx) {
                    return Err((
                        format!("{}:wrong-partner", what),
                        format!("arrival #{} {:?}: source {} field comes from arrival #{} {:?} which is not a same-key in-window event (P = {:?})", m, e, SRC[s], idx, case.evs.get(idx), v.p[s]),
                    ));
                }
                // must be the most recently arrived, unless the more recent ones may legitimately be gone
                if let Some(&newer) = v.d[s].iter().find(|&&i| i > idx) {
                    return Err((
                        format!("{}:stale-partner", what),
                        format!("arrival #{} {:?}: source {} field comes from arrival #{} but #{} arrived later, is in the window and is certainly buffered (P = {:?})", m, e, SRC[s], idx, newer, v.p[s]),
                    ));
                }
                if case.strict_late {
                    if let Some(&newer) = v.late_only[s].iter().find(|&&i| i > idx) {
                        return Err((
                            "late-arrival-behind-expiry:stale".to_string(),
                            format!("arrival #{} {:?}: source {} field comes from arrival #{} but #{} arrived later and is in the window (expired early)", m, e, SRC[s], idx, newer),
                        ));
                    }
                }
            }
            Ok(())
        }
    }
}

fn finish(case: &Case, t: Tally, api: &str) -> Outcome {
    let cap_reached = t.cap_bites > 0;
    Outcome::pass()
        .nontrivial((t.naive_differs > 0 || cap_reached) && t.outputs > 0)
        .class(format!("{}way", case.nsrc))
        .class(api.to_string())
        .class_if(t.outputs >= 3, "outputs>=3")
        .class_if(t.required > 0, "judged:required_output")
        .class_if(t.forbidden > 0, "judged:forbidden_output")
        .class_if(t.naive_differs > 0, "differs_from_naive_in_order_model")
        .class_if(t.future_partner > 0, "partner_stamped_later_than_arrival")
        .class_if(cap_reached, "cap_decides")
        .class_if(t.either_cap > 0, "either:cap")
        .class_if(t.excluded_late > 0, "excluded:late-arrival-behind-expiry")
        .class_if(t.out_of_order, "out_of_order")
        .class_if(case.cap.is_some(), "with_cap")
}

fn mk_event(case: &Case, m: usize, scale: i64) -> Ev {
    let e = &case.evs[m];
    let mut ev = Ev::new(SRC[e.src as usize], e.ts * scale).with("id", V::Int(ID0 + m as i64)).with("v", V::Int(7 * m as i64));
    if let Some(k) = e.key {
        ev = ev.with("k", V::s(KEYS[k as usize % 3]));
    }
    ev
}

fn out_of_order(case: &Case) -> bool {
    case.evs.windows(2).any(|w| w[1].ts < w[0].ts)
}

fn run_direct(case: &Case) -> Outcome {
    let sources: Vec<String> = SRC[..case.nsrc as usize].iter().map(|s| s.to_string()).collect();
    let mut keys = rustc_hash::FxHashMap::default();
    for s in &sources {
        keys.insert(s.clone(), "k".to_string());
    }
    let mut jb = JoinBuffer::new(sources, keys, chrono::Duration::milliseconds(case.window * 100));
    if let Some(c) = case.cap {
        jb = jb.with_max_events(c as usize);
    }
    let mut t = Tally { out_of_order: out_of_order(case), ..Default::default() };
    for m in 0..case.evs.len() {
        let ev = mk_event(case, m, 100).to_event();
        let out = jb.add_event(SRC[case.evs[m].src as usize], ev);
        let got: Option<Vec<Option<i64>>> = out.as_ref().map(|o| {
            (0..case.nsrc as usize)
                .map(|s| match o.get(&format!("{}.id", SRC[s])) {
                    Some(Value::Int(i)) => Some(*i),
                    _ => None,
                })
                .collect()
        });
        if let Some(o) = &out {
            // payload fields must come from the same event as the id
            for s in 0..case.nsrc as usize {
                if let (Some(Value::Int(id)), v) = (o.get(&format!("{}.id", SRC[s])), o.get(&format!("{}.v", SRC[s]))) {
                    if v != Some(&Value::Int(7 * (id - ID0))) {
                        return Outcome::fail("direct:mixed-fields", format!("source {} id {} with payload {:?} | {:?}", SRC[s], id, v, case));
                    }
                }
            }
        }
        if let Err((sig, d)) = judge_arrival(case, "direct", m, got.as_ref(), &mut t) {
            return Outcome::fail(sig, format!("{} | {:?}", d, case));
        }
    }
    finish(case, t, "api:direct")
}

fn vpl(case: &Case) -> String {
    let srcs = &SRC[..case.nsrc as usize];
    let on = if case.nsrc == 2 { "A.k == B.k".to_string() } else { "A.k == B.k and B.k == C.k".to_string() };
    let emit: Vec<String> = srcs.iter().map(|s| format!("id_{}: {}.id, v_{}: {}.v", s, s, s, s)).collect();
    format!("stream J = join({})\n    .on({})\n    .window({}s)\n    .emit({})\n", srcs.join(", "), on, case.window, emit.join(", "))
}

fn run_engine(case: &Case) -> Outcome {
    let src = vpl(case);
    let mut eng = match Eng::new(&src) {
        Ok(e) => e,
        Err(e) => return Outcome::discard(format!("program rejected: {}", vh_common::truncate(&e, 80))),
    };
    let mut t = Tally { out_of_order: out_of_order(case), ..Default::default() };
    for m in 0..case.evs.len() {
        let outs = match eng.process(&mk_event(case, m, 1000)) {
            Ok(o) => o,
            Err(e) => return Outcome::fail("engine:process-error", e),
        };
        if outs.len() > 1 {
            return Outcome::fail("engine:several-outputs-per-arrival", format!("arrival #{} produced {} outputs | {} | {:?}", m, outs.len(), src, case));
        }
        let got: Option<Vec<Option<i64>>> = outs.first().map(|o| {
            (0..case.nsrc as usize)
                .map(|s| match o.get(&format!("id_{}", SRC[s])) {
                    Some(Value::Int(i)) => Some(*i),
                    _ => None,
                })
                .collect()
        });
        if let Some(o) = outs.first() {
            for s in 0..case.nsrc as usize {
                if let (Some(Value::Int(id)), v) = (o.get(&format!("id_{}", SRC[s])), o.get(&format!("v_{}", SRC[s]))) {
                    if v != Some(&Value::Int(7 * (id - ID0))) {
                        return Outcome::fail("engine:mixed-fields", format!("source {} id {} with payload {:?} | {} | {:?}", SRC[s], id, v, src, case));
                    }
                }
            }
        }
        if let Err((sig, d)) = judge_arrival(case, "engine", m, got.as_ref(), &mut t) {
            return Outcome::fail(sig, format!("{} | {} | {:?}", d, src, case));
        }
    }
    finish(case, t, "api:engine")
}

fn main() {
    let check = Check::new("C15", "exploration");
    check.rule(
        "2- and 3-way joins on a string key (1-3 key values, some events without the key field), window 1-5 grid units, streams of <=60 events over the sources with deltas {0,1,2,W,W+1} \
         and (in 7/10 of cases) bounded disorder (events stamped 1..3W units in the past, one mode where most events are older than the window on arrival); direct JoinBuffer (unit 100 ms so that the periodic GC runs, with_max_events 1-4 in 2/3 of cases) \
         and Engine API (join(..).on(..).window(Ws).emit(ids and payloads), unit 1 s). Oracle: reference model over the arrival list (lower bound ts >= t - W only, most recently arrived partner), \
         three-valued where the cap or an earlier expiry decides. non-trivial = at least one output and (some arrival whose answer differs from a naive in-order model, or the cap decides an answer)",
    );
    check.assume("arrivals whose verdict depends on an event already expired by a later-stamped arrival (known finding late-arrival-behind-expiry) are not judged in generated cases (counted as excluded:*)");
    check.assume("when the cap may have evicted the only in-window partner the output is accepted either way");
    check.explore("direct", || strat(false), 40_000, 800_000, run_direct);
    check.explore("engine", || strat(true), 10_000, 200_000, run_engine);
    check.finish();
}
