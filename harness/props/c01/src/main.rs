//! C01 Every reported pattern match is a genuine occurrence of the pattern.
use proptest::prelude::*;
use serde::{Deserialize, Serialize};
use vh_common::{Check, Outcome};
use vh_gen::engine::Eng;
use vh_gen::seq::*;
use vh_gen::{Ev, OutEv};

#[derive(Clone, Debug, Serialize, Deserialize)]
struct Case {
    kind: VKind,
    pat: Pat,
    events: Vec<Ev>,
}

fn strat() -> impl Strategy<Value = Case> {
    prop_oneof![Just(VKind::Int), Just(VKind::Int), Just(VKind::Float)].prop_flat_map(|kind| {
        (pat(kind, PatOpts { allow_all: true, allow_not: true, allow_partition: true, max_steps: 4 }), events(kind, 40, 3, true, false)).prop_map(move |(pat, events)| Case { kind, pat, events })
    })
}

fn classes(o: Outcome, p: &Pat, matches: usize) -> Outcome {
    let multi = p.steps.len() >= 2;
    let cross = p.steps.iter().any(|s| s.filter.as_ref().is_some_and(|f| f.has_ref()));
    let nt = matches > 0 && multi && (cross || p.partition || p.not.is_some() || p.has_all());
    o.nontrivial(nt)
        .class(format!("steps={}", p.steps.len()))
        .class_if(p.partition, "partitioned")
        .class_if(p.not.is_some(), "has_not")
        .class_if(p.has_all(), "has_all")
        .class_if(cross, "cross_alias_filter")
        .class_if(matches > 0, "has_match")
        .class_if(p.seq_form, "sequence_form")
}

/// (i) Engine API: one id per alias (`all` steps report their last event).
fn run_engine(c: &Case) -> Outcome {
    let p = &c.pat;
    let src = p.render("M");
    let mut eng = match Eng::new(&src) {
        Ok(e) => e,
        Err(e) => return Outcome::discard(format!("engine rejected generated program: {}", vh_common::truncate(&e, 60))),
    };
    let mut all = c.events.clone();
    all.extend(sentinels(p, &c.events, c.kind));
    let outs = match eng.process_all(&all) {
        Ok(o) => o,
        Err(e) => return Outcome::fail("engine-error", e),
    };
    let mut n = 0;
    for o in outs.iter().map(OutEv::from_event) {
        let ids: Option<Vec<i64>> = p.steps.iter().map(|s| o.get_int(&format!("{}_id", s.alias))).collect();
        let Some(ids) = ids else { return Outcome::fail("output-without-step-ids", format!("{:?}\n{}", o, src)) };
        if ids.iter().any(|i| *i >= SENTINEL_BASE) {
            continue;
        }
        n += 1;
        // an `all` step is represented by its last event only: validate as if single
        let mut p1 = p.clone();
        for s in p1.steps.iter_mut() {
            s.all = false;
        }
        let steps: StepIds = ids.iter().map(|i| vec![*i]).collect();
        if let Err((sig, d)) = validate_match(&p1, &c.events, &steps) {
            if sig == "undecidable" {
                return Outcome::discard("filter undecidable in harness domain");
            }
            return Outcome::fail(format!("engine:{}", sig), format!("program:\n{}\nmatch {:?}: {}", src, ids, d));
        }
    }
    classes(Outcome::pass(), p, n)
}

/// (ii) direct SaseEngine::process: the full stack of every match.
fn run_direct(c: &Case) -> Outcome {
    let p = &c.pat;
    let src = p.render("M");
    let mut sase = match direct_sase(&src, "M") {
        Ok(e) => e,
        Err(e) => return Outcome::discard(format!("direct build failed: {}", vh_common::truncate(&e, 60))),
    };
    let mut all = c.events.clone();
    all.extend(sentinels(p, &c.events, c.kind));
    let routed = p.types();
    let mut n = 0;
    let mut kleene_multi = false;
    for ev in &all {
        if !routed.contains(&ev.ty) {
            continue; // the engine routes only the pattern's event types to the stream
        }
        let e = ev.to_event();
        for m in sase.process(&e) {
            let mut steps: StepIds = vec![vec![]; p.steps.len()];
            let mut sentinel = false;
            for entry in &m.stack {
                let id = entry.event.get("id").and_then(|v| v.as_int()).unwrap_or(-1);
                if id >= SENTINEL_BASE {
                    sentinel = true;
                }
                let Some(alias) = &entry.alias else { return Outcome::fail("direct:stack-entry-without-alias", format!("{}", src)) };
                let Some(si) = p.steps.iter().position(|s| &s.alias == alias) else { return Outcome::fail("direct:unknown-alias", alias.clone()) };
                steps[si].push(id);
            }
            if sentinel {
                continue;
            }
            n += 1;
            if steps.iter().any(|s| s.len() > 1) {
                kleene_multi = true;
            }
            if let Err((sig, d)) = validate_match(p, &c.events, &steps) {
                if sig == "undecidable" {
                    return Outcome::discard("filter undecidable in harness domain");
                }
                return Outcome::fail(format!("direct:{}", sig), format!("program:\n{}\nmatch {:?}: {}", src, steps, d));
            }
            // captured map must agree with the stack (last event per alias)
            for (si, s) in p.steps.iter().enumerate() {
                let cap = m.captured.get(&s.alias).and_then(|e| e.get("id")).and_then(|v| v.as_int());
                if cap != steps[si].last().cloned() {
                    return Outcome::fail("direct:captured-differs-from-stack", format!("{}\nalias {} captured {:?} stack {:?}", src, s.alias, cap, steps[si]));
                }
            }
        }
    }
    classes(Outcome::pass(), p, n).class_if(kleene_multi, "kleene_step_with_several_events")
}

fn main() {
    let check = Check::new("C01", "exploration");
    check.rule("random 1-4 step sequence programs (optional `all` steps, constant and cross-alias filters on both predicate paths, and/or/not, optional partition_by incl. missing key, optional .not clause; both surface forms) rendered to VPL; streams of <=40 events over 4 types with unique ids. Every emitted match is checked by an independent validity predicate over the INPUT events: step order = arrival order, type per step, step filter true under the earlier captures, one partition value, no event satisfying the .not clause strictly between first and last. Sub-check `engine` drives the real Engine (one id per alias from the emitted fields); `direct` drives SaseEngine::process built through the public compiler functions and validates the whole stack incl. every event of an `all` step. Non-trivial = >=1 match of a >=2-step pattern with a cross-alias filter, partition, not-clause or `all`.");
    check.assume("filters are evaluated by the harness only within one type (int/int, float/float, str/str) with all referenced fields present; self-referencing Kleene filters are C03's domain and not generated");
    check.explore("engine", strat, 12_000, 120_000, run_engine);
    check.explore("direct", strat, 12_000, 120_000, run_direct);
    check.finish();
}
