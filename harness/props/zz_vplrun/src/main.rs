//! Debug tool: `zz_vplrun <file.vpl> <events.jsonl>`; each event line: {"ty":"A","ts_ms":0,"fields":[["id",{"Int":1}], ...]}
use vh_gen::engine::Eng;
use vh_gen::Ev;
fn main() {
    let a: Vec<String> = std::env::args().collect();
    let src = std::fs::read_to_string(&a[1]).unwrap();
    let mut eng = Eng::new(&src).unwrap_or_else(|e| panic!("{}", e));
    for line in std::fs::read_to_string(&a[2]).unwrap().lines().filter(|l| !l.trim().is_empty()) {
        let ev: Ev = serde_json::from_str(line).unwrap();
        let outs = eng.process(&ev).unwrap();
        println!("in  {} {:?}", ev.ty, ev.fields);
        for o in outs {
            println!("   out {} {:?}", o.event_type, o.data);
        }
    }
}
