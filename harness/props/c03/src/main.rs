//! C03 Kleene closures report every admissible combination, up to the documented caps.
use proptest::prelude::*;
use serde::{Deserialize, Serialize};
use std::collections::{BTreeMap, BTreeSet};
use vh_common::{Check, Outcome};
use vh_gen::engine::Eng;
use vh_gen::seq::{direct_sase, Op};
use vh_gen::{Ev, OutEv, V};

#[derive(Clone, Debug, PartialEq, Serialize, Deserialize)]
enum Pred {
    None,
    /// `v op const`   (consistent)
    Const(Op, i64),
    /// `v op a.v`     (consistent: references another alias)
    RefA(Op),
    /// `v op b.v`     (self-referencing -> postponed to enumeration)
    SelfRef(Op),
}

#[derive(Clone, Debug, Serialize, Deserialize)]
struct Case {
    pred: Pred,
    /// pattern ends with `all B` (no C step)
    trailing: bool,
    /// cap on Kleene events kept (None = default 20) and on matches per completion (None = default 10000)
    max_events: Option<u32>,
    max_results: Option<usize>,
    events: Vec<Ev>,
}

impl Case {
    fn src(&self) -> String {
        let f = match &self.pred {
            Pred::None => String::new(),
            Pred::Const(op, c) => format!(" where v {} {}", op.text(), if *c < 0 { format!("({})", c) } else { c.to_string() }),
            Pred::RefA(op) => format!(" where v {} a.v", op.text()),
            Pred::SelfRef(op) => format!(" where v {} b.v", op.text()),
        };
        if self.trailing {
            format!("stream M = A as a\n    -> all B{} as b\n    .emit(a_id: a.id, b_id: b.id)\n", f)
        } else {
            format!("stream M = A as a\n    -> all B{} as b\n    -> C as c\n    .emit(a_id: a.id, b_id: b.id, c_id: c.id)\n", f)
        }
    }
    fn holds(&self, op: &Op, x: i64, y: i64) -> bool {
        op.holds(x.cmp(&y))
    }
}

fn v_of(e: &Ev) -> i64 {
    match e.get("v") {
        Some(V::Int(i)) => *i,
        _ => 0,
    }
}

fn op() -> impl Strategy<Value = Op> {
    prop_oneof![Just(Op::Gt), Just(Op::Lt), Just(Op::Ge), Just(Op::Le), Just(Op::Ne), Just(Op::Eq)]
}

fn strat(caps: bool) -> impl Strategy<Value = Case> {
    let pred = prop_oneof![
        1 => Just(Pred::None),
        2 => (op(), -1i64..4).prop_map(|(o, c)| Pred::Const(o, c)),
        2 => op().prop_map(Pred::RefA),
        5 => op().prop_map(Pred::SelfRef),
    ];
    // stream: A, then a burst of B (with noise), then C; optionally a second A early and a second burst
    let ev = prop_oneof![8 => Just("B"), 1 => Just("D"), 1 => Just("A"), 1 => Just("C")];
    let body = proptest::collection::vec((ev, 0i64..5), 0..16);
    let tail = proptest::collection::vec((prop_oneof![3 => Just("B"), 1 => Just("C"), 1 => Just("A")], 0i64..5), 0..5);
    (pred, prop_oneof![4 => Just(false), 1 => Just(true)], 0u32..16, 0u32..16, body, tail, any::<bool>()).prop_map(move |(pred, trailing, me, mr, body, tail, second_a)| {
        let mut evs: Vec<(String, i64)> = vec![("A".to_string(), me as i64 % 5)];
        if second_a {
            evs.push(("A".to_string(), mr as i64 % 5));
        }
        evs.extend(body.into_iter().map(|(t, v)| (t.to_string(), v)));
        evs.push(("C".to_string(), 0));
        evs.extend(tail.into_iter().map(|(t, v)| (t.to_string(), v)));
        evs.push(("C".to_string(), 0));
        let events = evs.into_iter().enumerate().map(|(i, (t, v))| Ev::new(&t, i as i64 * 10).with("id", V::Int(i as i64 + 1)).with("v", V::Int(v))).collect();
        // caps log-uniform in [1, 2^14]
        let (max_events, max_results) = if caps {
            (if me % 3 == 0 { None } else { Some(1 + (me % 15)) }, if mr % 4 == 0 { None } else { Some(1usize << (mr % 15)).map(|x| x.max(1) - (mr as usize % 2).min(x - 1)) })
        } else {
            (None, None)
        };
        Case { pred, trailing, max_events, max_results, events }
    })
}

/// One run of the reference model.
#[derive(Default, Clone)]
struct MRun {
    start: i64,
    a_v: i64,
    kept: Vec<(i64, i64)>, // (id, v) of kept B events
    seen_accepted: usize,
}

#[derive(Debug)]
struct Expected {
    /// start id, completing event id, kept B ids, admissible subsets (self-ref only)
    start: i64,
    at: i64,
    kept: Vec<i64>,
    admissible: Option<BTreeSet<Vec<i64>>>,
}

fn model(c: &Case) -> Vec<Expected> {
    let m = c.max_events.unwrap_or(20) as usize;
    let mut runs: Vec<MRun> = vec![];
    let mut out = vec![];
    for e in &c.events {
        let id = e.id();
        match e.ty.as_str() {
            "B" => {
                for r in runs.iter_mut() {
                    let ok = match &c.pred {
                        Pred::None | Pred::SelfRef(_) => true,
                        Pred::Const(op, k) => c.holds(op, v_of(e), *k),
                        Pred::RefA(op) => c.holds(op, v_of(e), r.a_v),
                    };
                    if !ok {
                        continue;
                    }
                    r.seen_accepted += 1;
                    let newly_kept = r.kept.len() < m;
                    if newly_kept {
                        r.kept.push((id, v_of(e)));
                    }
                    if c.trailing {
                        out.push(Expected { start: r.start, at: id, kept: r.kept.iter().map(|x| x.0).collect(), admissible: None });
                    }
                }
            }
            "C" if !c.trailing => {
                let mut rest = vec![];
                for r in runs.drain(..) {
                    if r.kept.is_empty() {
                        rest.push(r);
                        continue;
                    }
                    let admissible = if let Pred::SelfRef(op) = &c.pred {
                        let n = r.kept.len();
                        let mut set = BTreeSet::new();
                        for mask in 1u32..(1u32 << n) {
                            let sub: Vec<(i64, i64)> = (0..n).filter(|i| mask >> i & 1 == 1).map(|i| r.kept[i]).collect();
                            if sub.windows(2).all(|w| c.holds(op, w[1].1, w[0].1)) {
                                set.insert(sub.iter().map(|x| x.0).collect::<Vec<i64>>());
                            }
                        }
                        Some(set)
                    } else {
                        None
                    };
                    out.push(Expected { start: r.start, at: id, kept: r.kept.iter().map(|x| x.0).collect(), admissible });
                }
                runs = rest;
            }
            _ => {}
        }
        if e.ty == "A" {
            runs.push(MRun { start: id, a_v: v_of(e), ..Default::default() });
        }
    }
    out
}

fn ids(s: &str) -> Vec<i64> {
    s.split(',').filter(|x| !x.is_empty()).filter_map(|x| x.parse().ok()).collect()
}

/// direct SaseEngine with caps + hook H2 (combination side channel)
fn run_direct(c: &Case) -> Outcome {
    let src = c.src();
    let mut sase = match direct_sase(&src, "M") {
        Ok(s) => s,
        Err(e) => return Outcome::discard(format!("build: {}", e)),
    };
    if let Some(m) = c.max_events {
        sase = sase.with_max_kleene_events(m);
    }
    if let Some(r) = c.max_results {
        sase = sase.with_max_enumeration_results(r);
    }
    let r_cap = c.max_results.unwrap_or(10_000);
    let m_cap = c.max_events.unwrap_or(20) as usize;
    let expected = model(c);
    let selfref = matches!(c.pred, Pred::SelfRef(_));
    if c.trailing && selfref {
        return Outcome::pass().class("trailing_selfref_unjudged");
    }
    let mut got: BTreeMap<(i64, i64), Vec<Vec<i64>>> = BTreeMap::new(); // (start, completing id) -> B id lists
    let mut combos: BTreeMap<(i64, i64), Vec<Vec<i64>>> = BTreeMap::new();
    for ev in &c.events {
        if ev.ty == "D" || (c.trailing && ev.ty == "C") {
            continue; // the engine routes only the pattern's event types to the stream
        }
        let e = ev.to_event();
        varpulis_runtime::verif_hooks::start_recording();
        let ms = sase.process(&e);
        let trace = varpulis_runtime::verif_hooks::take();
        for (tag, payload) in trace {
            if tag == "sase_combo" {
                let (s, l) = payload.split_once('|').unwrap_or(("", ""));
                combos.entry((s.parse().unwrap_or(-1), ev.id())).or_default().push(ids(l));
            }
        }
        for m in ms {
            let st: Vec<(Option<String>, i64)> = m.stack.iter().map(|x| (x.alias.clone(), x.event.get("id").and_then(|v| v.as_int()).unwrap_or(-1))).collect();
            let start = st.first().map(|x| x.1).unwrap_or(-1);
            let bs: Vec<i64> = st.iter().filter(|x| x.0.as_deref() == Some("b")).map(|x| x.1).collect();
            if bs.len() > m_cap {
                return Outcome::fail(if c.trailing { "kept-more-than-max-kleene-events:trailing-all" } else { "kept-more-than-max-kleene-events" }, format!("{}\ncap {} stack b ids {:?}", src, m_cap, bs));
            }
            got.entry((start, ev.id())).or_default().push(bs);
        }
    }
    let mut nt = false;
    let mut capped_results = false;
    let mut capped_events = false;
    let mut seen_keys = BTreeSet::new();
    for ex in &expected {
        let key = (ex.start, ex.at);
        seen_keys.insert(key);
        let g = got.get(&key).cloned().unwrap_or_default();
        if ex.kept.len() == m_cap {
            capped_events = true;
        }
        match &ex.admissible {
            None => {
                // consistent class: exactly one match holding all kept B events
                if g.len() != 1 || g[0] != ex.kept {
                    return Outcome::fail(if c.trailing { "consistent:trailing-wrong-match" } else { "consistent:wrong-match" }, format!("{}\nstart {} completing {}: expected one match with B ids {:?}, got {:?}", src, ex.start, ex.at, ex.kept, g));
                }
            }
            Some(adm) => {
                let cs = combos.get(&key).cloned().unwrap_or_default();
                let want = adm.len().min(r_cap);
                if g.len() != want || cs.len() != want {
                    return Outcome::fail("selfref:wrong-match-count", format!("{}\nstart {} completing {}: kept {:?} admissible {} cap {} -> expected {} matches, got {} (combinations recorded {})", src, ex.start, ex.at, ex.kept, adm.len(), r_cap, want, g.len(), cs.len()));
                }
                let set: BTreeSet<Vec<i64>> = cs.iter().cloned().collect();
                if set.len() != cs.len() {
                    return Outcome::fail("selfref:duplicate-combination", format!("{}\n{:?}", src, cs));
                }
                if let Some(bad) = set.iter().find(|x| !adm.contains(*x)) {
                    return Outcome::fail("selfref:inadmissible-combination", format!("{}\ncombination {:?} kept {:?}", src, bad, ex.kept));
                }
                if adm.len() <= r_cap && &set != adm {
                    return Outcome::fail("selfref:missing-combination", format!("{}\nmissing {:?}", src, adm.difference(&set).collect::<Vec<_>>()));
                }
                if adm.len() > r_cap {
                    capped_results = true;
                }
                let total = (1usize << ex.kept.len()) - 1;
                if ex.kept.len() >= 3 && adm.len() < total && !adm.is_empty() {
                    nt = true;
                }
            }
        }
    }
    if let Some(extra) = got.keys().find(|k| !seen_keys.contains(*k)) {
        return Outcome::fail("unexpected-completion", format!("{}\nmatches for (start, completing) {:?}: {:?}", src, extra, got[extra]));
    }
    Outcome::pass()
        .nontrivial(nt || (!selfref && expected.iter().any(|e| e.kept.len() >= 2)))
        .class(match &c.pred {
            Pred::None => "pred=none",
            Pred::Const(..) => "pred=const",
            Pred::RefA(_) => "pred=ref_a",
            Pred::SelfRef(_) => "pred=selfref",
        })
        .class_if(c.trailing, "trailing_all")
        .class_if(capped_results, "enumeration_cap_hit")
        .class_if(capped_events, "kleene_event_cap_hit")
        .class_if(nt, "selfref_some_subsets_rejected_some_accepted")
        .class_if(expected.len() >= 2, "several_completions")
}

/// VPL route through the real Engine with default caps: count and (a, last b, c) multiset
fn run_engine(c: &Case) -> Outcome {
    let src = c.src();
    let selfref = matches!(c.pred, Pred::SelfRef(_));
    if c.trailing && selfref {
        return Outcome::pass().class("trailing_selfref_unjudged");
    }
    let mut eng = match Eng::new(&src) {
        Ok(e) => e,
        Err(e) => return Outcome::discard(format!("engine rejected: {}", vh_common::truncate(&e, 60))),
    };
    let outs = match eng.process_all(&c.events) {
        Ok(o) => o,
        Err(e) => return Outcome::fail("engine-error", e),
    };
    let mut got: Vec<(i64, i64)> = outs.iter().map(OutEv::from_event).map(|o| (o.get_int("a_id").unwrap_or(-1), o.get_int("b_id").unwrap_or(-1))).collect();
    got.sort();
    let mut want: Vec<(i64, i64)> = vec![];
    let mut capped = false;
    let mut want_count = 0usize;
    for ex in model(c) {
        match &ex.admissible {
            None => {
                want.push((ex.start, *ex.kept.last().unwrap()));
                want_count += 1;
            }
            Some(adm) => {
                // the engine's default enumeration cap (10 000 matches per completion) binds for long bursts:
                // which combinations are emitted is then unspecified, only their number is
                if adm.len() > 10_000 {
                    capped = true;
                }
                want_count += adm.len().min(10_000);
                want.extend(adm.iter().map(|s| (ex.start, *s.last().unwrap())));
            }
        }
    }
    want.sort();
    if capped {
        if got.len() != want_count {
            return Outcome::fail("engine:selfref-capped-count-differs", format!("{}\nexpected {} outputs (default cap 10000 per completion), got {}", src, want_count, got.len()));
        }
        let pool: std::collections::BTreeSet<(i64, i64)> = want.iter().cloned().collect();
        if let Some(bad) = got.iter().find(|g| !pool.contains(g)) {
            return Outcome::fail("engine:selfref-inadmissible-output", format!("{}\n{:?}", src, bad));
        }
        return Outcome::pass().nontrivial(true).class("engine_default_enumeration_cap_hit");
    }
    if got != want {
        return Outcome::fail(if selfref { "engine:selfref-outputs-differ" } else { "engine:consistent-outputs-differ" }, format!("{}\nexpected (a_id, last b_id) {:?}\ngot {:?}", src, want, got));
    }
    Outcome::pass().nontrivial(want.len() >= 2).class_if(selfref, "engine_selfref").class_if(c.trailing, "engine_trailing")
}

fn main() {
    let check = Check::new("C03", "exploration");
    check.rule("pattern `A as a -> all B [where f] as b [-> C as c]` with f in {none, v op const, v op a.v (consistent), v op b.v (self-referencing)}; streams A (A)? {B|D|A|C}^0..15 C {B|C|A}^0..4 C with small integer v (up to 14+ B events); caps max_kleene_events in 1..15 / default and max_enumeration_results in 1..2^14 / default. `direct`: SaseEngine::process + hook H2 (B ids of every emitted combination, per run): consistent class -> exactly one match per completion holding all kept B events (first m accepted); self-referencing -> combinations pairwise distinct, each an admissible subset (consecutive members satisfy f) of the kept events, count = min(r, |admissible|), equal to the admissible set when not capped; never more than m B events in a stack. `engine`: same programs as VPL through the real Engine with default caps, multiset of (a_id, last b_id) equals the model. Trailing `all` with a self-referencing filter is only counted (statement does not define it). Non-trivial = self-referencing case with >=3 kept events where some subset is rejected and some accepted, or consistent case keeping >=2 events.");
    check.assume("hook H2 faithfully reports the combination behind each emitted match");
    check.explore("direct", || strat(true), 15_000, 150_000, run_direct);
    check.explore("engine", || strat(false), 6_000, 60_000, run_engine);
    check.finish();
}
