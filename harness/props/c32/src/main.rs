//! C32 Coordinator bookkeeping stays consistent under any interleaving.
//!
//! The harness owns the schedule.  A history is a sequence of *phases* of the real coordinator
//! API: `plan_*` (what a REST handler does under the read lock), the execute phase (worker I/O,
//! no coordinator access) and `commit_*` (write lock) of deploy / teardown / manual migration are
//! separate steps, so plans are held across other operations' commits exactly as the lock
//! discipline of api.rs permits; composites that hold the write lock for their whole duration
//! (drain, failover after a sweep, rebalance, reconcile) are single steps.  Worker I/O goes to an
//! in-process mock worker whose per-request outcomes are part of the case (sub-check
//! `composites_http`), or is replaced by an equivalent simulation of the execute phase
//! (sub-check `phases_pure`, no HTTP, many more cases).
//!
//! Oracle = invariants after every step (statement of C32):
//!   I1 every Running placement's worker is registered;
//!   I2 each worker's assigned_pipelines, as a multiset, equals the Running placements on it;
//!   I3 pipelines_running equals the number of assigned pipelines.
//! Heartbeats are truthful: they report the number of pipelines alive on the (mock) worker.
use proptest::prelude::*;
use serde::{Deserialize, Serialize};
use std::collections::{BTreeMap, BTreeSet, VecDeque};
use std::sync::{Arc, Mutex};
use std::time::Duration;
use vh_common::{Check, Outcome};
use vh_server::varpulis_cluster as vc;
use vc::coordinator::{DeployGroupPlan, DeployResponse, DeployTaskResult, MigratePipelinePlan, TeardownPlan};
use vc::{Coordinator, HeartbeatRequest, MigrationReason, PipelineDeploymentStatus, PipelineGroupSpec, PipelinePlacement, WorkerId, WorkerNode, WorkerStatus};
use warp::Filter;

vh_clock::install!();

// ------------------------------------------------------------------ case

#[derive(Clone, Debug, Serialize, Deserialize)]
struct PipeReq {
    /// 0 -> "a", 1 -> "b": names are shared between groups (the same spec deployed twice)
    name: u8,
    replicas: usize,
    affinity: Option<usize>,
}

#[derive(Clone, Debug, Serialize, Deserialize)]
enum Step {
    Register { w: usize },
    Deregister { w: usize },
    Heartbeat { w: usize },
    Advance { secs: u64 },
    /// pure: health_sweep only.  http: body of the coordinator's sweep loop
    /// (health_sweep, failover of newly unhealthy workers, reconcile + rebalance when pending)
    Sweep { script: Vec<bool> },
    PlanDeploy { pipes: Vec<PipeReq>, outcomes: Vec<bool> },
    PlanTeardown { g: usize, outcomes: Vec<bool> },
    PlanMigrate { g: usize, r: usize, target: usize, deploy_ok: bool, delete_ok: bool },
    /// run the execute phase of held operation `op` (worker I/O; no coordinator access)
    Exec { op: usize },
    /// commit held operation `op` (executing it first if that has not happened yet)
    Commit { op: usize },
    // composites holding the write lock throughout (http sub-check only)
    Drain { w: usize, script: Vec<bool> },
    /// k8s watcher: Ready -> Unhealthy, then failover
    PodFailure { w: usize, script: Vec<bool> },
    Rebalance { script: Vec<bool> },
}

#[derive(Clone, Debug, Serialize, Deserialize)]
struct Case {
    workers: usize,
    steps: Vec<Step>,
    /// hazard classes that are normally excluded by construction (known findings); only
    /// committed replay files set this
    #[serde(default)]
    allow: Vec<String>,
}

fn pipes_strat(workers: usize, http: bool) -> impl Strategy<Value = Vec<PipeReq>> {
    // mostly pinned: unpinned placement follows HashMap iteration order, i.e. is not reproducible
    // (rebalance only moves unpinned pipelines, so the http sub-check pins fewer)
    let pipe = (1usize..=3, prop_oneof![if http { 2 } else { 1 } => Just(None), 2 => (0..workers).prop_map(Some)]);
    prop::collection::vec(pipe, 1..=2).prop_map(|v| v.into_iter().enumerate().map(|(i, (replicas, affinity))| PipeReq { name: i as u8, replicas, affinity }).collect())
}

fn bools(n: usize) -> impl Strategy<Value = Vec<bool>> {
    prop::collection::vec(prop_oneof![4 => Just(true), 1 => Just(false)], 0..=n)
}

fn strat(http: bool) -> impl Strategy<Value = Case> {
    (2usize..=3).prop_flat_map(move |workers| {
        let w = 0..workers;
        let phases = prop_oneof![
            4 => (pipes_strat(workers, http), bools(6)).prop_map(|(pipes, outcomes)| Step::PlanDeploy { pipes, outcomes }),
            3 => (0usize..4, bools(6)).prop_map(|(g, outcomes)| Step::PlanTeardown { g, outcomes }),
            4 => (0usize..4, 0usize..6, w.clone(), prop::bool::weighted(0.8), prop::bool::weighted(0.8)).prop_map(|(g, r, target, deploy_ok, delete_ok)| Step::PlanMigrate { g, r, target, deploy_ok, delete_ok }),
            4 => (0usize..4).prop_map(|op| Step::Exec { op }),
            8 => (0usize..4).prop_map(|op| Step::Commit { op }),
            2 => w.clone().prop_map(|w| Step::Register { w }),
            1 => w.clone().prop_map(|w| Step::Deregister { w }),
            4 => w.clone().prop_map(|w| Step::Heartbeat { w }),
            2 => prop_oneof![Just(3u64), Just(8), Just(16)].prop_map(|secs| Step::Advance { secs }),
        ];
        let step = if http {
            prop_oneof![
                12 => phases,
                2 => bools(6).prop_map(|script| Step::Sweep { script }),
                1 => (w.clone(), bools(6)).prop_map(|(w, script)| Step::Drain { w, script }),
                1 => (w.clone(), bools(6)).prop_map(|(w, script)| Step::PodFailure { w, script }),
                1 => bools(6).prop_map(|script| Step::Rebalance { script }),
            ]
            .boxed()
        } else {
            prop_oneof![
                16 => phases,
                1 => Just(Step::Sweep { script: vec![] }),
            ]
            .boxed()
        };
        (Just(workers), prop::collection::vec(step, 4..=28)).prop_map(|(workers, mut steps)| {
            let mut pre: Vec<Step> = (0..workers).map(|w| Step::Register { w }).collect();
            pre.append(&mut steps);
            Case { workers, steps: pre, allow: vec![] }
        })
    })
}

// ------------------------------------------------------------------ mock worker truth

#[derive(Default)]
struct Truth {
    /// (worker slot, pipeline id) -> replica name
    alive: BTreeMap<(usize, String), String>,
    next_pid: u64,
    /// outcomes of the next deploy / delete requests (true = success); exhausted => success
    script: VecDeque<bool>,
}

impl Truth {
    fn deploy(&mut self, slot: usize, name: &str) -> Option<String> {
        if self.script.pop_front().unwrap_or(true) {
            let pid = format!("m{}", self.next_pid);
            self.next_pid += 1;
            self.alive.insert((slot, pid.clone()), name.to_string());
            Some(pid)
        } else {
            None
        }
    }
    fn delete(&mut self, slot: usize, pid: &str) -> bool {
        if self.script.pop_front().unwrap_or(true) {
            self.alive.remove(&(slot, pid.to_string()));
            true
        } else {
            false
        }
    }
    fn count(&self, slot: usize) -> usize {
        self.alive.keys().filter(|(s, _)| *s == slot).count()
    }
    fn restart(&mut self, slot: usize) {
        self.alive.retain(|(s, _), _| *s != slot);
    }
}

struct Env {
    rt: tokio::runtime::Runtime,
    addr: String,
    truth: Arc<Mutex<Truth>>,
}

fn slot_of_path(p: &str) -> Option<(usize, &str)> {
    let rest = p.strip_prefix("/w")?;
    let (n, tail) = rest.split_once('/')?;
    Some((n.parse().ok()?, tail))
}

impl Env {
    fn new() -> Env {
        let rt = tokio::runtime::Builder::new_current_thread().enable_all().build().expect("runtime");
        let truth = Arc::new(Mutex::new(Truth::default()));
        let t2 = truth.clone();
        let routes = warp::any().and(warp::method()).and(warp::path::full()).and(warp::body::bytes()).map(move |m: warp::http::Method, p: warp::path::FullPath, b: warp::hyper::body::Bytes| {
            use warp::http::{Method, StatusCode};
            use warp::reply::{json, with_status};
            let Some((slot, tail)) = slot_of_path(p.as_str()) else { return with_status(json(&serde_json::json!({"error": "bad path"})), StatusCode::NOT_FOUND) };
            let mut t = t2.lock().unwrap();
            if m == Method::POST && tail == "api/v1/pipelines" {
                let body: serde_json::Value = serde_json::from_slice(&b).unwrap_or(serde_json::Value::Null);
                let name = body["name"].as_str().unwrap_or("?").to_string();
                match t.deploy(slot, &name) {
                    Some(pid) => with_status(json(&serde_json::json!({"id": pid, "name": name, "status": "running"})), StatusCode::CREATED),
                    None => with_status(json(&serde_json::json!({"error": "scripted deploy failure"})), StatusCode::INTERNAL_SERVER_ERROR),
                }
            } else if m == Method::DELETE {
                let pid = tail.rsplit('/').next().unwrap_or("");
                if t.delete(slot, pid) {
                    with_status(json(&serde_json::json!({"deleted": true})), StatusCode::OK)
                } else {
                    with_status(json(&serde_json::json!({"error": "scripted delete failure"})), StatusCode::INTERNAL_SERVER_ERROR)
                }
            } else if tail.ends_with("/checkpoint") {
                with_status(json(&serde_json::json!({"error": "no checkpoint"})), StatusCode::INTERNAL_SERVER_ERROR)
            } else {
                with_status(json(&serde_json::json!({})), StatusCode::OK)
            }
        });
        let addr = {
            let _g = rt.enter();
            let (addr, fut) = warp::serve(routes).bind_ephemeral(([127, 0, 0, 1], 0));
            rt.spawn(fut);
            addr
        };
        Env { rt, addr: format!("http://{}", addr), truth }
    }
}

thread_local! {
    static ENV: Env = Env::new();
}

// ------------------------------------------------------------------ world

enum Held {
    Deploy { plan: DeployGroupPlan, outcomes: Vec<bool>, results: Option<Vec<DeployTaskResult>>, gens: Vec<u32> },
    /// `snap`: the group's placements (name -> worker id, pipeline id) when the plan was made, read from the
    /// coordinator state (NOT from the plan), so that 'changed since plan' does not depend on what the plan lists
    Teardown { plan: TeardownPlan, outcomes: Vec<bool>, executed: bool, snap: Vec<(String, String, String)> },
    Migrate { plan: MigratePipelinePlan, source_alive: bool, deploy_ok: bool, delete_ok: bool, result: Option<Result<String, String>> },
}

struct World<'a> {
    env: &'a Env,
    http: bool,
    coord: Coordinator,
    /// ids of committed groups in commit order (never shrinks: a torn down group stays addressable)
    groups: Vec<String>,
    ops: Vec<Held>,
    /// number of registrations per worker slot (a second registration is a worker restart)
    generation: Vec<u32>,
    allow: BTreeSet<String>,
}

fn wid(w: usize) -> WorkerId {
    WorkerId(format!("w{}", w))
}
fn slot(w: &WorkerId) -> usize {
    w.0.trim_start_matches('w').parse().unwrap_or(usize::MAX)
}

/// Known findings: hazard classes whose steps are skipped (and counted) unless the case allows them.
const EXCLUDED: &[&str] = &[
    "heartbeat:worker-count-ahead:executed-uncommitted-operation",
    "heartbeat:worker-count-differs:leftover-or-lost-pipelines",
    "register:worker-has-running-placements",
    "deregister:worker-has-running-placements",
    "drain:cannot-move-all-pipelines",
    "commit-deploy:planned-worker-deregistered",
    "commit-teardown:group-already-removed",
    "commit-teardown:placement-changed-since-plan",
    "commit-migrate:group-already-removed",
    "commit-migrate:placement-changed-since-plan",
    "commit-migrate:target-deregistered",
    "same-name-in-other-group-on-worker",
    "non-running-placement-migrated",
];

/// the placements of a group as the coordinator records them: (name, worker id, pipeline id), sorted
fn placement_snapshot(coord: &Coordinator, gid: &str) -> Vec<(String, String, String)> {
    let mut v: Vec<(String, String, String)> = coord
        .pipeline_groups
        .get(gid)
        .map(|g| g.placements.iter().map(|(n, d)| (n.clone(), d.worker_id.0.clone(), d.pipeline_id.clone())).collect())
        .unwrap_or_default();
    v.sort();
    v
}

impl<'a> World<'a> {
    fn truth(&self) -> std::sync::MutexGuard<'_, Truth> {
        self.env.truth.lock().unwrap()
    }

    // ---------------------------------------------------------- invariants

    fn running_on(&self, w: &WorkerId) -> BTreeMap<String, usize> {
        let mut m = BTreeMap::new();
        for g in self.coord.pipeline_groups.values() {
            for (name, d) in &g.placements {
                if d.status == PipelineDeploymentStatus::Running && d.worker_id == *w {
                    *m.entry(name.clone()).or_insert(0) += 1;
                }
            }
        }
        m
    }

    fn invariants(&self) -> Option<(&'static str, String)> {
        let mut gids: Vec<&String> = self.coord.pipeline_groups.keys().collect();
        gids.sort();
        for gid in &gids {
            let g = &self.coord.pipeline_groups[*gid];
            let mut names: Vec<&String> = g.placements.keys().collect();
            names.sort();
            for n in names {
                let d = &g.placements[n];
                if d.status == PipelineDeploymentStatus::Running && !self.coord.workers.contains_key(&d.worker_id) {
                    return Some(("running-placement-on-unregistered-worker", format!("group #{} replica {} is Running on {} which is not registered", self.group_no(gid), n, d.worker_id)));
                }
            }
        }
        let mut wids: Vec<&WorkerId> = self.coord.workers.keys().collect();
        wids.sort_by(|a, b| a.0.cmp(&b.0));
        for w in &wids {
            let node = &self.coord.workers[*w];
            let exp = self.running_on(w);
            let mut act: BTreeMap<String, usize> = BTreeMap::new();
            for n in &node.assigned_pipelines {
                *act.entry(n.clone()).or_insert(0) += 1;
            }
            for (n, c) in &act {
                if *c > exp.get(n).copied().unwrap_or(0) {
                    return Some(("assigned-without-running-placement", format!("{} lists {:?} but the Running placements on it are {:?}", w, node.assigned_pipelines, exp)));
                }
            }
            for (n, c) in &exp {
                if *c > act.get(n).copied().unwrap_or(0) {
                    return Some(("running-placement-missing-from-assigned", format!("{} lists {:?} but the Running placements on it are {:?}", w, node.assigned_pipelines, exp)));
                }
            }
        }
        for w in &wids {
            let node = &self.coord.workers[*w];
            if node.capacity.pipelines_running != node.assigned_pipelines.len() {
                return Some(("running-count-mismatch", format!("{} pipelines_running={} but assigned_pipelines={:?}", w, node.capacity.pipelines_running, node.assigned_pipelines)));
            }
        }
        None
    }

    fn group_no(&self, gid: &str) -> usize {
        self.groups.iter().position(|g| g == gid).unwrap_or(usize::MAX)
    }

    // ---------------------------------------------------------- hazard helpers

    /// some replica name has two Running placements (different groups) on worker `w`
    fn dup_name_on(&self, w: &WorkerId) -> bool {
        self.running_on(w).values().any(|c| *c > 1)
    }
    fn failed_placement_on(&self, w: &WorkerId) -> bool {
        self.coord.pipeline_groups.values().any(|g| g.placements.values().any(|d| d.worker_id == *w && d.status != PipelineDeploymentStatus::Running))
    }
    fn any_placement_on(&self, w: &WorkerId) -> bool {
        self.coord.pipeline_groups.values().any(|g| g.placements.values().any(|d| d.worker_id == *w))
    }
    fn other_available(&self, w: &WorkerId) -> bool {
        self.coord.workers.values().any(|n| n.id != *w && n.is_available())
    }

    /// Hazard classes of a step, computed before it runs: which kind of interleaving / state it
    /// realises.  Keys are `<step kind>:<what changed>` for stale commits and similar, or a bare
    /// mechanism name when the same mechanism is reached from several call sites.
    fn hazards(&self, step: &Step, kind: &str) -> Vec<String> {
        const SAME_NAME: &str = "same-name-in-other-group-on-worker";
        const NON_RUNNING: &str = "non-running-placement-migrated";
        let mut h: Vec<String> = vec![];
        let mut local = |x: &str| h.push(format!("{}:{}", kind, x));
        let mut global: Vec<&str> = vec![];
        match step {
            Step::Register { w } => {
                if !self.running_on(&wid(*w)).is_empty() {
                    local("worker-has-running-placements");
                }
            }
            Step::Deregister { w } => {
                if self.coord.workers.contains_key(&wid(*w)) && !self.running_on(&wid(*w)).is_empty() {
                    local("worker-has-running-placements");
                }
            }
            Step::Heartbeat { w } => {
                if let Some(n) = self.coord.workers.get(&wid(*w)) {
                    let truth = self.truth().count(*w);
                    if truth != n.assigned_pipelines.len() {
                        let inflight = self.ops.iter().any(|o| match o {
                            Held::Deploy { plan, results: Some(_), .. } => plan.tasks.iter().any(|t| slot(&t.worker_id) == *w),
                            Held::Teardown { plan, executed: true, .. } => plan.tasks.iter().any(|(_, d)| slot(&d.worker_id) == *w),
                            Held::Migrate { plan, result: Some(_), .. } => slot(&plan.target_worker_id) == *w || slot(&plan.source_worker_id) == *w,
                            _ => false,
                        });
                        local(if inflight { "worker-count-ahead:executed-uncommitted-operation" } else { "worker-count-differs:leftover-or-lost-pipelines" });
                    }
                }
            }
            Step::Commit { op } if !self.ops.is_empty() => match &self.ops[op % self.ops.len()] {
                Held::Deploy { plan, gens, .. } => {
                    if plan.tasks.iter().any(|t| !self.coord.workers.contains_key(&t.worker_id)) {
                        local("planned-worker-deregistered");
                    }
                    if plan.tasks.iter().any(|t| self.coord.workers.get(&t.worker_id).map(|w| w.status != WorkerStatus::Ready).unwrap_or(false)) {
                        local("planned-worker-no-longer-ready");
                    }
                    if *gens != self.generation {
                        local("some-worker-restarted-since-plan");
                    }
                }
                Held::Teardown { plan, snap, .. } => match self.coord.pipeline_groups.get(&plan.group_id) {
                    None => local("group-already-removed"),
                    Some(_) => {
                        if placement_snapshot(&self.coord, &plan.group_id) != *snap {
                            local("placement-changed-since-plan");
                        }
                        if plan.tasks.iter().any(|(n, d)| self.running_on(&d.worker_id).get(n).copied().unwrap_or(0) > 1) {
                            global.push(SAME_NAME);
                        }
                        if plan.tasks.iter().any(|(n, d)| self.coord.workers.get(&d.worker_id).map(|w| !w.assigned_pipelines.contains(n)).unwrap_or(false)) {
                            local("name-not-assigned-on-planned-worker");
                        }
                    }
                },
                Held::Migrate { plan, deploy_ok, result, .. } => {
                    let success = match result {
                        Some(r) => r.is_ok(),
                        None => *deploy_ok,
                    };
                    if success {
                        match self.coord.pipeline_groups.get(&plan.group_id) {
                            None => local("group-already-removed"),
                            Some(g) => match g.placements.get(&plan.pipeline_name) {
                                Some(c) if c.worker_id == plan.deployment.worker_id && c.pipeline_id == plan.deployment.pipeline_id && c.epoch == plan.deployment.epoch => {}
                                _ => local("placement-changed-since-plan"),
                            },
                        }
                        if !self.coord.workers.contains_key(&plan.target_worker_id) {
                            local("target-deregistered");
                        }
                        if plan.target_worker_id == plan.source_worker_id {
                            local("target-is-source");
                        }
                        if self.coord.workers.get(&plan.target_worker_id).map(|w| w.status != WorkerStatus::Ready).unwrap_or(false) {
                            local("target-no-longer-ready");
                        }
                        if !self.coord.workers.contains_key(&plan.source_worker_id) {
                            local("source-deregistered");
                        }
                        if plan.deployment.status != PipelineDeploymentStatus::Running {
                            global.push(NON_RUNNING);
                        }
                        if self.running_on(&plan.source_worker_id).get(&plan.pipeline_name).copied().unwrap_or(0) > 1 {
                            global.push(SAME_NAME);
                        }
                    }
                }
            },
            Step::Drain { w, script } => {
                let id = wid(*w);
                if self.coord.workers.get(&id).map(|n| n.status != WorkerStatus::Draining).unwrap_or(false) && self.any_placement_on(&id) {
                    // drain deregisters the worker at the end whatever could be moved
                    if !self.other_available(&id) || script.contains(&false) {
                        local("cannot-move-all-pipelines");
                    }
                    if self.failed_placement_on(&id) {
                        local("moves-failed-placement");
                    }
                    if self.dup_name_on(&id) {
                        local("same-name-on-drained-worker");
                    }
                }
            }
            Step::PodFailure { w, script } => {
                let id = wid(*w);
                if self.coord.workers.get(&id).map(|n| n.status == WorkerStatus::Ready).unwrap_or(false) && self.any_placement_on(&id) {
                    if script.contains(&false) {
                        local("scripted-worker-failure");
                    }
                    if self.failed_placement_on(&id) {
                        global.push(NON_RUNNING);
                    }
                    if self.dup_name_on(&id) {
                        global.push(SAME_NAME);
                    }
                }
            }
            Step::Sweep { script } | Step::Rebalance { script } => {
                // which workers fail over / get rebalanced is decided inside: judge all of them
                if self.http {
                    if script.contains(&false) {
                        local("scripted-worker-failure");
                    }
                    if self.coord.workers.keys().any(|w| self.failed_placement_on(w)) {
                        global.push(NON_RUNNING);
                    }
                    if self.coord.workers.keys().any(|w| self.dup_name_on(w)) {
                        global.push(SAME_NAME);
                    }
                }
            }
            _ => {}
        }
        h.extend(global.into_iter().map(String::from));
        h.sort();
        h.dedup();
        h
    }

    // ---------------------------------------------------------- execute phases

    fn exec(&mut self, idx: usize) {
        let http = self.http;
        let env = self.env;
        let client = self.coord.http_client().clone();
        let connectors = self.coord.connectors.clone();
        match &mut self.ops[idx] {
            Held::Deploy { plan, outcomes, results, .. } => {
                if results.is_some() {
                    return;
                }
                env.truth.lock().unwrap().script = outcomes.iter().copied().collect();
                let r = if http {
                    env.rt.block_on(Coordinator::execute_deploy_plan(&client, plan))
                } else {
                    // what execute_deploy_plan does: one deploy request per task, in order
                    let mut t = env.truth.lock().unwrap();
                    plan.tasks
                        .iter()
                        .map(|task| DeployTaskResult {
                            replica_name: task.replica_name.clone(),
                            pipeline_name: task.pipeline_name.clone(),
                            worker_id: task.worker_id.clone(),
                            worker_address: task.worker_address.clone(),
                            worker_api_key: task.worker_api_key.clone(),
                            replica_count: task.replica_count,
                            outcome: match t.deploy(slot(&task.worker_id), &task.replica_name) {
                                Some(pid) => Ok(DeployResponse { id: pid, name: task.replica_name.clone(), status: "running".into() }),
                                None => Err("HTTP 500 - scripted deploy failure".into()),
                            },
                        })
                        .collect()
                };
                *results = Some(r);
            }
            Held::Teardown { plan, outcomes, executed, .. } => {
                if *executed {
                    return;
                }
                env.truth.lock().unwrap().script = outcomes.iter().copied().collect();
                if http {
                    env.rt.block_on(Coordinator::execute_teardown_plan(&client, plan));
                } else {
                    let mut t = env.truth.lock().unwrap();
                    for (_, d) in &plan.tasks {
                        t.delete(slot(&d.worker_id), &d.pipeline_id);
                    }
                }
                *executed = true;
            }
            Held::Migrate { plan, source_alive, deploy_ok, delete_ok, result } => {
                if result.is_some() {
                    return;
                }
                env.truth.lock().unwrap().script = [*deploy_ok, *delete_ok].into_iter().collect();
                let r = if http {
                    env.rt.block_on(Coordinator::execute_migrate_plan(&client, plan, *source_alive, &connectors))
                } else {
                    // execute_migrate_plan: (checkpoint, best effort) deploy on target, (restore), delete on source if alive
                    let mut t = env.truth.lock().unwrap();
                    match t.deploy(slot(&plan.target_worker_id), &plan.pipeline_name) {
                        None => Err("Deploy to target failed".to_string()),
                        Some(pid) => {
                            if *source_alive && !plan.deployment.pipeline_id.is_empty() {
                                t.delete(slot(&plan.source_worker_id), &plan.deployment.pipeline_id);
                            }
                            Ok(pid)
                        }
                    }
                };
                *result = Some(r);
            }
        }
        env.truth.lock().unwrap().script.clear();
    }

    fn commit(&mut self, idx: usize) {
        self.exec(idx);
        match self.ops.remove(idx) {
            Held::Deploy { plan, results, .. } => {
                let gid = self.coord.commit_deploy_group(plan, results.unwrap()).expect("commit_deploy_group");
                self.groups.push(gid);
            }
            Held::Teardown { plan, .. } => self.coord.commit_teardown_group(&plan),
            Held::Migrate { plan, result, .. } => match result.unwrap() {
                Ok(pid) => {
                    self.coord.commit_migrate_pipeline(&plan, &pid, true, None);
                }
                Err(e) => {
                    self.coord.commit_migrate_pipeline(&plan, "", false, Some(e));
                }
            },
        }
    }
}

fn kind_of(step: &Step, ops: &[Held]) -> &'static str {
    match step {
        Step::Register { .. } => "register",
        Step::Deregister { .. } => "deregister",
        Step::Heartbeat { .. } => "heartbeat",
        Step::Advance { .. } => "advance",
        Step::Sweep { .. } => "sweep",
        Step::PlanDeploy { .. } => "plan-deploy",
        Step::PlanTeardown { .. } => "plan-teardown",
        Step::PlanMigrate { .. } => "plan-migrate",
        Step::Exec { .. } => "exec",
        Step::Commit { op } => {
            if ops.is_empty() {
                "commit-nothing"
            } else {
                match &ops[op % ops.len()] {
                    Held::Deploy { .. } => "commit-deploy",
                    Held::Teardown { .. } => "commit-teardown",
                    Held::Migrate { .. } => "commit-migrate",
                }
            }
        }
        Step::Drain { .. } => "drain",
        Step::PodFailure { .. } => "pod-failure",
        Step::Rebalance { .. } => "rebalance",
    }
}

fn run(http: bool, case: &Case) -> Outcome {
    ENV.with(|env| run_in(env, http, case))
}

fn run_in(env: &Env, http: bool, case: &Case) -> Outcome {
    *env.truth.lock().unwrap() = Truth::default();
    let mut wd = World { env, http, coord: Coordinator::new(), groups: vec![], ops: vec![], generation: vec![0; case.workers], allow: case.allow.iter().cloned().chain(std::env::var("C32_ALLOW").unwrap_or_default().split(',').filter(|s| !s.is_empty()).map(String::from)).collect() };
    wd.coord.heartbeat_timeout = Duration::from_millis(15_500);
    let mut classes: BTreeSet<String> = BTreeSet::new();
    let mut overlaps = 0usize; // commits that happened while another operation was between its plan and commit
    let mut stale_commits = 0usize; // commits after the referenced worker / group changed
    let mut group_no = 0usize;

    for step in &case.steps {
        let kind = kind_of(step, &wd.ops);
        let hazards = wd.hazards(step, kind);
        let tag = if hazards.is_empty() { kind.to_string() } else { format!("{} [{}]", kind, hazards.join(" + ")) };
        // known findings are excluded by construction: the step is dropped (a dropped commit drops the held operation)
        let excluded: Vec<&String> = hazards.iter().filter(|h| EXCLUDED.contains(&h.as_str()) && !wd.allow.contains(*h)).collect();
        if !excluded.is_empty() {
            for h in excluded {
                classes.insert(format!("excluded:{}", h));
            }
            if let Step::Commit { op } = step {
                let idx = op % wd.ops.len();
                wd.ops.remove(idx);
            }
            continue;
        }
        for h in &hazards {
            classes.insert(format!("hazard:{}", h));
        }
        match step {
            Step::Register { w } => {
                if wd.generation[*w] > 0 {
                    // a second registration of the same id is a restarted worker process: its pipelines are gone
                    wd.truth().restart(*w);
                    classes.insert("worker_restart".into());
                }
                wd.generation[*w] += 1;
                let addr = if http { format!("{}/w{}", env.addr, w) } else { format!("http://127.0.0.1:1/w{}", w) };
                wd.coord.register_worker(WorkerNode::new(wid(*w), addr, "key".into()));
            }
            Step::Deregister { w } => {
                let _ = wd.coord.deregister_worker(&wid(*w));
            }
            Step::Heartbeat { w } => {
                let n = wd.truth().count(*w);
                let _ = wd.coord.heartbeat(&wid(*w), &HeartbeatRequest { events_processed: 0, pipelines_running: n, pipeline_metrics: vec![] });
            }
            Step::Advance { secs } => vh_clock::advance(Duration::from_secs(*secs)),
            Step::Sweep { script } => {
                let res = wd.coord.health_sweep();
                if !res.workers_marked_unhealthy.is_empty() {
                    classes.insert("sweep_marked_unhealthy".into());
                }
                if http {
                    wd.truth().script = script.iter().copied().collect();
                    let mut failed: Vec<WorkerId> = res.workers_marked_unhealthy.clone();
                    failed.sort_by(|a, b| a.0.cmp(&b.0));
                    for w in failed {
                        let r = env.rt.block_on(wd.coord.handle_worker_failure(&w));
                        if r.iter().any(|x| x.is_ok()) {
                            classes.insert("failover_migrated".into());
                        }
                    }
                    if wd.coord.pending_rebalance {
                        let n = env.rt.block_on(wd.coord.reconcile_placements());
                        if n > 0 {
                            classes.insert("reconcile_redeployed".into());
                        }
                        if let Ok(ids) = env.rt.block_on(wd.coord.rebalance()) {
                            if !ids.is_empty() {
                                classes.insert("rebalance_migrated".into());
                            }
                        }
                    }
                    wd.truth().script.clear();
                }
            }
            Step::PlanDeploy { pipes, outcomes } => {
                group_no += 1;
                let spec = PipelineGroupSpec {
                    name: format!("g{}", group_no),
                    pipelines: pipes
                        .iter()
                        .map(|p| PipelinePlacement { name: ["a", "b"][p.name as usize % 2].to_string(), source: "stream S = X".into(), worker_affinity: p.affinity.map(|a| wid(a).0), replicas: p.replicas, partition_key: None })
                        .collect(),
                    routes: vec![],
                };
                if let Ok(plan) = wd.coord.plan_deploy_group(&spec) {
                    wd.ops.push(Held::Deploy { plan, outcomes: outcomes.clone(), results: None, gens: wd.generation.clone() });
                }
            }
            Step::PlanTeardown { g, outcomes } => {
                if !wd.groups.is_empty() {
                    let gid = wd.groups[g % wd.groups.len()].clone();
                    let snap = placement_snapshot(&wd.coord, &gid);
                    if let Ok(plan) = wd.coord.plan_teardown_group(&gid) {
                        wd.ops.push(Held::Teardown { plan, outcomes: outcomes.clone(), executed: false, snap });
                    }
                }
            }
            Step::PlanMigrate { g, r, target, deploy_ok, delete_ok } => {
                if !wd.groups.is_empty() {
                    let gid = wd.groups[g % wd.groups.len()].clone();
                    let names: Vec<String> = wd.coord.pipeline_groups.get(&gid).map(|g| {
                        let mut v: Vec<String> = g.placements.keys().cloned().collect();
                        v.sort();
                        v
                    }).unwrap_or_default();
                    if !names.is_empty() {
                        let name = &names[r % names.len()];
                        if let Ok(plan) = wd.coord.plan_migrate_pipeline(name, &gid, &wid(*target), MigrationReason::Manual) {
                            // as handle_manual_migrate computes it under the same read lock
                            let source_alive = wd.coord.workers.get(&plan.source_worker_id).map(|w| w.status != WorkerStatus::Unhealthy).unwrap_or(false);
                            wd.ops.push(Held::Migrate { plan, source_alive, deploy_ok: *deploy_ok, delete_ok: *delete_ok, result: None });
                        }
                    }
                }
            }
            Step::Exec { op } => {
                if !wd.ops.is_empty() {
                    let idx = op % wd.ops.len();
                    wd.exec(idx);
                }
            }
            Step::Commit { op } => {
                if !wd.ops.is_empty() {
                    let idx = op % wd.ops.len();
                    if wd.ops.len() > 1 {
                        overlaps += 1;
                    }
                    if !hazards.is_empty() {
                        stale_commits += 1;
                    }
                    wd.commit(idx);
                    classes.insert(kind.replace('-', "_"));
                }
            }
            Step::Drain { w, script } => {
                wd.truth().script = script.iter().copied().collect();
                if let Ok(ids) = env.rt.block_on(wd.coord.drain_worker(&wid(*w), None)) {
                    classes.insert(if ids.is_empty() { "drain_nothing_to_move".into() } else { "drain_migrated".into() });
                }
                wd.truth().script.clear();
            }
            Step::PodFailure { w, script } => {
                wd.truth().script = script.iter().copied().collect();
                let mut go = false;
                if let Some(n) = wd.coord.workers.get_mut(&wid(*w)) {
                    if n.status == WorkerStatus::Ready {
                        n.status = WorkerStatus::Unhealthy;
                        go = true;
                    }
                }
                if go {
                    let r = env.rt.block_on(wd.coord.handle_worker_failure(&wid(*w)));
                    if r.iter().any(|x| x.is_ok()) {
                        classes.insert("failover_migrated".into());
                    }
                }
                wd.truth().script.clear();
            }
            Step::Rebalance { script } => {
                wd.truth().script = script.iter().copied().collect();
                if let Ok(ids) = env.rt.block_on(wd.coord.rebalance()) {
                    if !ids.is_empty() {
                        classes.insert("rebalance_migrated".into());
                    }
                }
                wd.truth().script.clear();
            }
        }
        if let Some((inv, detail)) = wd.invariants() {
            // signature: the interleaving class (step kind + first hazard) when there is one, else the broken invariant
            let sig = match hazards.iter().find(|h| EXCLUDED.contains(&h.as_str())).or(hazards.first()) {
                Some(h) => format!("inconsistent@{}", h),
                None => format!("{}@{}", inv, kind),
            };
            if std::env::var("C32_DEBUG").is_ok() {
                eprintln!("C32_DEBUG fail sig={} {} after {} = {:?}: {}", sig, inv, tag, step, detail);
            }
            return Outcome::fail(sig, format!("{} after {} = {:?}: {}", inv, tag, step, detail));
        }
    }
    let mut o = Outcome::pass().nontrivial(overlaps > 0 || stale_commits > 0).class_if(overlaps > 0, "commit_with_other_operation_in_flight").class_if(stale_commits > 0, "commit_after_referenced_state_changed");
    for c in classes {
        o = o.class(c);
    }
    o
}

fn main() {
    let check = Check::new("C32", "exploration");
    if !std::thread::spawn(vh_clock::self_test).join().unwrap_or(false) {
        check.inconclusive("virtual clock interposition is not active");
        check.finish();
    }
    check.rule(
        "histories of 4-28 steps over 2-3 workers and up to 4 groups (1-2 pipelines named a/b, replicas 1-3, optional affinity): plan / execute / commit phases of deploy (arbitrary per-task outcomes), teardown (arbitrary delete outcomes) and manual migration (deploy/delete outcomes) as separate steps with plans held across other commits, \
         register (a repeated id = worker restart), deregister, truthful heartbeat, clock advance, health sweep; in composites_http additionally drain, pod failure + failover, sweep-loop body (failover, reconcile, rebalance) and rebalance against an in-process mock worker with scripted per-request outcomes; \
         non-trivial = a commit while another operation is between plan and commit, or a commit after the referenced worker/group/placement changed",
    );
    check.assume("the simulated execute phase of phases_pure equals execute_*_plan against a worker that answers as scripted (composites_http runs the real execute functions against the mock worker); heartbeats report the number of pipelines alive on the mock worker; steps are atomic because every coordinator method runs under the RwLock in api.rs");
    check.explore("phases_pure", || strat(false), 160_000, 3_200_000, |c: &Case| run(false, c));
    check.explore("composites_http", || strat(true), 40_000, 800_000, |c: &Case| run(true, c));
    check.finish();
}
