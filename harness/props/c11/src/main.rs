//! C11 Evaluating any expression on any event never panics (stream filters, emitted fields,
//! select, user function bodies, built-in calls); range sizes excluded.
use proptest::prelude::*;
use serde::{Deserialize, Serialize};
use varpulis_core::Value;
use vh_common::{guard, Check, Outcome};
use vh_gen::expr::{Op, E};
use vh_gen::{engine::Eng, Ev, F, V};

#[derive(Clone, Debug, Serialize, Deserialize)]
struct Case {
    expr: E,
    fields: Vec<(String, V)>,
}

const BUILTINS: &[&str] = &[
    "abs", "sqrt", "floor", "ceil", "round", "pow", "log", "log10", "exp", "sin", "cos", "tan", "min", "max", "len", "first", "last", "push", "pop", "reverse", "sort", "contains", "keys", "values", "get", "set", "sum", "avg", "to_string", "to_int", "to_float", "trim", "lower", "upper", "split", "join", "replace", "starts_with", "ends_with", "substring", "type_of", "is_null", "is_int",
    "is_float", "is_string", "is_bool", "is_array", "is_map", "variance", "nosuchfn",
];

fn event_of(c: &Case) -> Ev {
    let mut ev = Ev::new("A", 0).with("id", V::Int(1));
    for (k, v) in &c.fields {
        ev = ev.with(k, v.clone());
    }
    ev
}

fn is_extreme(v: &V) -> bool {
    match v {
        V::Int(i) => i.unsigned_abs() >= (1u64 << 62) || *i == -1 || *i == 0,
        V::Float(f) => !f.0.is_finite() || f.0.abs() >= 1e18,
        V::Arr(a) => a.iter().any(is_extreme),
        V::Map(m) => m.iter().any(|(_, x)| is_extreme(x)),
        _ => false,
    }
}

/// does some arithmetic operator / numeric built-in have a field (or extreme literal) below it?
fn arith_over_field(e: &E) -> bool {
    fn mentions(e: &E) -> bool {
        match e {
            E::Id(_) => true,
            E::Int(i) => *i >= (1 << 62),
            E::Neg(x) | E::Not(x) | E::Member(x, _) | E::OptMember(x, _) | E::Lambda(_, x) => mentions(x),
            E::Bin(_, l, r) | E::Idx(l, r) | E::Range(l, r, _) => mentions(l) || mentions(r),
            E::Call(_, a) | E::Arr(a) => a.iter().any(mentions),
            E::If(c, a, b) => mentions(c) || mentions(a) || mentions(b),
            E::Slice(c, s, t) => mentions(c) || s.as_ref().is_some_and(|x| mentions(x)) || t.as_ref().is_some_and(|x| mentions(x)),
            E::Map(m) => m.iter().any(|(_, x)| mentions(x)),
            _ => false,
        }
    }
    match e {
        E::Bin(op, l, r) => (op.is_arith() && (mentions(l) || mentions(r))) || arith_over_field(l) || arith_over_field(r),
        E::Neg(x) => mentions(x) || arith_over_field(x),
        E::Call(n, a) => (["abs", "pow", "floor", "ceil", "round", "to_int", "min", "max", "get", "set", "substring", "sum", "avg", "sort"].contains(&n.as_str()) && a.iter().any(mentions)) || a.iter().any(arith_over_field),
        E::Idx(c, i) => mentions(i) || arith_over_field(c) || arith_over_field(i),
        E::Slice(c, s, t) => s.as_ref().is_some_and(|x| mentions(x)) || t.as_ref().is_some_and(|x| mentions(x)) || arith_over_field(c),
        E::Not(x) | E::Member(x, _) | E::OptMember(x, _) | E::Lambda(_, x) => arith_over_field(x),
        E::Arr(a) => a.iter().any(arith_over_field),
        E::If(c, a, b) => arith_over_field(c) || arith_over_field(a) || arith_over_field(b),
        E::Map(m) => m.iter().any(|(_, x)| arith_over_field(x)),
        E::Range(a, b, _) => arith_over_field(a) || arith_over_field(b),
        _ => false,
    }
}

fn top_kind(e: &E) -> String {
    match e {
        E::Bin(op, ..) => format!("op_{}", op.name()),
        E::Call(n, _) => format!("call_{}", n),
        E::Neg(_) => "neg".into(),
        E::Idx(..) => "index".into(),
        E::Slice(..) => "slice".into(),
        E::If(..) => "if".into(),
        E::Arr(_) | E::Map(_) => "collection".into(),
        E::Member(..) | E::OptMember(..) => "member".into(),
        E::Range(..) => "range".into(),
        E::Lambda(..) => "lambda".into(),
        _ => "leaf".into(),
    }
}

fn classify(c: &Case, out: Outcome) -> Outcome {
    let extreme = c.fields.iter().any(|(_, v)| is_extreme(v));
    let nt = extreme && arith_over_field(&c.expr);
    out.nontrivial(nt).class_if(nt, "extreme_value_reaches_arithmetic").class(top_kind(&c.expr))
}

static ABORTS: std::sync::atomic::AtomicBool = std::sync::atomic::AtomicBool::new(false);

/// When a child probe died (unbounded recursion present), the in-process subs replace the expression
/// kinds that reach the evaluator's fallback arm, otherwise the harness itself would be killed.
fn strip_unsupported(e: &E) -> E {
    let f = |x: &E| Box::new(strip_unsupported(x));
    match e {
        E::TsDay(_) | E::OptMember(..) | E::Lambda(..) => E::Null,
        E::Neg(x) => E::Neg(f(x)),
        E::Not(x) => E::Not(f(x)),
        E::Bin(op, l, r) => E::Bin(*op, f(l), f(r)),
        E::Call(n, a) => E::Call(n.clone(), a.iter().map(strip_unsupported).collect()),
        E::If(c, a, b) => E::If(f(c), f(a), f(b)),
        E::Arr(a) => E::Arr(a.iter().map(strip_unsupported).collect()),
        E::Idx(c, i) => E::Idx(f(c), f(i)),
        E::Slice(c, s, t) => E::Slice(f(c), s.as_ref().map(|x| f(x)), t.as_ref().map(|x| f(x))),
        E::Range(a, b, i) => E::Range(f(a), f(b), *i),
        E::Map(m) => E::Map(m.iter().map(|(k, v)| (k.clone(), strip_unsupported(v))).collect()),
        E::Member(x, n) => E::Member(f(x), n.clone()),
        other => other.clone(),
    }
}

fn effective(c: &Case) -> Case {
    if ABORTS.load(std::sync::atomic::Ordering::Relaxed) {
        Case { expr: strip_unsupported(&c.expr), fields: c.fields.clone() }
    } else {
        c.clone()
    }
}

fn run_direct(c: &Case) -> Outcome {
    let c = &effective(c);
    let ast = c.expr.to_ast();
    let ev = event_of(c).to_event();
    let r = guard(|| varpulis_runtime::engine::eval_filter_expr(&ast, &ev, varpulis_runtime::sequence::SequenceContext::empty()));
    match r {
        Ok(v) => classify(c, Outcome::pass()).class(match v {
            None => "no_value",
            Some(Value::Null) => "null",
            Some(_) => "value",
        }),
        Err(p) => Outcome::fail(format!("eval:{}", p.sig()), format!("eval_filter_expr(`{}`) with {:?} panicked: {} at {}:{}", c.expr.render(), c.fields, p.message, p.file, p.line)),
    }
}

fn rename(e: &E) -> E {
    // fa -> p, fb -> q inside the user function body
    let f = |x: &E| Box::new(rename(x));
    match e {
        E::Id(s) if s == "fa" => E::id("p"),
        E::Id(s) if s == "fb" => E::id("q"),
        E::Neg(x) => E::Neg(f(x)),
        E::Not(x) => E::Not(f(x)),
        E::Bin(op, l, r) => E::Bin(*op, f(l), f(r)),
        E::Call(n, a) => E::Call(n.clone(), a.iter().map(rename).collect()),
        E::If(c, a, b) => E::If(f(c), f(a), f(b)),
        E::Arr(a) => E::Arr(a.iter().map(rename).collect()),
        E::Idx(c, i) => E::Idx(f(c), f(i)),
        E::Slice(c, s, t) => E::Slice(f(c), s.as_ref().map(|x| f(x)), t.as_ref().map(|x| f(x))),
        E::Range(a, b, i) => E::Range(f(a), f(b), *i),
        E::Map(m) => E::Map(m.iter().map(|(k, v)| (k.clone(), rename(v))).collect()),
        E::Member(x, n) => E::Member(f(x), n.clone()),
        E::OptMember(x, n) => E::OptMember(f(x), n.clone()),
        E::Lambda(p, b) => E::Lambda(p.clone(), f(b)),
        other => other.clone(),
    }
}

fn program(c: &Case) -> String {
    let t = c.expr.render();
    let body = rename(&c.expr).render();
    format!(
        "fn uf(p: int, q: int):\n    let t = {body}\n    return t\n\nstream W = A.where({t}).emit(id: id)\nstream Em = A.emit(id: id, v: {t})\nstream Se = A.select(v: {t})\nstream Fu = A.emit(id: id, v: uf(fa, fb))\n",
        body = body,
        t = t
    )
}

fn run_engine(c: &Case) -> Outcome {
    let c = &effective(c);
    let src = program(c);
    let mut eng = match guard(|| Eng::new(&src)) {
        Ok(Ok(e)) => e,
        Ok(Err(e)) => return Outcome::discard(format!("program rejected: {}", e.chars().take(60).collect::<String>())),
        Err(p) => return Outcome::fail(format!("load:{}", p.sig()), format!("parse/load panicked: {} at {}:{} :: {}", p.message, p.file, p.line, src)),
    };
    let ev = event_of(c);
    match guard(|| eng.process(&ev)) {
        Ok(Ok(outs)) => classify(c, Outcome::pass()).class(format!("outputs_{}", outs.len().min(4))),
        Ok(Err(e)) => Outcome::fail("engine-error", e),
        Err(p) => Outcome::fail(format!("engine:{}", p.sig()), format!("Engine::process panicked: {} at {}:{} :: program {} :: event {:?}", p.message, p.file, p.line, src.replace('\n', " | "), c.fields)),
    }
}

// ------------------------------------------------------------------ abort probes (child process)

/// expression kinds the evaluator has no arm for; evaluated in a child process because a stack
/// overflow aborts the process and cannot be caught
fn probes() -> Vec<Case> {
    let f = vec![("fa".to_string(), V::Int(1)), ("fb".to_string(), V::Map(vec![("k".into(), V::Int(2))]))];
    vec![
        E::TsDay(1),
        E::bin(Op::Gt, E::id("fa"), E::TsDay(2)),
        E::OptMember(Box::new(E::id("fb")), "k".into()),
        E::Lambda("x".into(), Box::new(E::id("x"))),
        E::call("first", vec![E::Lambda("x".into(), Box::new(E::Int(1)))]),
        E::bin(Op::Add, E::DurS(5), E::DurS(5)),
    ]
    .into_iter()
    .map(|expr| Case { expr, fields: f.clone() })
    .collect()
}

fn child(mode: &str, json: &str) -> ! {
    let c: Case = serde_json::from_str(json).expect("child case");
    let o = if mode == "direct" { run_direct(&c) } else { run_engine(&c) };
    // exit 0: returned (pass or caught panic) ; exit 3: caught panic
    std::process::exit(if o.is_fail() { 3 } else { 0 })
}

fn run_probe(mode: &'static str) -> impl Fn(&Case) -> Outcome {
    move |c: &Case| {
        let exe = std::env::current_exe().expect("current_exe");
        let st = std::process::Command::new(exe)
            .arg("--child")
            .arg(mode)
            .arg(serde_json::to_string(c).unwrap())
            .env("RUST_MIN_STACK", "1048576")
            .stdout(std::process::Stdio::null())
            .stderr(std::process::Stdio::null())
            .status();
        match st {
            Err(e) => Outcome::discard(format!("cannot spawn child: {}", e)),
            Ok(s) if s.code() == Some(0) => Outcome::pass().nontrivial(true).class(format!("{}_{}", mode, top_kind(&c.expr))),
            Ok(s) if s.code() == Some(3) => {
                // an ordinary panic: reproduce in-process for the signature
                if mode == "direct" {
                    run_direct(c)
                } else {
                    run_engine(c)
                }
            }
            Ok(s) => {
                ABORTS.store(true, std::sync::atomic::Ordering::Relaxed);
                Outcome::fail(
                format!("abort:{}:{}", mode, top_kind(&c.expr)),
                format!("child evaluating `{}` ({}) died: {:?} (stack overflow / abort: unbounded recursion in the evaluator's fallback arm)", c.expr.render(), mode, s),
            )}
        }
    }
}

// ------------------------------------------------------------------ generator

fn small_lit() -> impl Strategy<Value = E> {
    (0i64..4).prop_map(E::Int)
}

/// an arithmetic operator / numeric built-in applied directly to the extreme-valued fields (the
/// combinations named by the property: x + 1 at i64::MAX, i64::MIN / -1, abs(i64::MIN), ...)
fn targeted() -> impl Strategy<Value = E> {
    let operand = || {
        prop_oneof![
            6 => proptest::sample::select(vec!["fa", "fb"]).prop_map(E::id),
            1 => Just(E::Neg(Box::new(E::Int(1)))),
            2 => proptest::sample::select(vec![0i64, 1, 2, i64::MAX]).prop_map(E::Int),
            1 => proptest::sample::select(vec![0.5f64, 1e300]).prop_map(|f| E::Float(F(f))),
        ]
    };
    prop_oneof![
        6 => (proptest::sample::select(Op::ARITH.to_vec()), operand(), operand()).prop_map(|(op, l, r)| E::bin(op, l, r)),
        1 => operand().prop_map(|x| E::Neg(Box::new(x))),
        2 => (proptest::sample::select(vec!["abs", "floor", "ceil", "round", "to_int", "sqrt", "to_string"]), operand()).prop_map(|(n, x)| E::call(n, vec![x])),
        2 => (proptest::sample::select(vec!["pow", "min", "max", "get", "substring"]), operand(), operand()).prop_map(|(n, x, y)| E::call(n, vec![x, y])),
        1 => (operand(), operand()).prop_map(|(i, j)| E::Slice(Box::new(E::id("fc")), Some(Box::new(i)), Some(Box::new(j)))),
        1 => operand().prop_map(|i| E::Idx(Box::new(E::id("fc")), Box::new(i))),
    ]
}

fn leaf() -> impl Strategy<Value = E> {
    prop_oneof![
        8 => targeted(),
        5 => proptest::sample::select(vec![0i64, 1, 2, 3, 7, 31, 32, 63, 64, 65, 1 << 31, 1 << 32, (1 << 53) + 1, i64::MAX - 1, i64::MAX]).prop_map(E::Int),
        2 => proptest::sample::select(vec![0.0f64, 0.5, 1.0, 2.0, 1e300, 1e-9, 9.3e18, 1.7e308]).prop_map(|f| E::Float(F(f))),
        1 => proptest::sample::select(vec!["", "a", "ab", "1", "é", "日本", ","]).prop_map(|s| E::Str(s.to_string())),
        1 => any::<bool>().prop_map(E::Bool),
        1 => Just(E::Null),
        8 => proptest::sample::select(vec!["fa", "fb", "fc", "fd", "fm"]).prop_map(E::id),
        1 => (0u32..3).prop_map(E::DurS),
        1 => (1u8..4).prop_map(E::TsDay),
    ]
}

fn all_ops() -> Vec<Op> {
    let mut v = Op::ARITH.to_vec();
    v.extend(Op::ARITH); // arithmetic twice as likely
    v.extend(Op::CMP);
    v.extend([Op::And, Op::Or, Op::In, Op::NotIn]);
    v
}

fn expr() -> impl Strategy<Value = E> {
    leaf().prop_recursive(4, 24, 3, |inner| {
        prop_oneof![
            10 => (proptest::sample::select(all_ops()), inner.clone(), inner.clone()).prop_map(|(op, l, r)| E::bin(op, l, r)),
            3 => inner.clone().prop_map(|x| E::Neg(Box::new(x))),
            10 => (proptest::sample::select(BUILTINS.to_vec()), proptest::collection::vec(inner.clone(), 0..4)).prop_map(|(n, a)| E::call(n, a)),
            1 => proptest::collection::vec(small_lit(), 1..3).prop_map(|a| E::call("range", a)),
            1 => (small_lit(), small_lit(), any::<bool>()).prop_map(|(a, b, i)| E::Range(Box::new(a), Box::new(b), i)),
            1 => (inner.clone(), inner.clone(), inner.clone()).prop_map(|(c, a, b)| E::If(Box::new(c), Box::new(a), Box::new(b))),
            2 => proptest::collection::vec(inner.clone(), 0..3).prop_map(E::Arr),
            3 => (inner.clone(), inner.clone()).prop_map(|(c, i)| E::Idx(Box::new(c), Box::new(i))),
            3 => (inner.clone(), proptest::option::of(inner.clone()), proptest::option::of(inner.clone())).prop_map(|(c, s, t)| E::Slice(Box::new(c), s.map(Box::new), t.map(Box::new))),
            1 => proptest::collection::vec((proptest::sample::select(vec!["k", "a"]), inner.clone()), 0..3).prop_map(|m| E::Map(m.into_iter().map(|(k, v)| (k.to_string(), v)).collect())),
            1 => (inner.clone(), proptest::sample::select(vec!["k", "a", "id"])).prop_map(|(x, n)| E::Member(Box::new(x), n.to_string())),
            1 => (inner.clone(), proptest::sample::select(vec!["k", "a"])).prop_map(|(x, n)| E::OptMember(Box::new(x), n.to_string())),
            1 => inner.prop_map(|b| E::Lambda("x".into(), Box::new(b))),
        ]
    })
}

fn extreme_scalar() -> impl Strategy<Value = V> {
    prop_oneof![
        6 => proptest::sample::select(vec![i64::MIN, i64::MAX, -1, 0, 1]).prop_map(V::Int),
        4 => proptest::sample::select(vec![i64::MIN, i64::MIN + 1, i64::MAX, i64::MAX - 1, -1, 0, 1, 2, 1 << 62, -(1 << 62), 1 << 31, (1 << 32) + 1, 3037000500, -3037000500]).prop_map(V::Int),
        3 => proptest::sample::select(vec![f64::NAN, f64::INFINITY, f64::NEG_INFINITY, f64::MAX, f64::MIN, 1e300, -1e300, 9.3e18, -9.3e18, -0.0, 0.0, f64::MIN_POSITIVE, 0.5]).prop_map(V::f),
        2 => vh_gen::any_string().prop_map(V::Str),
        1 => vh_gen::scalar_with_time(),
    ]
}

fn long_mixed_array() -> impl Strategy<Value = V> {
    proptest::collection::vec(
        prop_oneof![
            3 => (-5i64..5).prop_map(V::Int),
            3 => (-5i32..5).prop_map(|i| V::f(i as f64 * 0.5)),
            1 => Just(V::f(f64::NAN)),
            1 => proptest::sample::select(vec!["a", "b", ""]).prop_map(V::s),
            1 => extreme_scalar(),
        ],
        0..48,
    )
    .prop_map(V::Arr)
}

fn field_value() -> impl Strategy<Value = V> {
    prop_oneof![
        6 => extreme_scalar(),
        2 => vh_gen::value(2),
        1 => long_mixed_array(),
        1 => proptest::collection::vec(extreme_scalar(), 0..4).prop_map(V::Arr),
    ]
}

fn strat() -> impl Strategy<Value = Case> {
    (expr(), extreme_scalar(), extreme_scalar(), field_value(), field_value()).prop_map(|(expr, a, b, c, d)| Case {
        expr,
        fields: vec![("fa".into(), a), ("fb".into(), b), ("fc".into(), c), ("fd".into(), d)],
    })
}

fn main() {
    let args: Vec<String> = std::env::args().collect();
    if args.len() >= 4 && args[1] == "--child" {
        child(&args[2], &args[3]);
    }
    let check = Check::new("C11", "exploration");
    check.rule("expression ASTs of depth<=4 over every binary operator, unary minus, index/slice/member/optional member/map/array/if/lambda/duration+timestamp literals and every built-in of eval_builtin_function with 0-3 arbitrary arguments (right and wrong arity/types); fields fa,fb extreme scalars (i64::MIN/MAX, -1, 0, NaN, +-inf, huge floats, unicode strings), fc,fd also nested arrays/maps and long mixed arrays; Range / range() only with literal bounds 0..3 (range sizes excluded by the statement); sub 'direct' = eval_filter_expr under catch_unwind, sub 'engine' = the same expression as .where, .emit, .select and inside a user fn body through parse+Engine::process, sub 'abort_probes' = expression kinds without an evaluator arm run in a child process (a stack overflow cannot be caught); non-trivial = an extreme field value sits below an arithmetic operator / numeric built-in / index");
    check.assume("harness built with overflow-checks on (dev profile): overflow panics are observable; panic capture via catch_unwind + panic hook; child exit status for aborts");
    // probes first: if one dies, the random subs below avoid those expression kinds (see strip_unsupported)
    check.enumerate("abort_probes_direct", probes(), run_probe("direct"));
    check.enumerate("abort_probes_engine", probes(), run_probe("engine"));
    check.explore("direct", strat, 150_000, 3_000_000, run_direct);
    check.explore("engine", strat, 6_000, 120_000, run_engine);
    check.finish();
}
