//! C02 Sequence patterns report exactly the earliest completion of every start event.
use proptest::prelude::*;
use serde::{Deserialize, Serialize};
use vh_common::{Check, Outcome};
use vh_gen::engine::Eng;
use vh_gen::seq::*;
use vh_gen::{Ev, OutEv};

#[derive(Clone, Debug, Serialize, Deserialize)]
struct Case {
    kind: VKind,
    pat: Pat,
    events: Vec<Ev>,
}

fn strat() -> impl Strategy<Value = Case> {
    prop_oneof![Just(VKind::Int), Just(VKind::Int), Just(VKind::Float)].prop_flat_map(|kind| {
        (
            pat(kind, PatOpts { allow_all: false, allow_not: true, allow_partition: true, max_steps: 4 }),
            events(kind, 40, 3, true, false),
            any::<bool>(),
        )
            .prop_map(move |(pat, events, strk)| {
                let events = if strk {
                    // string keys variant
                    events
                        .into_iter()
                        .map(|mut e| {
                            for (k, v) in e.fields.iter_mut() {
                                if k == KEY {
                                    if let vh_gen::V::Int(i) = v {
                                        *v = vh_gen::V::Str(format!("key{}", i));
                                    }
                                }
                            }
                            e
                        })
                        .collect()
                } else {
                    events
                };
                Case { kind, pat, events }
            })
    })
}

fn ids_of(o: &OutEv, p: &Pat) -> Option<Vec<i64>> {
    p.steps.iter().map(|s| o.get_int(&format!("{}_id", s.alias))).collect()
}

fn run(c: &Case) -> Outcome {
    let p = &c.pat;
    let src = p.render("M");
    let mut eng = match Eng::new(&src) {
        Ok(e) => e,
        Err(e) => return Outcome::discard(format!("engine rejected generated program: {}", vh_common::truncate(&e, 60))),
    };
    let reference = reference(p, &c.events);
    if reference.undecidable {
        return Outcome::discard("filter undecidable in harness domain");
    }
    let mut all = c.events.clone();
    all.extend(sentinels(p, &c.events, c.kind));
    let outs = match eng.process_all(&all) {
        Ok(o) => o,
        Err(e) => return Outcome::fail("engine-error", e),
    };
    let mut emitted: Vec<Vec<i64>> = vec![];
    for o in outs.iter().map(OutEv::from_event) {
        match ids_of(&o, p) {
            Some(ids) => {
                if ids.iter().any(|i| *i >= SENTINEL_BASE) {
                    continue;
                }
                emitted.push(ids);
            }
            None => return Outcome::fail("output-without-step-ids", format!("{:?}", o)),
        }
    }
    emitted.sort();
    let mut want: Vec<Vec<i64>> = reference.definite.iter().map(|m| m.ids.clone()).collect();
    want.sort();
    let either: Vec<Vec<i64>> = reference.either.iter().map(|m| m.ids.clone()).collect();
    // remove undecided matches from the emitted list (at most once each)
    let mut em = emitted.clone();
    for e in &either {
        if let Some(pos) = em.iter().position(|x| x == e) {
            em.remove(pos);
        }
    }
    if em != want {
        let missing: Vec<&Vec<i64>> = want.iter().filter(|w| !em.contains(w)).collect();
        let extra: Vec<&Vec<i64>> = em.iter().filter(|w| !want.contains(w)).collect();
        let dup = em.windows(2).any(|w| w[0] == w[1]);
        let one_step_not = p.steps.len() == 1 && p.not.is_some();
        let sig = if one_step_not && extra.is_empty() && !dup {
            "one-step-pattern-with-not:missing"
        } else if !missing.is_empty() && extra.is_empty() {
            "missing-match"
        } else if missing.is_empty() && dup {
            "duplicate-match"
        } else if missing.is_empty() {
            "extra-match"
        } else {
            "wrong-match"
        };
        return Outcome::fail(sig, format!("program:\n{}\nexpected {:?}\nemitted {:?}\n(either {:?})", src, want, emitted, either));
    }
    let nt = reference.max_open >= 2 && !want.is_empty();
    Outcome::pass()
        .nontrivial(nt)
        .class(format!("steps={}", p.steps.len()))
        .class_if(p.partition, "partitioned")
        .class_if(p.not.is_some(), "has_not")
        .class_if(reference.killed_by_not > 0, "run_killed_by_not")
        .class_if(!either.is_empty(), "undecided_completing_not")
        .class_if(p.steps.iter().any(|s| s.filter.as_ref().is_some_and(|f| f.has_ref())), "cross_alias_filter")
        .class_if(p.seq_form, "sequence_form")
        .class_if(!want.is_empty(), "has_match")
        .class_if(reference.max_open >= 2, "overlapping_runs")
}

fn main() {
    let check = Check::new("C02", "exploration");
    check.rule("random 1-4 step sequence programs (both surface forms, constant and cross-alias filters incl. the expression-evaluator path, and/or/not, optional partition_by over int or string keys incl. missing key, optional .not clause with/without filter) rendered to VPL and loaded into the real Engine, against random streams of <=40 events (4 types, unique ids, small int or float v, string s); oracle = brute-force earliest-completion reference: emitted id tuples must equal the reference multiset (none missing, none extra, no duplicates); a match whose completing event itself satisfies the .not clause is not judged. One sentinel event per partition flushes runs waiting in the accept state. Non-trivial = >=2 start events with overlapping lifetimes and >=1 match.");
    check.assume("filters are evaluated by the harness only within one type (int/int, float/float, str/str), every referenced field present: type-mix semantics belong to C08/C09");
    check.explore("earliest", strat, 40_000, 400_000, run);
    check.finish();
}
