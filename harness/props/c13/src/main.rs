//! C13 Sliding windows contain exactly the events in range at each emission.
//!
//! Reference model (from the statement; DESIGN §2.5 for slide > size):
//!  time sliding, in-order stream: an emission triggered by an event at time t holds, in arrival
//!    order, exactly the events received so far with ts >= t - size.  After an emission triggered
//!    at time p the next emission is triggered by the first event with t >= p + slide and by no
//!    earlier one.  The statement does not say when the very first emission happens; the check
//!    accepts any first emission that is not later than the first event with t >= t_first + slide.
//!  count sliding: every emission holds exactly the last N events; after an emission at arrival
//!    number p the next one is at arrival p + slide exactly.  First emission "once the window is
//!    first full": arrival N — or arrival max(N, slide) when slide > N (both readings of the
//!    statement are accepted, nothing else).
use proptest::prelude::*;
use serde::{Deserialize, Serialize};
use std::collections::BTreeMap;
use std::sync::Arc;
use varpulis_runtime::event::SharedEvent;
use varpulis_runtime::window::{PartitionedSlidingWindow, SlidingCountWindow, SlidingWindow};
use vh_common::{Check, Outcome};
use vh_gen::engine::Eng;
use vh_gen::{Ev, OutEv, V};

const KEYS: [&str; 3] = ["ka", "kb", "kc"];
const ID0: i64 = 100;

#[derive(Clone, Debug, Serialize, Deserialize)]
struct Case {
    /// count-based (else time-based)
    count: bool,
    size: i64,
    slide: i64,
    partitioned: bool,
    /// engine sub: time unit of the grid is seconds (else ms)
    unit_s: bool,
    /// (timestamp on the grid — non-decreasing, partition key index)
    evs: Vec<(i64, u8)>,
}

#[derive(Clone, Debug)]
struct In {
    id: i64,
    ts: i64,
    key: u8,
}

impl Case {
    fn inputs(&self) -> Vec<In> {
        self.evs.iter().enumerate().map(|(i, (ts, key))| In { id: ID0 + i as i64, ts: *ts, key: if self.partitioned { *key } else { 0 } }).collect()
    }
}

fn mk_event(i: &In, scale: i64) -> Ev {
    Ev::new("E", i.ts * scale).with("id", V::Int(i.id)).with("k", V::s(KEYS[i.key as usize % 3]))
}

fn ids(evs: &[SharedEvent]) -> Vec<i64> {
    evs.iter().map(|e| e.get_int("id").unwrap_or(-1)).collect()
}

fn strat(engine: bool) -> impl Strategy<Value = Case> {
    (
        any::<bool>(),
        1i64..=6,
        1i64..=6,
        any::<bool>(),
        any::<bool>(),
        proptest::collection::vec((0u8..12, 0u8..3), 0..=60),
    )
        .prop_map(move |(count, size, slide, partitioned, unit_s, raw)| {
            let mut cur = 0i64;
            let mut evs = vec![];
            for (dsel, key) in raw {
                let delta = [0, 0, 0, 1, 1, slide - 1, slide, slide + 1, size - 1, size, size + 1, 2][dsel as usize % 12].max(0);
                cur += delta;
                evs.push((cur, key));
            }
            // partitioned count sliding has no public direct API (crate-private state): Engine sub only
            let partitioned = partitioned && (engine || !count);
            Case { count, size, slide, partitioned, unit_s: unit_s && engine, evs }
        })
}

/// What was observed for one partition: for every arrival (in order) the ids of the emission
/// it triggered, if any.  For the Engine sub the content is reconstructed from (n, first, last).
type Observed = Vec<(In, Option<Vec<i64>>)>;

struct Stats {
    emissions: usize,
    partial_overlap: bool,
    cutoff_tie: bool,
    slide_tie: bool,
}

/// Judge one partition against the reference model.
fn judge(case: &Case, what: &str, obs: &Observed) -> Result<Stats, (String, String)> {
    let kname = if case.count { "count" } else { "time" };
    let mut st = Stats { emissions: 0, partial_overlap: false, cutoff_tie: false, slide_tie: false };
    let arrivals: Vec<&In> = obs.iter().map(|(i, _)| i).collect();
    let mut last_emit: Option<i64> = None; // time: trigger ts; count: trigger arrival number (1-based)
    let mut prev_content: Option<Vec<i64>> = None;
    for (n0, (e, got)) in obs.iter().enumerate() {
        let n = n0 as i64 + 1;
        // expected content if this arrival triggers an emission
        let content: Vec<i64> = if case.count {
            arrivals[..=n0].iter().rev().take(case.size as usize).rev().map(|x| x.id).collect()
        } else {
            arrivals[..=n0].iter().filter(|x| x.ts >= e.ts - case.size).map(|x| x.id).collect()
        };
        if !case.count && arrivals[..=n0].iter().any(|x| x.ts == e.ts - case.size) {
            st.cutoff_tie = true;
        }
        // must / may / must-not emit
        let (must, may) = if case.count {
            match last_emit {
                None => {
                    let full = n >= case.size;
                    let a = case.size;
                    let b = case.size.max(case.slide);
                    (full && n == b, full && (n == a || n == b))
                }
                Some(p) => (n - p == case.slide, n - p == case.slide),
            }
        } else {
            match last_emit {
                None => {
                    // not later than the first event at or after t_first + slide
                    let t0 = arrivals[0].ts;
                    (e.ts >= t0 + case.slide, true)
                }
                Some(p) => {
                    if e.ts == p + case.slide {
                        st.slide_tie = true;
                    }
                    (e.ts >= p + case.slide, e.ts >= p + case.slide)
                }
            }
        };
        match got {
            Some(ids) => {
                if !may {
                    return Err((
                        format!("{}:{}:unexpected-emission", what, kname),
                        format!("arrival #{} (id {}, ts {}) emitted {:?} but previous emission was at {:?} (size {}, slide {})", n, e.id, e.ts, ids, last_emit, case.size, case.slide),
                    ));
                }
                if *ids != content {
                    return Err((
                        format!("{}:{}:content", what, kname),
                        format!("emission at arrival #{} (id {}, ts {}): got {:?} expected {:?} (size {}, slide {})", n, e.id, e.ts, ids, content, case.size, case.slide),
                    ));
                }
                if let Some(pc) = &prev_content {
                    let shared = pc.iter().filter(|i| ids.contains(i)).count();
                    if shared > 0 && shared < pc.len() {
                        st.partial_overlap = true;
                    }
                }
                prev_content = Some(ids.clone());
                last_emit = Some(if case.count { n } else { e.ts });
                st.emissions += 1;
            }
            None => {
                if must {
                    return Err((
                        format!("{}:{}:missing-emission", what, kname),
                        format!("arrival #{} (id {}, ts {}) did not emit; previous emission at {:?} (size {}, slide {}); expected content {:?}", n, e.id, e.ts, last_emit, case.size, case.slide, content),
                    ));
                }
            }
        }
    }
    Ok(st)
}

fn finish(case: &Case, per_key: Vec<Stats>, extra: &str) -> Outcome {
    let em: usize = per_key.iter().map(|s| s.emissions).max().unwrap_or(0);
    Outcome::pass()
        .nontrivial(em >= 3 && case.size != case.slide)
        .class(if case.count { "kind:count" } else { "kind:time" })
        .class_if(case.partitioned, "partitioned")
        .class_if(case.slide > case.size, "slide>size")
        .class_if(case.slide < case.size, "slide<size")
        .class_if(case.slide == case.size, "slide==size")
        .class_if(em >= 3, "emissions>=3")
        .class_if(per_key.iter().any(|s| s.partial_overlap), "overlapping_emissions")
        .class_if(per_key.iter().any(|s| s.cutoff_tie), "event_exactly_at_cutoff")
        .class_if(per_key.iter().any(|s| s.slide_tie), "arrival_exactly_at_slide")
        .class(extra.to_string())
}

fn split(case: &Case, obs: Observed) -> BTreeMap<u8, Observed> {
    let mut m: BTreeMap<u8, Observed> = BTreeMap::new();
    for (i, g) in obs {
        m.entry(if case.partitioned { i.key } else { 0 }).or_default().push((i, g));
    }
    m
}

fn dur(x: i64) -> chrono::Duration {
    chrono::Duration::milliseconds(x)
}

fn run_direct(case: &Case) -> Outcome {
    let ins = case.inputs();
    let mut obs: Observed = vec![];
    enum W {
        T(SlidingWindow),
        C(SlidingCountWindow),
        P(PartitionedSlidingWindow),
        /// partitioned count sliding is crate-private; per-key plain windows would test nothing new
        None,
    }
    let mut w = match (case.count, case.partitioned) {
        (false, false) => W::T(SlidingWindow::new(dur(case.size), dur(case.slide))),
        (true, false) => W::C(SlidingCountWindow::new(case.size as usize, case.slide as usize)),
        (false, true) => W::P(PartitionedSlidingWindow::new("k".into(), dur(case.size), dur(case.slide))),
        (true, true) => W::None,
    };
    if matches!(w, W::None) {
        return Outcome::discard("partitioned count sliding has no public direct API (Engine sub covers it)");
    }
    for i in &ins {
        let e: SharedEvent = Arc::new(mk_event(i, 1).to_event());
        let r = match &mut w {
            W::T(w) => w.add_shared(e),
            W::C(w) => w.add_shared(e),
            W::P(w) => w.add_shared(e),
            W::None => None,
        };
        obs.push((i.clone(), r.map(|v| ids(&v))));
    }
    let mut stats = vec![];
    for (k, o) in split(case, obs) {
        match judge(case, "direct", &o) {
            Ok(s) => stats.push(s),
            Err((sig, d)) => return Outcome::fail(sig, format!("key {}: {} | {:?}", k, d, case)),
        }
    }
    finish(case, stats, "api:direct")
}

fn vpl(case: &Case) -> String {
    let unit = if case.count { "" } else if case.unit_s { "s" } else { "ms" };
    format!(
        "stream S = E\n{}    .window({}{}, sliding: {}{})\n    .aggregate(n: count(), f: first(id), l: last(id))\n    .emit(n: n, f: f, l: l)\n",
        if case.partitioned { "    .partition_by(k)\n" } else { "" },
        case.size,
        unit,
        case.slide,
        unit
    )
}

fn run_engine(case: &Case) -> Outcome {
    let ins = case.inputs();
    let src = vpl(case);
    let mut eng = match Eng::new(&src) {
        Ok(e) => e,
        Err(e) => return Outcome::discard(format!("program rejected: {}", vh_common::truncate(&e, 60))),
    };
    let scale = if case.unit_s && !case.count { 1000 } else { 1 };
    let pos: BTreeMap<i64, usize> = ins.iter().enumerate().map(|(p, i)| (i.id, p)).collect();
    let mut obs: Observed = vec![];
    for i in &ins {
        let outs = match eng.process(&mk_event(i, scale)) {
            Ok(o) => o,
            Err(e) => return Outcome::fail("engine:process-error", e),
        };
        if outs.len() > 1 {
            return Outcome::fail("engine:several-emissions-per-arrival", format!("arrival id {} produced {} outputs | {} | {:?}", i.id, outs.len(), src, case));
        }
        let mut got = None;
        for o in outs {
            let o = OutEv::from_event(&o);
            let (Some(n), Some(f), Some(l)) = (o.get_int("n"), o.get_int("f"), o.get_int("l")) else {
                return Outcome::fail("engine:malformed-output", format!("{:?}", o));
            };
            let (Some(pf), Some(pl)) = (pos.get(&f), pos.get(&l)) else {
                return Outcome::fail("engine:unknown-id", format!("{:?}", o));
            };
            if pl < pf {
                return Outcome::fail("engine:first-after-last", format!("{:?} | {} | {:?}", o, src, case));
            }
            let key = ins[*pf].key;
            let content: Vec<i64> = ins[*pf..=*pl].iter().filter(|x| x.key == key).map(|x| x.id).collect();
            if content.len() as i64 != n || key != i.key {
                return Outcome::fail(
                    format!("engine:{}:count-vs-span", if case.count { "count" } else { "time" }),
                    format!("arrival id {} key {}: output n={} first={} last={} (key {}) but {} arrivals of that partition lie between them | {} | {:?}", i.id, i.key, n, f, l, key, content.len(), src, case),
                );
            }
            got = Some(content);
        }
        obs.push((i.clone(), got));
    }
    let mut stats = vec![];
    for (k, o) in split(case, obs) {
        match judge(case, "engine", &o) {
            Ok(s) => stats.push(s),
            Err((sig, d)) => return Outcome::fail(sig, format!("key {}: {} | {} | {:?}", k, d, src, case)),
        }
    }
    finish(case, stats, "api:engine")
}

fn main() {
    let check = Check::new("C13", "exploration");
    check.rule(
        "(size, slide) in [1,6]^2, time-based and count-based, plain and partitioned (3 keys), in-order streams of <=60 events on a ms grid with deltas drawn from \
         {0,1,2,slide-1,slide,slide+1,size-1,size,size+1} (ties, exact cutoff and exact slide boundaries common). Direct API: SlidingWindow, SlidingCountWindow, \
         PartitionedSlidingWindow; Engine API: .window(size, sliding: slide).aggregate(count, first(id), last(id)).emit with/without partition_by \
         (reaches PartitionedSlidingCountWindowState), ms and s units. Oracle: reference model giving for every arrival whether it must / may / must not emit and the exact content in arrival order. \
         non-trivial = some partition has >=3 emissions and size != slide",
    );
    check.assume("Engine sub reconstructs an emission's content from count/first(id)/last(id) (content = that partition's arrivals between first and last, count must match)");
    check.assume("the very first emission of a time-sliding window is only required to happen no later than the first event at or after t_first + slide (statement is silent)");
    check.explore("direct", || strat(false), 40_000, 800_000, run_direct);
    check.explore("engine", || strat(true), 12_000, 240_000, run_engine);
    check.finish();
}
