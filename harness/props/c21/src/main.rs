//! C21 Checkpoint storage recovers the newest complete checkpoint after any crash.
//!
//! Fault enumeration over the real `FileStore` + `CheckpointManager`:
//!  * `crash`   – histories of <=8 `checkpoint()` calls (max_checkpoints 1-3, restarts in
//!                between).  A dry run records every mutating file-system operation of the
//!                store (hook H4 in `varpulis_runtime::verif_hooks`), then the history is re-run once
//!                per crash point: die before op k / after the last op of a call, and torn
//!                writes (only the first j bytes of a write reach the file).  After the crash
//!                the "process" restarts on the same directory and is judged against a model
//!                of the completely written checkpoints.
//!  * `corrupt` – post-hoc truncation / garbage / deletion of the newest stored checkpoint.
//!  * `memory`  – the same histories (no crash points) and damage on `MemoryStore`.
use proptest::prelude::*;
use serde::{Deserialize, Serialize};
use std::collections::{BTreeMap, HashMap};
use std::path::Path;
use std::sync::atomic::{AtomicU64, Ordering};
use std::sync::{Arc, Mutex};
use varpulis_runtime::verif_hooks::{self as hooks, CrashPlan};
use varpulis_runtime::persistence::{Checkpoint, CheckpointConfig, CheckpointManager, FileStore, MemoryStore, StateStore};
use vh_common::serde_json::json;
use vh_common::{Check, Outcome};

#[derive(Clone, Debug, Serialize, Deserialize, PartialEq)]
enum Step {
    /// `checkpoint()` with this events_processed and a metadata payload of `pad` bytes
    Save { n: u64, pad: u16 },
    /// clean restart: new FileStore + CheckpointManager on the same directory
    Restart,
}

#[derive(Clone, Copy, Debug, Serialize, Deserialize, PartialEq)]
struct Point {
    /// index of the file-system operation at which the process dies (the op is not executed)
    op: u64,
    /// torn write: the op is a write and exactly its first `torn` bytes reach the file
    torn: Option<usize>,
}

#[derive(Clone, Debug, Serialize, Deserialize)]
struct Hist {
    max: u8,
    /// id of a checkpoint that is already stored when the history starts (0 = empty store);
    /// lets ids cross 9 -> 10, 99 -> 100 within 8 saves
    #[serde(default)]
    base_id: u64,
    steps: Vec<Step>,
    /// replay/minimisation aid: judge only this crash point instead of all
    #[serde(default)]
    only: Option<Point>,
}

/// what identifies a checkpoint's content (id and timestamp are assigned by the manager)
type Content = (u64, String);

fn make(n: u64, pad: u16, seq: usize) -> Checkpoint {
    let mut metadata = HashMap::new();
    metadata.insert("payload".to_string(), format!("{}:{}", seq, "x".repeat(pad as usize)));
    Checkpoint { id: 0, timestamp_ms: 0, events_processed: n, window_states: HashMap::new(), pattern_states: HashMap::new(), metadata, context_states: HashMap::new() }
}

fn content_of(c: &Checkpoint) -> Content {
    (c.events_processed, c.metadata.get("payload").cloned().unwrap_or_default())
}

fn cfg(max: u8) -> CheckpointConfig {
    CheckpointConfig { max_checkpoints: max as usize, ..CheckpointConfig::default() }
}

/// Outcome of running a history until it ends or the injected crash fires.
struct Run {
    /// (id, content) of every acknowledged checkpoint, in order
    acked: Vec<(u64, Content)>,
    /// content of the save that was in flight when the process died
    inflight: Option<Content>,
    /// (op index, tag) where the crash fired
    died: Option<(u64, &'static str)>,
}

type StoreFactory<'a> = &'a dyn Fn() -> Result<Arc<dyn StateStore>, String>;

/// Drive the real manager through the history.  `Err` = a property violation observed on the
/// way (before any crash).
fn run_history(open: StoreFactory, hist: &Hist, what: &str) -> Result<Run, Outcome> {
    let mut run = Run { acked: seeded(hist).into_iter().collect(), inflight: None, died: None };
    macro_rules! died_or {
        ($sig:expr, $e:expr) => {{
            if let Some(d) = hooks::crash_died_at() {
                run.died = Some(d);
                return Ok(run);
            }
            return Err(Outcome::fail(format!("{}:{}", what, $sig), format!("{}", $e)));
        }};
    }
    let mut store = match open() {
        Ok(s) => s,
        Err(e) => died_or!("store-open-error", e),
    };
    let mut mgr = match CheckpointManager::new(store.clone(), cfg(hist.max)) {
        Ok(m) => m,
        Err(e) => died_or!("manager-new-error", e),
    };
    let mut seq = 0usize;
    for step in &hist.steps {
        match step {
            Step::Restart => {
                drop(mgr);
                store = match open() {
                    Ok(s) => s,
                    Err(e) => died_or!("store-open-error", e),
                };
                mgr = match CheckpointManager::new(store.clone(), cfg(hist.max)) {
                    Ok(m) => m,
                    Err(e) => died_or!("manager-new-error-on-clean-restart", e),
                };
                // a clean restart must see the newest acknowledged checkpoint
                if let Err(o) = expect_latest(&mgr, run.acked.last(), what, "clean-restart") {
                    return Err(o);
                }
            }
            Step::Save { n, pad } => {
                seq += 1;
                let cp = make(*n, *pad, seq);
                let content = content_of(&cp);
                match mgr.checkpoint(cp) {
                    Err(e) => {
                        run.inflight = Some(content);
                        died_or!("checkpoint-error-without-crash", e)
                    }
                    Ok(()) => {
                        // acknowledged: it is the newest, its id is larger than every earlier id, and
                        // at most `max` checkpoints are kept
                        let got = match mgr.recover() {
                            Ok(Some(c)) => c,
                            Ok(None) => return Err(Outcome::fail(format!("{}:recover-none-after-acknowledged-save", what), format!("save #{}", seq))),
                            Err(e) => return Err(Outcome::fail(format!("{}:recover-error-after-acknowledged-save", what), format!("{}", e))),
                        };
                        if content_of(&got) != content {
                            return Err(Outcome::fail(format!("{}:recover-is-not-the-newest-acknowledged", what), format!("save #{}: got id {} content {:?}", seq, got.id, content_of(&got).0)));
                        }
                        if let Some((prev, _)) = run.acked.iter().max_by_key(|(id, _)| *id) {
                            if got.id <= *prev {
                                return Err(Outcome::fail(format!("{}:id-not-increasing", what), format!("save #{} got id {} after id {}", seq, got.id, prev)));
                            }
                        }
                        run.acked.push((got.id, content));
                        let kept = store.list_checkpoints().map_err(|e| Outcome::fail(format!("{}:list-error", what), format!("{}", e)))?;
                        if kept.len() > hist.max as usize {
                            return Err(Outcome::fail(format!("{}:more-than-max-checkpoints-kept", what), format!("{} kept {:?}, max {}", kept.len(), kept, hist.max)));
                        }
                    }
                }
            }
        }
    }
    Ok(run)
}

fn seeded(hist: &Hist) -> Option<(u64, Content)> {
    (hist.base_id > 0).then(|| (hist.base_id, content_of(&make(hist.base_id, 4, 0))))
}

/// store the pre-existing checkpoint (outside any crash plan)
fn seed(open: StoreFactory, hist: &Hist) -> Result<(), Outcome> {
    if hist.base_id == 0 {
        return Ok(());
    }
    hooks::crash_arm(None);
    let mut cp = make(hist.base_id, 4, 0);
    cp.id = hist.base_id;
    let store = open().map_err(|e| Outcome::discard(format!("seed open: {}", e)))?;
    store.save_checkpoint(&cp).map_err(|e| Outcome::fail("seed:save_checkpoint-error", e.to_string()))
}

fn expect_latest(mgr: &CheckpointManager, want: Option<&(u64, Content)>, what: &str, when: &str) -> Result<(), Outcome> {
    match (mgr.recover(), want) {
        (Ok(None), None) => Ok(()),
        (Ok(Some(c)), Some((id, content))) if c.id == *id && content_of(&c) == *content => Ok(()),
        (Ok(got), want) => Err(Outcome::fail(
            format!("{}:{}:recover-wrong-checkpoint", what, when),
            format!("got {:?}, want {:?}", got.map(|c| (c.id, content_of(&c).0)), want.map(|(id, c)| (*id, c.0))),
        )),
        (Err(e), _) => Err(Outcome::fail(format!("{}:{}:recover-error", what, when), format!("{}", e))),
    }
}

/// Restart after the crash/damage and judge.  `newest`: the checkpoint recovery must return
/// (None = the store must be empty); `all_ids_below`: every id handed out so far.
fn judge_restart(open: StoreFactory, max: u8, newest: Option<&Content>, newest_id: Option<u64>, max_seen_id: Option<u64>, sig: &str, detail: &str) -> Result<(), Outcome> {
    let store = open().map_err(|e| Outcome::fail(format!("{}:store-open-error-after-restart", sig), format!("{} ; {}", e, detail)))?;
    let mut mgr = CheckpointManager::new(store.clone(), cfg(max)).map_err(|e| Outcome::fail(format!("{}:restart-fails", sig), format!("CheckpointManager::new: {} ; {}", e, detail)))?;
    let got = mgr.recover().map_err(|e| Outcome::fail(format!("{}:recover-error", sig), format!("{} ; {}", e, detail)))?;
    match (&got, newest) {
        (None, None) => {}
        (Some(c), Some(want)) => {
            if content_of(c) != *want {
                return Err(Outcome::fail(format!("{}:recover-not-newest-complete", sig), format!("got id {} n={} ; want n={} ; {}", c.id, c.events_processed, want.0, detail)));
            }
            if let Some(id) = newest_id {
                if c.id != id {
                    return Err(Outcome::fail(format!("{}:recover-id-differs", sig), format!("got id {} want {} ; {}", c.id, id, detail)));
                }
            }
        }
        (Some(c), None) => return Err(Outcome::fail(format!("{}:recover-returns-unexpected-checkpoint", sig), format!("got id {} n={} but nothing was completely written ; {}", c.id, c.events_processed, detail))),
        (None, Some(want)) => return Err(Outcome::fail(format!("{}:recover-none-but-complete-checkpoint-exists", sig), format!("want n={} ; {}", want.0, detail))),
    }
    // one more checkpoint: succeeds, gets a larger id than everything before, pruned to max
    let extra = make(777, 3, 999);
    let extra_content = content_of(&extra);
    mgr.checkpoint(extra).map_err(|e| Outcome::fail(format!("{}:checkpoint-after-restart-fails", sig), format!("{} ; {}", e, detail)))?;
    let now = match mgr.recover() {
        Ok(Some(c)) => c,
        other => return Err(Outcome::fail(format!("{}:recover-after-restart-save", sig), format!("{:?} ; {}", other.map(|o| o.map(|c| c.id)).map_err(|e| e.to_string()), detail))),
    };
    if content_of(&now) != extra_content {
        return Err(Outcome::fail(format!("{}:recover-not-newest-after-restart-save", sig), format!("got id {} n={} ; {}", now.id, now.events_processed, detail)));
    }
    let floor = max_seen_id.into_iter().chain(got.as_ref().map(|c| c.id)).max();
    if let Some(f) = floor {
        if now.id <= f {
            return Err(Outcome::fail(format!("{}:id-not-increasing-across-restart", sig), format!("new id {} <= earlier id {} ; {}", now.id, f, detail)));
        }
    }
    let kept = store.list_checkpoints().map_err(|e| Outcome::fail(format!("{}:list-error", sig), format!("{}", e)))?;
    if kept.len() > max as usize {
        return Err(Outcome::fail(format!("{}:more-than-max-checkpoints-kept-after-restart", sig), format!("{:?} max {} ; {}", kept, max, detail)));
    }
    Ok(())
}

fn file_factory(dir: &Path) -> impl Fn() -> Result<Arc<dyn StateStore>, String> + '_ {
    move || FileStore::open(dir).map(|s| Arc::new(s) as Arc<dyn StateStore>).map_err(|e| e.to_string())
}

/// where in the save/prune protocol a crash tag sits
fn tag_class(tag: &str) -> &'static str {
    match tag {
        "open.mkdir" => "in_open",
        "put.mkdir" => "before_write",
        "put.write" => "at_write",
        "put.rename" => "between_write_and_rename",
        "put.done" => "between_save_and_prune",
        "delete.remove" => "before_prune_delete",
        "delete.done" => "after_prune_delete",
        _ => "other",
    }
}

#[derive(Default)]
struct Stats {
    crash_runs: AtomicU64,
    by_class: Mutex<BTreeMap<String, u64>>,
}

fn check_crash(hist: &Hist, stats: &Stats) -> Outcome {
    let base = match tempfile::tempdir() {
        Ok(d) => d,
        Err(e) => return Outcome::discard(format!("tempdir: {}", e)),
    };
    // dry run: count operations
    let dry_dir = base.path().join("dry");
    if let Err(o) = seed(&file_factory(&dry_dir), hist) {
        return o;
    }
    hooks::crash_arm(None);
    let dry = match run_history(&file_factory(&dry_dir), hist, "dry") {
        Ok(r) => r,
        Err(o) => return o,
    };
    let trace = hooks::crash_trace();
    if dry.died.is_some() {
        return Outcome::fail("harness:dry-run-died", "crash without a plan");
    }
    let mut points: Vec<Point> = vec![];
    for (k, (_tag, len)) in trace.iter().enumerate() {
        points.push(Point { op: k as u64, torn: None });
        if let Some(len) = len {
            let mut js = vec![0usize, 1, len / 2, len.saturating_sub(1), *len];
            js.sort();
            js.dedup();
            points.extend(js.into_iter().filter(|j| j <= len).map(|j| Point { op: k as u64, torn: Some(j) }));
        }
    }
    if let Some(p) = hist.only {
        points.retain(|q| *q == p);
    }
    let mut classes: BTreeMap<&'static str, u64> = BTreeMap::new();
    for (i, p) in points.iter().enumerate() {
        let dir = base.path().join(format!("r{}", i));
        if let Err(o) = seed(&file_factory(&dir), hist) {
            return o;
        }
        hooks::crash_arm(Some(CrashPlan { die_at_op: p.op, torn_bytes: p.torn }));
        let run = match run_history(&file_factory(&dir), hist, "crash-run") {
            Ok(r) => r,
            Err(o) => {
                hooks::crash_arm(None);
                return o;
            }
        };
        let Some((op, tag)) = run.died else {
            hooks::crash_arm(None);
            return Outcome::fail("harness:crash-did-not-fire", format!("{:?} of {} ops", p, trace.len()));
        };
        hooks::crash_arm(None); // the process restarts: nothing is armed, nothing is dead
        let cls = tag_class(tag);
        let cls_full = if p.torn.is_some() { "torn_write" } else { cls };
        *classes.entry(cls_full).or_insert(0) += 1;
        // model: the in-flight save is completely written iff the process died after its rename,
        // i.e. at the end of `put` or somewhere in the following prune
        let inflight_complete = run.inflight.is_some() && p.torn.is_none() && matches!(tag, "put.done" | "delete.remove" | "delete.done");
        let last_acked = run.acked.last();
        let (newest, newest_id) = if inflight_complete { (run.inflight.as_ref(), None) } else { (last_acked.map(|(_, c)| c), last_acked.map(|(id, _)| *id)) };
        let max_seen = run.acked.iter().map(|(id, _)| *id).max();
        let detail = format!("crash point {:?} (op {} tag {}), acked ids {:?}, in-flight {}", p, op, tag, run.acked.iter().map(|(id, _)| *id).collect::<Vec<_>>(), if run.inflight.is_some() { if inflight_complete { "complete" } else { "incomplete" } } else { "none" });
        let sig = format!("crash:{}", cls_full);
        if let Err(o) = judge_restart(&file_factory(&dir), hist.max, newest, newest_id, max_seen, &sig, &detail) {
            return o;
        }
        let _ = std::fs::remove_dir_all(&dir);
    }
    stats.crash_runs.fetch_add(points.len() as u64, Ordering::Relaxed);
    {
        let mut m = stats.by_class.lock().unwrap();
        for (k, v) in &classes {
            *m.entry(k.to_string()).or_insert(0) += v;
        }
    }
    let saves = hist.steps.iter().filter(|s| matches!(s, Step::Save { .. })).count();
    let mut o = Outcome::pass()
        .nontrivial(classes.contains_key("between_write_and_rename") || classes.contains_key("between_save_and_prune"))
        .class(format!("max_checkpoints={}", hist.max))
        .class(format!("saves={}", saves))
        .class_if(hist.base_id > 0, "pre_existing_checkpoint")
        .class_if(hist.steps.contains(&Step::Restart), "with_clean_restart")
        .class_if(saves > hist.max as usize, "prunes");
    for k in classes.keys() {
        o = o.class(format!("crash:{}", k));
    }
    o
}

// ------------------------------------------------------------------ post-hoc damage

#[derive(Clone, Debug, Serialize, Deserialize, PartialEq)]
enum Damage {
    /// keep only the first `permille`/1000 of the file
    Truncate { permille: u16 },
    Empty,
    Garbage { bytes: Vec<u8> },
    /// overwrite the first byte
    FirstByte { b: u8 },
    Delete,
}

#[derive(Clone, Debug, Serialize, Deserialize)]
struct DamageCase {
    hist: Hist,
    damage: Damage,
}

fn damaged(orig: &[u8], d: &Damage) -> Option<Vec<u8>> {
    match d {
        Damage::Truncate { permille } => {
            let keep = (orig.len() * (*permille as usize % 1000)) / 1000;
            Some(orig[..keep.min(orig.len().saturating_sub(1))].to_vec())
        }
        Damage::Empty => Some(vec![]),
        Damage::Garbage { bytes } => Some(bytes.clone()),
        Damage::FirstByte { b } => {
            let mut v = orig.to_vec();
            if !v.is_empty() {
                v[0] = *b;
            }
            Some(v)
        }
        Damage::Delete => None,
    }
}

/// is the damaged content really unreadable as a checkpoint? (a `FirstByte`/`Garbage` choice can
/// by chance still be a valid document: then it is not in the property's domain)
fn unreadable(bytes: &[u8]) -> bool {
    vh_common::serde_json::from_slice::<Checkpoint>(bytes).is_err()
}

fn check_damage(case: &DamageCase, file: bool) -> Outcome {
    let base;
    let mem;
    let dir;
    let factory: Box<dyn Fn() -> Result<Arc<dyn StateStore>, String>> = if file {
        base = match tempfile::tempdir() {
            Ok(d) => d,
            Err(e) => return Outcome::discard(format!("tempdir: {}", e)),
        };
        dir = base.path().join("s");
        let d2 = dir.clone();
        Box::new(move || FileStore::open(&d2).map(|s| Arc::new(s) as Arc<dyn StateStore>).map_err(|e| e.to_string()))
    } else {
        mem = Arc::new(MemoryStore::new());
        dir = std::path::PathBuf::new();
        let m2 = mem.clone();
        Box::new(move || Ok(m2.clone() as Arc<dyn StateStore>))
    };
    let what = if file { "file" } else { "memory" };
    if let Err(o) = seed(&*factory, &case.hist) {
        return o;
    }
    hooks::crash_arm(None);
    let run = match run_history(&*factory, &case.hist, what) {
        Ok(r) => r,
        Err(o) => return o,
    };
    let Some((newest_id, _)) = run.acked.last().cloned() else {
        return Outcome::pass().class("no_checkpoint_saved");
    };
    // damage the newest stored checkpoint
    let store = match factory() {
        Ok(s) => s,
        Err(e) => return Outcome::fail(format!("{}:store-open-error", what), e),
    };
    let key = format!("checkpoint:{}", newest_id);
    let orig = if file {
        let path = dir.join("checkpoint").join(newest_id.to_string());
        match std::fs::read(&path) {
            Ok(b) => b,
            Err(e) => return Outcome::fail("harness:newest-checkpoint-file-not-found", format!("{}: {}", path.display(), e)),
        }
    } else {
        match store.get(&key) {
            Ok(Some(b)) => b,
            other => return Outcome::fail("harness:newest-checkpoint-key-not-found", format!("{:?}", other.map(|o| o.map(|b| b.len())).map_err(|e| e.to_string()))),
        }
    };
    let new = damaged(&orig, &case.damage);
    if let Some(b) = &new {
        if !unreadable(b) {
            return Outcome::pass().class("damage_left_it_readable");
        }
    }
    if file {
        let path = dir.join("checkpoint").join(newest_id.to_string());
        let r = match &new {
            Some(b) => std::fs::write(&path, b),
            None => std::fs::remove_file(&path),
        };
        if let Err(e) = r {
            return Outcome::discard(format!("cannot damage file: {}", e));
        }
    } else {
        let r = match &new {
            Some(b) => store.put(&key, b),
            None => store.delete(&key),
        };
        if let Err(e) = r {
            return Outcome::fail("memory:put-error", e.to_string());
        }
    }
    drop(store);
    // the older checkpoints that are still stored: all acknowledged ones among the last `max`
    let kept: Vec<&(u64, Content)> = run.acked.iter().rev().take(case.hist.max as usize).collect();
    let older = kept.get(1).copied();
    let dclass = match &case.damage {
        Damage::Truncate { .. } => "truncated",
        Damage::Empty => "empty",
        Damage::Garbage { .. } => "garbage",
        Damage::FirstByte { .. } => "first_byte",
        Damage::Delete => "deleted",
    };
    let Some((older_id, older_content)) = older else {
        // no older checkpoint: the property promises nothing beyond "no panic"
        let _ = factory().and_then(|s| CheckpointManager::new(s, cfg(case.hist.max)).map(|m| m.recover().is_ok()).map_err(|e| e.to_string()));
        return Outcome::pass().class("no_older_checkpoint").class(format!("damage:{}", dclass));
    };
    let sig = format!("{}:newest-{}", what, dclass);
    let detail = format!("ids acked {:?}, newest id {} damaged ({:?}), older id {}", run.acked.iter().map(|(id, _)| *id).collect::<Vec<_>>(), newest_id, case.damage, older_id);
    // ids: the damaged checkpoint's id was handed out, so later ids must exceed it — unless the
    // file was deleted (then nothing on disk remembers it)
    let max_seen = if new.is_some() { Some(newest_id) } else { Some(*older_id) };
    if let Err(o) = judge_restart(&*factory, case.hist.max, Some(older_content), Some(*older_id), max_seen, &sig, &detail) {
        return o;
    }
    Outcome::pass().nontrivial(true).class(format!("damage:{}", dclass)).class(format!("max_checkpoints={}", case.hist.max)).class("older_recovered")
}

// ------------------------------------------------------------------ strategies

fn hist_strategy(min_saves: usize) -> impl Strategy<Value = Hist> {
    let step = prop_oneof![
        5 => (prop_oneof![3 => 0u64..1000, 1 => any::<u64>()], prop_oneof![3 => 0u16..40, 1 => 0u16..3000]).prop_map(|(n, pad)| Step::Save { n, pad }),
        1 => Just(Step::Restart),
    ];
    let base = prop_oneof![3 => Just(0u64), 3 => proptest::sample::select(vec![5u64, 8, 9, 95, 98, 99, 999, 4294967295, (1 << 53) - 3]), 1 => 1u64..2000];
    (1u8..=3, proptest::collection::vec(step, 1..12), base).prop_map(move |(max, mut steps, base_id)| {
        // at most 8 saves (the property's bound), at least `min_saves`
        let mut saves = 0;
        steps.retain(|s| match s {
            Step::Save { .. } => {
                saves += 1;
                saves <= 8
            }
            Step::Restart => true,
        });
        while saves < min_saves {
            steps.push(Step::Save { n: saves as u64, pad: 5 });
            saves += 1;
        }
        Hist { max, base_id, steps, only: None }
    })
}

fn damage_strategy() -> impl Strategy<Value = Damage> {
    prop_oneof![
        3 => (0u16..1000).prop_map(|permille| Damage::Truncate { permille }),
        1 => Just(Damage::Empty),
        2 => proptest::collection::vec(any::<u8>(), 1..40).prop_map(|bytes| Damage::Garbage { bytes }),
        1 => proptest::sample::select(vec![0u8, 0xff, b' ', b'[', b'x', b'0']).prop_map(|b| Damage::FirstByte { b }),
        1 => Just(Damage::Delete),
    ]
}

fn main() {
    let check = Check::new("C21", "fault_enumeration");
    check.rule("crash: histories of 1-8 CheckpointManager::checkpoint calls (payload 0-3000 bytes) with max_checkpoints 1-3 and clean restarts, on the real FileStore in a temp dir; a dry run records every mutating fs operation (create_dir_all/write/rename/remove_file + the point after the last op of put/delete) through hook H4, then the history is re-run once for EVERY operation index (process dies before it) and for torn writes of 0/1/half/len-1/len bytes; after the crash a new FileStore+CheckpointManager on the same directory must start, recover() must return exactly the newest completely written checkpoint (model: acknowledged saves + the in-flight one iff the crash came after its rename), a further checkpoint() must succeed with an id above all earlier ids and leave <= max_checkpoints; the same id/newest/<=max checks run after every acknowledged save. corrupt/memory: the newest stored checkpoint is truncated/emptied/overwritten/deleted on FileStore and MemoryStore; with an older one present recovery must return that one and ids must still grow. Non-trivial = history with a crash between write and rename or between save and prune / damaged newest with an older checkpoint present.");
    check.assume("process crashes only (no power loss: data written before the crash is on disk, rename is atomic); the crash hook H4 marks all mutating fs calls of FileStore; single writer");
    let stats = Stats::default();
    check.explore("crash", || hist_strategy(1), 300, 5000, |h: &Hist| check_crash(h, &stats));
    check.explore(
        "corrupt",
        || (hist_strategy(2), damage_strategy()).prop_map(|(hist, damage)| DamageCase { hist, damage }),
        600,
        12_000,
        |c: &DamageCase| check_damage(c, true),
    );
    check.explore(
        "memory",
        || (hist_strategy(2), damage_strategy()).prop_map(|(hist, damage)| DamageCase { hist, damage }),
        1500,
        30_000,
        |c: &DamageCase| check_damage(c, false),
    );
    check.extra("crash_runs_total", json!(stats.crash_runs.load(Ordering::Relaxed)));
    check.extra("crash_runs_by_point_class", json!(*stats.by_class.lock().unwrap()));
    println!("  crash runs: {} {:?}", stats.crash_runs.load(Ordering::Relaxed), stats.by_class.lock().unwrap());
    check.finish();
}
