//! C44 Event values keep their types and contents through the REST API.
//!
//! A pipeline that echoes a field and names its runtime type is deployed through the real
//! warp filters of varpulis-cli; generated JSON payloads are posted as raw JSON *text*
//! (own renderer: exponent forms, escape styles) to `/events` and `/events-batch`; the
//! response text is decoded by an own small JSON reader (number kind from the literal's
//! syntax, value by Rust's exact parser) and compared with the value model.
use proptest::prelude::*;
use serde::{Deserialize, Serialize};
use vh_common::{Check, Outcome};
use vh_gen::F;
use vh_server::varpulis_cli::api;
use vh_server::varpulis_runtime::tenant::{TenantManager, TenantQuota};

const SRC: &str = "stream Out = E .emit(v: x, t: type_of(x), w: y)\nstream Echo = G .emit(v: x, w: y)\n";
const KEY: &str = "c44-tenant-key";

// ------------------------------------------------------------------ value model

#[derive(Clone, Debug, Serialize, Deserialize)]
enum J {
    Null,
    Bool(bool),
    /// integer literal, value in i64::MIN ..= u64::MAX
    Int(i128),
    /// float literal: value + rendering style
    Float(F, u8),
    /// string: contents + escape style
    Str(String, u8),
    Arr(Vec<J>),
    Obj(Vec<(String, J)>),
}

fn same(a: &J, b: &J) -> bool {
    match (a, b) {
        (J::Null, J::Null) => true,
        (J::Bool(x), J::Bool(y)) => x == y,
        (J::Int(x), J::Int(y)) => x == y,
        (J::Float(x, _), J::Float(y, _)) => x.0.to_bits() == y.0.to_bits(),
        (J::Str(x, _), J::Str(y, _)) => x == y,
        (J::Arr(x), J::Arr(y)) => x.len() == y.len() && x.iter().zip(y).all(|(p, q)| same(p, q)),
        (J::Obj(x), J::Obj(y)) => {
            // JSON objects are unordered
            x.len() == y.len() && x.iter().all(|(k, v)| y.iter().filter(|(k2, _)| k2 == k).count() == 1 && y.iter().any(|(k2, v2)| k2 == k && same(v, v2)))
        }
        _ => false,
    }
}

fn type_name(j: &J) -> &'static str {
    match j {
        J::Null => "null",
        J::Bool(_) => "bool",
        J::Int(_) => "int",
        J::Float(..) => "float",
        J::Str(..) => "string",
        J::Arr(_) => "array",
        J::Obj(_) => "map",
    }
}

fn depth(j: &J) -> usize {
    match j {
        J::Arr(a) => 1 + a.iter().map(depth).max().unwrap_or(0),
        J::Obj(o) => 1 + o.iter().map(|(_, v)| depth(v)).max().unwrap_or(0),
        _ => 0,
    }
}

const TWO53: i128 = 1 << 53;

fn has_boundary(j: &J) -> bool {
    match j {
        J::Int(i) => i.abs() >= TWO53 - 1,
        J::Float(f, _) => f.0.abs() >= 9.0e15 || (f.0 != 0.0 && f.0.abs() < 1e-300) || f.0.to_bits() == (-0.0f64).to_bits(),
        J::Arr(a) => a.iter().any(has_boundary),
        J::Obj(o) => o.iter().any(|(_, v)| has_boundary(v)),
        _ => false,
    }
}

fn has_big_u64(j: &J) -> bool {
    match j {
        J::Int(i) => *i > i64::MAX as i128,
        J::Arr(a) => a.iter().any(has_big_u64),
        J::Obj(o) => o.iter().any(|(_, v)| has_big_u64(v)),
        _ => false,
    }
}

/// replace integers above i64::MAX (known finding) by an i64 of the same low digits
fn clamp_big(j: &mut J) -> bool {
    match j {
        J::Int(i) if *i > i64::MAX as i128 => {
            *i = i64::MAX as i128 - (*i % 1000);
            true
        }
        J::Arr(a) => a.iter_mut().fold(false, |acc, v| clamp_big(v) | acc),
        J::Obj(o) => o.iter_mut().fold(false, |acc, (_, v)| clamp_big(v) | acc),
        _ => false,
    }
}

// ------------------------------------------------------------------ rendering (request text)

fn render_float(f: f64, style: u8) -> String {
    let cands: Vec<String> = match style % 6 {
        0 => vec![format!("{:?}", f)],
        1 => vec![format!("{:e}", f)],
        2 => vec![format!("{:E}", f)],
        3 => vec![format!("{:e}", f).replace('e', "e+").replace("e+-", "e-")],
        4 => vec![format!("{:.17e}", f)],
        _ => vec![if f.fract() == 0.0 && f.abs() < 1e15 { format!("{:.2}", f) } else { format!("{:.20e}", f) }],
    };
    for mut c in cands {
        // must be a float literal (has '.', 'e' or 'E') and denote exactly f
        if !c.contains(['.', 'e', 'E']) {
            c.push_str(".0");
        }
        if c.parse::<f64>().map(|g| g.to_bits() == f.to_bits()).unwrap_or(false) {
            return c;
        }
    }
    let mut s = format!("{:?}", f);
    if !s.contains(['.', 'e', 'E']) {
        s.push_str(".0");
    }
    s
}

fn render_str(s: &str, style: u8) -> String {
    let mut o = String::from("\"");
    for ch in s.chars() {
        let short = match ch {
            '"' => Some("\\\""),
            '\\' => Some("\\\\"),
            '\n' => Some("\\n"),
            '\t' => Some("\\t"),
            '\r' => Some("\\r"),
            '\u{8}' => Some("\\b"),
            '\u{c}' => Some("\\f"),
            _ => None,
        };
        let as_u = |o: &mut String| {
            let mut b = [0u16; 2];
            for u in ch.encode_utf16(&mut b) {
                o.push_str(&format!("\\u{:04x}", u));
            }
        };
        match style % 4 {
            2 => as_u(&mut o),
            1 if !ch.is_ascii() => as_u(&mut o),
            3 if ch == '/' => o.push_str("\\/"),
            _ => {
                if let (Some(e), true) = (short, style % 4 != 2) {
                    o.push_str(e)
                } else if (ch as u32) < 0x20 {
                    as_u(&mut o)
                } else {
                    o.push(ch)
                }
            }
        }
    }
    o.push('"');
    o
}

fn render(j: &J) -> String {
    match j {
        J::Null => "null".into(),
        J::Bool(b) => b.to_string(),
        J::Int(i) => i.to_string(),
        J::Float(f, st) => render_float(f.0, *st),
        J::Str(s, st) => render_str(s, *st),
        J::Arr(a) => format!("[{}]", a.iter().map(render).collect::<Vec<_>>().join(", ")),
        J::Obj(o) => format!("{{{}}}", o.iter().map(|(k, v)| format!("{}:{}", render_str(k, 0), render(v))).collect::<Vec<_>>().join(",")),
    }
}

// ------------------------------------------------------------------ own JSON reader (response text)

struct Rd<'a> {
    s: &'a [u8],
    i: usize,
}

impl<'a> Rd<'a> {
    fn ws(&mut self) {
        while self.i < self.s.len() && matches!(self.s[self.i], b' ' | b'\n' | b'\t' | b'\r') {
            self.i += 1;
        }
    }
    fn eat(&mut self, lit: &str) -> Result<(), String> {
        if self.s[self.i..].starts_with(lit.as_bytes()) {
            self.i += lit.len();
            Ok(())
        } else {
            Err(format!("expected {} at {}", lit, self.i))
        }
    }
    fn hex4(&mut self) -> Result<u16, String> {
        let h = std::str::from_utf8(self.s.get(self.i..self.i + 4).ok_or("short \\u")?).map_err(|e| e.to_string())?;
        self.i += 4;
        u16::from_str_radix(h, 16).map_err(|e| e.to_string())
    }
    fn string(&mut self) -> Result<String, String> {
        self.eat("\"")?;
        let mut out = String::new();
        loop {
            let start = self.i;
            while self.i < self.s.len() && self.s[self.i] != b'"' && self.s[self.i] != b'\\' {
                self.i += 1;
            }
            out.push_str(std::str::from_utf8(&self.s[start..self.i]).map_err(|e| e.to_string())?);
            match self.s.get(self.i) {
                Some(b'"') => {
                    self.i += 1;
                    return Ok(out);
                }
                Some(b'\\') => {
                    self.i += 1;
                    let c = *self.s.get(self.i).ok_or("eof in escape")?;
                    self.i += 1;
                    match c {
                        b'"' => out.push('"'),
                        b'\\' => out.push('\\'),
                        b'/' => out.push('/'),
                        b'n' => out.push('\n'),
                        b't' => out.push('\t'),
                        b'r' => out.push('\r'),
                        b'b' => out.push('\u{8}'),
                        b'f' => out.push('\u{c}'),
                        b'u' => {
                            let hi = self.hex4()?;
                            if (0xD800..0xDC00).contains(&hi) {
                                self.eat("\\u")?;
                                let lo = self.hex4()?;
                                let c = char::decode_utf16([hi, lo]).next().unwrap().map_err(|e| e.to_string())?;
                                out.push(c);
                            } else {
                                out.push(char::from_u32(hi as u32).ok_or("lone surrogate")?);
                            }
                        }
                        x => return Err(format!("bad escape {}", x as char)),
                    }
                }
                _ => return Err("eof in string".into()),
            }
        }
    }
    fn value(&mut self) -> Result<J, String> {
        self.ws();
        match *self.s.get(self.i).ok_or("eof")? {
            b'n' => self.eat("null").map(|_| J::Null),
            b't' => self.eat("true").map(|_| J::Bool(true)),
            b'f' => self.eat("false").map(|_| J::Bool(false)),
            b'"' => self.string().map(|s| J::Str(s, 0)),
            b'[' => {
                self.i += 1;
                let mut v = vec![];
                self.ws();
                if self.s.get(self.i) == Some(&b']') {
                    self.i += 1;
                    return Ok(J::Arr(v));
                }
                loop {
                    v.push(self.value()?);
                    self.ws();
                    match self.s.get(self.i) {
                        Some(b',') => self.i += 1,
                        Some(b']') => {
                            self.i += 1;
                            return Ok(J::Arr(v));
                        }
                        _ => return Err(format!("bad array at {}", self.i)),
                    }
                }
            }
            b'{' => {
                self.i += 1;
                let mut v = vec![];
                self.ws();
                if self.s.get(self.i) == Some(&b'}') {
                    self.i += 1;
                    return Ok(J::Obj(v));
                }
                loop {
                    self.ws();
                    let k = self.string()?;
                    self.ws();
                    self.eat(":")?;
                    let x = self.value()?;
                    v.push((k, x));
                    self.ws();
                    match self.s.get(self.i) {
                        Some(b',') => self.i += 1,
                        Some(b'}') => {
                            self.i += 1;
                            return Ok(J::Obj(v));
                        }
                        _ => return Err(format!("bad object at {}", self.i)),
                    }
                }
            }
            _ => {
                let start = self.i;
                while self.i < self.s.len() && matches!(self.s[self.i], b'0'..=b'9' | b'-' | b'+' | b'.' | b'e' | b'E') {
                    self.i += 1;
                }
                let t = std::str::from_utf8(&self.s[start..self.i]).unwrap();
                if t.is_empty() {
                    return Err(format!("unexpected byte at {}", start));
                }
                if t.contains(['.', 'e', 'E']) {
                    t.parse::<f64>().map(|f| J::Float(F(f), 0)).map_err(|e| format!("{}: {}", t, e))
                } else {
                    t.parse::<i128>().map(J::Int).map_err(|e| format!("{}: {}", t, e))
                }
            }
        }
    }
}

fn read_json(body: &[u8]) -> Result<J, String> {
    let mut r = Rd { s: body, i: 0 };
    let v = r.value()?;
    r.ws();
    if r.i != body.len() {
        return Err("trailing bytes".into());
    }
    Ok(v)
}

fn get<'a>(j: &'a J, k: &str) -> Option<&'a J> {
    match j {
        J::Obj(o) => o.iter().find(|(k2, _)| k2 == k).map(|(_, v)| v),
        _ => None,
    }
}

// ------------------------------------------------------------------ generators

fn int_strategy(allow_big_u64: bool) -> BoxedStrategy<i128> {
    let mut pool: Vec<i128> = vec![
        0, 1, -1, 7, 255, -256, 1 << 31, (1 << 31) - 1, -(1 << 31), 1 << 32, TWO53 - 1, TWO53, TWO53 + 1, -(TWO53 + 1), TWO53 + 2, 10_000_000_000_000_001, 1 << 62,
        i64::MAX as i128, i64::MAX as i128 - 1, i64::MIN as i128, i64::MIN as i128 + 1, 999_999_999_999_999_999, -999_999_999_999_999_999,
    ];
    if allow_big_u64 {
        pool.extend([i64::MAX as i128 + 1, i64::MAX as i128 + 2, u64::MAX as i128, u64::MAX as i128 - 1, 10_000_000_000_000_000_000, (1i128 << 63) + 1025]);
        prop_oneof![3 => proptest::sample::select(pool), 2 => -20i128..20, 2 => any::<i64>().prop_map(|x| x as i128), 1 => any::<u64>().prop_map(|x| x as i128)].boxed()
    } else {
        prop_oneof![3 => proptest::sample::select(pool), 2 => -20i128..20, 2 => any::<i64>().prop_map(|x| x as i128)].boxed()
    }
}

fn float_strategy() -> impl Strategy<Value = f64> {
    let pool: Vec<f64> = vec![
        0.0, -0.0, 1.0, -1.0, 0.5, 1.5, 0.1, 0.2, 0.30000000000000004, 100.0, 1e2, 1e15, 1e16, 1e21, 1e22, 1e23, 1e300, -1e300, f64::MAX, f64::MIN, f64::MIN_POSITIVE, 5e-324, 2.2250738585072011e-308,
        9007199254740992.0, 9007199254740993.0, 9007199254740994.0, 9.223372036854775807e18, 1.8446744073709552e19, -9.223372036854775808e18, 4294967296.0, 123456789.125, 3.141592653589793, 2.718281828459045e-5,
        8.41e21, 2.0e-308, 6.02214076e23, 1.7976931348623157e308, 4.35e-10,
    ];
    prop_oneof![
        3 => proptest::sample::select(pool),
        2 => (-4000i32..4000).prop_map(|i| i as f64 / 8.0),
        3 => any::<f64>().prop_filter("finite", |f| f.is_finite()),
        1 => any::<u64>().prop_map(|b| f64::from_bits(b)).prop_filter("finite", |f| f.is_finite()),
    ]
}

fn string_strategy() -> impl Strategy<Value = String> {
    prop_oneof![
        4 => proptest::sample::select(vec![
            "", "a", "x", "0", "1", "1.5", "1e5", "-0", "true", "null", "NaN", "héllo", "日本語", "q\"uote", "back\\slash", "new\nline", "tab\t", "\r\n", "😀", " sp ", "\u{0}", "a\u{0}b", "\u{1}\u{1f}", "\u{7f}", "\u{80}",
            "\u{2028}\u{2029}", "\u{feff}bom", "/slash/", "\\u0041", "\u{ffff}", "\u{10ffff}", "e\u{301}", "{\"a\":1}", "[1,2]", "9223372036854775808",
        ])
        .prop_map(|s| s.to_string()),
        2 => "\\PC{0,8}",
        1 => proptest::collection::vec(any::<char>(), 0..6).prop_map(|v| v.into_iter().collect::<String>()),
    ]
}

fn key_strategy() -> impl Strategy<Value = String> {
    prop_oneof![
        5 => proptest::sample::select(vec!["a", "b", "c", "k", "x", "v", "t", "é", "", " ", "event_type", "fields", "a.b", "日", "\"", "\\", "\n", "0", "😀"]).prop_map(|s| s.to_string()),
        1 => "\\PC{0,5}",
    ]
}

fn dedup(kv: Vec<(String, J)>) -> Vec<(String, J)> {
    let mut seen = std::collections::HashSet::new();
    kv.into_iter().filter(|(k, _)| seen.insert(k.clone())).collect()
}

fn value_strategy(allow_big_u64: bool) -> BoxedStrategy<J> {
    let leaf = proptest::prop_oneof![
        1 => Just(J::Null),
        1 => any::<bool>().prop_map(J::Bool),
        4 => int_strategy(allow_big_u64).prop_map(J::Int),
        4 => (float_strategy(), any::<u8>()).prop_map(|(f, s)| J::Float(F(f), s)),
        3 => (string_strategy(), any::<u8>()).prop_map(|(s, st)| J::Str(s, st)),
    ];
    let nested = leaf.clone().prop_recursive(4, 24, 4, |inner| {
        prop_oneof![
            proptest::collection::vec(inner.clone(), 0..4).prop_map(J::Arr),
            proptest::collection::vec((key_strategy(), inner), 0..4).prop_map(|kv| J::Obj(dedup(kv))),
        ]
    });
    prop_oneof![2 => leaf, 3 => nested].boxed()
}

#[derive(Clone, Debug, Serialize, Deserialize)]
struct Inj {
    /// 0 -> E (emit with expressions incl. type_of), 1 -> G (plain field emit)
    route: u8,
    x: J,
    y: J,
    /// further fields the pipeline does not look at
    extra: Vec<(String, J)>,
}

#[derive(Clone, Debug, Serialize, Deserialize)]
struct Case {
    batch: bool,
    events: Vec<Inj>,
}

fn case_strategy(allow_big_u64: bool) -> impl Strategy<Value = Case> {
    let inj = (0u8..3, value_strategy(allow_big_u64), value_strategy(allow_big_u64), proptest::collection::vec((key_strategy(), value_strategy(allow_big_u64)), 0..3)).prop_map(|(r, x, y, extra)| Inj {
        route: if r < 2 { 0 } else { 1 },
        x,
        y,
        extra: dedup(extra).into_iter().filter(|(k, _)| k != "x" && k != "y").collect(),
    });
    (any::<bool>(), proptest::collection::vec(inj, 1..5)).prop_map(|(batch, events)| Case { batch, events })
}

// ------------------------------------------------------------------ the check

fn event_json(e: &Inj) -> String {
    let ty = ["E", "G"][e.route as usize];
    let mut fields: Vec<(String, J)> = vec![("x".to_string(), e.x.clone())];
    fields.extend(e.extra.iter().cloned());
    fields.push(("y".to_string(), e.y.clone()));
    format!("{{\"event_type\":\"{}\",\"fields\":{}}}", ty, render(&J::Obj(fields)))
}

/// expected output fields of one injected event
fn expected(e: &Inj) -> (&'static str, J) {
    match e.route {
        0 => ("Out", J::Obj(vec![("v".into(), e.x.clone()), ("t".into(), J::Str(type_name(&e.x).into(), 0)), ("w".into(), e.y.clone())])),
        _ => ("Echo", J::Obj(vec![("v".into(), e.x.clone()), ("w".into(), e.y.clone())])),
    }
}

fn classify_diff(want: &J, got: &J) -> String {
    match (want, got) {
        (J::Int(w), J::Float(..)) if *w > i64::MAX as i128 => "u64-above-i64max-becomes-float".into(),
        (J::Int(_), J::Float(..)) => "int-becomes-float".into(),
        (J::Float(..), J::Int(_)) => "float-becomes-int".into(),
        (J::Int(_), J::Int(_)) => "int-value-changed".into(),
        (J::Float(..), J::Float(..)) => "float-value-changed".into(),
        (J::Str(..), J::Str(..)) => "string-changed".into(),
        (J::Arr(w), J::Arr(g)) if w.len() == g.len() => w.iter().zip(g).find(|(a, b)| !same(a, b)).map(|(a, b)| classify_diff(a, b)).unwrap_or("array-changed".into()),
        (J::Obj(w), J::Obj(g)) if w.len() == g.len() => {
            for (k, v) in w {
                match g.iter().find(|(k2, _)| k2 == k) {
                    None => return "object-key-lost".into(),
                    Some((_, v2)) if !same(v, v2) => return classify_diff(v, v2),
                    _ => {}
                }
            }
            "object-changed".into()
        }
        (J::Arr(_), J::Arr(_)) => "array-length-changed".into(),
        (J::Obj(_), J::Obj(_)) => "object-size-changed".into(),
        (w, g) => format!("{}-becomes-{}", type_name(w), type_name(g)),
    }
}

fn run_case(case: &Case) -> Outcome {
    let rt = tokio::runtime::Builder::new_current_thread().enable_all().build().unwrap();
    rt.block_on(async {
        let mut mgr = TenantManager::new();
        let tid = mgr.create_tenant("c44".into(), KEY.into(), TenantQuota::enterprise()).unwrap();
        let manager = std::sync::Arc::new(tokio::sync::RwLock::new(mgr));
        let routes = api::api_routes(manager.clone(), None);
        let _ = tid;
        // deploy through the API
        let resp = warp::test::request()
            .method("POST")
            .path("/api/v1/pipelines")
            .header("x-api-key", KEY)
            .json(&serde_json::json!({"name": "c44", "source": SRC}))
            .reply(&routes)
            .await;
        if resp.status() != 201 {
            return Outcome::discard(format!("deploy-failed-{}", resp.status()));
        }
        let id = match read_json(resp.body()).ok().and_then(|j| get(&j, "id").cloned()) {
            Some(J::Str(s, _)) => s,
            _ => return Outcome::discard("deploy-no-id"),
        };
        // inject
        let mut outs: Vec<(String, J)> = vec![]; // (event_type, fields object)
        let bodies: Vec<String> = if case.batch {
            vec![format!("{{\"events\":[{}]}}", case.events.iter().map(event_json).collect::<Vec<_>>().join(","))]
        } else {
            case.events.iter().map(event_json).collect()
        };
        for body in &bodies {
            let path = format!("/api/v1/pipelines/{}/{}", id, if case.batch { "events-batch" } else { "events" });
            let resp = warp::test::request().method("POST").path(&path).header("x-api-key", KEY).header("content-type", "application/json").body(body.clone()).reply(&routes).await;
            if resp.status() != 200 {
                return Outcome::fail(
                    format!("inject-refused-{}", resp.status().as_u16()),
                    format!("POST {} body {} -> {} {}", path, vh_common::truncate(body, 600), resp.status(), String::from_utf8_lossy(resp.body())),
                );
            }
            let j = match read_json(resp.body()) {
                Ok(j) => j,
                Err(e) => return Outcome::fail("response-not-json", format!("{}: {}", e, String::from_utf8_lossy(resp.body()))),
            };
            let Some(J::Arr(list)) = get(&j, "output_events") else {
                return Outcome::fail("response-without-output_events", String::from_utf8_lossy(resp.body()).to_string());
            };
            for o in list {
                let Some(J::Str(ty, _)) = get(o, "event_type") else {
                    return Outcome::fail("output-without-event_type", render(o));
                };
                let fields = if case.batch {
                    // flat layout: every key except event_type
                    match o {
                        J::Obj(kv) => J::Obj(kv.iter().filter(|(k, _)| k != "event_type").cloned().collect()),
                        _ => J::Null,
                    }
                } else {
                    get(o, "fields").cloned().unwrap_or(J::Null)
                };
                outs.push((ty.clone(), fields));
            }
        }
        if outs.len() != case.events.len() {
            return Outcome::fail(
                "output-count",
                format!("{} events injected, {} outputs: requests {:?}", case.events.len(), outs.len(), bodies.iter().map(|b| vh_common::truncate(b, 300)).collect::<Vec<_>>()),
            );
        }
        let mut o = Outcome::pass();
        let mut nt = false;
        for (e, (ty, got)) in case.events.iter().zip(&outs) {
            let (want_ty, want) = expected(e);
            if ty != want_ty || !same(&want, got) {
                let sig = if ty != want_ty { "wrong-output-stream".to_string() } else { classify_diff(&want, got) };
                return Outcome::fail(
                    format!("{}:{}", if case.batch { "batch" } else { "single" }, sig),
                    format!("injected {} ; expected {} {} ; got {} {}", vh_common::truncate(&event_json(e), 700), want_ty, vh_common::truncate(&render(&want), 700), ty, vh_common::truncate(&render(got), 700)),
                );
            }
            let d = depth(&e.x);
            let b = has_boundary(&e.x) || has_boundary(&e.y);
            nt |= d > 0 || depth(&e.y) > 0 || b;
            o = o
                .class(format!("x:{}", type_name(&e.x)))
                .class_if(d >= 2, "x:depth>=2")
                .class_if(b, "boundary_number")
                .class(["route:emit_expr_type_of", "route:plain_emit"][e.route as usize]);
        }
        o.nontrivial(nt).class(if case.batch { "endpoint:events-batch" } else { "endpoint:events" })
    })
}

fn main() {
    let check = Check::new("C44", "exploration");
    check.rule("1-4 events per case, each {x, y: JSON values of depth<=4, 0-2 extra ignored fields with odd names}; ints from i64 boundaries/2^53+-1/random i64, floats from boundary pool/random bit patterns rendered in 6 literal styles (shortest, e/E/e+ exponents, 17 and 21 digits), strings with NUL/control/BMP/astral chars in 4 escape styles, odd object keys; sent as raw JSON text to /events or /events-batch of a pipeline `E.emit(v: x, t: type_of(x), w: y)` (expression emit) and `G.emit(v: x, w: y)` (plain field emit); response decoded by an own JSON reader; oracle: v == x (exact number value + int/float kind, string contents, unordered objects), t == type name; non-trivial = nested value or boundary number");
    check.assume("Rust's str::parse::<f64>/<i128> and float formatting are exact (used for the model side)");
    check.explore("rest_roundtrip", || case_strategy(true), 10_000, 300_000, |c: &Case| {
        // known finding (integers above i64::MAX become floats): that class is clamped out of
        // the main search and exercised by the sub-check below
        let mut c = c.clone();
        let mut clamped = false;
        for e in &mut c.events {
            clamped |= clamp_big(&mut e.x) | clamp_big(&mut e.y);
            for (_, v) in &mut e.extra {
                clamped |= clamp_big(v);
            }
        }
        run_case(&c).class_if(clamped, "excluded:u64_above_i64max(clamped_to_i64)")
    });
    // the excluded class stays exercised: the known finding keeps being reported and anything
    // else that goes wrong with such payloads still fails
    check.explore(
        "rest_roundtrip_u64",
        || {
            (case_strategy(true), int_strategy(true)).prop_map(|(mut c, i)| {
                if !c.events.iter().any(|e| has_big_u64(&e.x) || has_big_u64(&e.y)) {
                    c.events[0].y = J::Int(if i > i64::MAX as i128 { i } else { u64::MAX as i128 });
                }
                c
            })
        },
        300,
        5_000,
        |c: &Case| run_case(c).class("u64_above_i64max_payload"),
    );
    check.finish();
}
