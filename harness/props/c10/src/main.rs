//! C10 Compile-time constant folding never changes what an expression computes.
use proptest::prelude::*;
use serde::{Deserialize, Serialize};
use std::sync::atomic::{AtomicU64, Ordering as AO};
use varpulis_core::ast::Expr;
use varpulis_core::Value;
use vh_common::{guard, Check, Outcome};
use vh_gen::expr::{fold, parse_expr, Op, E};
use vh_gen::{Ev, F, V};

#[derive(Clone, Debug, Serialize, Deserialize)]
struct Case {
    expr: E,
    /// values of the fields fa, fb, fc (fm is always missing)
    fields: Vec<(String, V)>,
    /// replay-only: do not rewrite the sub-expressions of the classes recorded as known findings
    #[serde(default)]
    raw: bool,
}

static RENDER_MISMATCH: AtomicU64 = AtomicU64::new(0);

fn eval(e: &Expr, ev: &varpulis_runtime::event::Event) -> Option<Value> {
    varpulis_runtime::engine::eval_filter_expr(e, ev, varpulis_runtime::sequence::SequenceContext::empty())
}

/// same absence/presence, same type, same value (floats bit-exact, all NaNs equal)
fn same(a: &Option<Value>, b: &Option<Value>) -> bool {
    fn veq(a: &Value, b: &Value) -> bool {
        match (a, b) {
            (Value::Float(x), Value::Float(y)) => (x.is_nan() && y.is_nan()) || x.to_bits() == y.to_bits(),
            (Value::Array(x), Value::Array(y)) => x.len() == y.len() && x.iter().zip(y.iter()).all(|(p, q)| veq(p, q)),
            (Value::Map(x), Value::Map(y)) => x.len() == y.len() && x.iter().all(|(k, p)| y.get(k).is_some_and(|q| veq(p, q))),
            (Value::Int(_), Value::Int(_)) | (Value::Str(_), Value::Str(_)) | (Value::Bool(_), Value::Bool(_)) | (Value::Null, Value::Null) | (Value::Timestamp(_), Value::Timestamp(_)) | (Value::Duration(_), Value::Duration(_)) => a == b,
            _ => false,
        }
    }
    match (a, b) {
        (None, None) => true,
        (Some(x), Some(y)) => veq(x, y),
        _ => false,
    }
}

fn is_int(e: &Expr, k: i64) -> bool {
    matches!(e, Expr::Int(n) if *n == k)
}

/// name of the identity rewrite `fold_binary` applies to (op, folded left, folded right), if any
/// (None when both are integer literals: that is constant folding, not an identity rewrite)
fn identity_rule(op: Op, fl: &Expr, fr: &Expr) -> Option<(&'static str, bool)> {
    // returns (rule, literal_is_right)
    if matches!(fl, Expr::Int(_)) && matches!(fr, Expr::Int(_)) {
        return None;
    }
    if matches!(fl, Expr::Float(_)) && matches!(fr, Expr::Float(_)) && op != Op::Mod && op != Op::Pow {
        // Float OP Float constant folding takes precedence (division by 0.0 falls through, but no identity has a float literal)
        return None;
    }
    match op {
        Op::Mul if is_int(fr, 0) => Some(("mul0", true)),
        Op::Mul if is_int(fl, 0) => Some(("mul0", false)),
        Op::Mul if is_int(fr, 1) => Some(("mul1", true)),
        Op::Mul if is_int(fl, 1) => Some(("mul1", false)),
        Op::Add if is_int(fr, 0) => Some(("add0", true)),
        Op::Add if is_int(fl, 0) => Some(("add0", false)),
        Op::Sub if is_int(fr, 0) => Some(("sub0", true)),
        Op::Div if is_int(fr, 1) => Some(("div1", true)),
        _ => None,
    }
}

/// Exclusion by construction of the known-finding class "identity rewrite applied to an operand
/// whose value is not an integer": the literal 0/1 side is replaced by 2.
fn sanitize(e: &E, ev: &varpulis_runtime::event::Event, excluded: &mut u32) -> E {
    match e {
        E::Bin(op, l, r) => {
            let (l2, r2) = (sanitize(l, ev, excluded), sanitize(r, ev, excluded));
            if matches!(op, Op::Mul | Op::Add | Op::Sub | Op::Div) {
                let folded = guard(|| (fold(&l2.to_ast()), fold(&r2.to_ast())));
                if let Ok((fl, fr)) = folded {
                    if let Some((_, lit_right)) = identity_rule(*op, &fl, &fr) {
                        let other = if lit_right { &l2 } else { &r2 };
                        let other_val = guard(|| eval(&other.to_ast(), ev)).unwrap_or(None);
                        if !matches!(other_val, Some(Value::Int(_))) {
                            *excluded += 1;
                            return if lit_right { E::bin(*op, l2, E::Int(2)) } else { E::bin(*op, E::Int(2), r2) };
                        }
                    }
                }
            }
            E::bin(*op, l2, r2)
        }
        E::Neg(x) => E::Neg(Box::new(sanitize(x, ev, excluded))),
        E::Not(x) => E::Not(Box::new(sanitize(x, ev, excluded))),
        E::Call(n, a) => E::Call(n.clone(), a.iter().map(|x| sanitize(x, ev, excluded)).collect()),
        E::Arr(a) => E::Arr(a.iter().map(|x| sanitize(x, ev, excluded)).collect()),
        E::If(c, a, b) => E::If(Box::new(sanitize(c, ev, excluded)), Box::new(sanitize(a, ev, excluded)), Box::new(sanitize(b, ev, excluded))),
        E::Idx(c, i) => E::Idx(Box::new(sanitize(c, ev, excluded)), Box::new(sanitize(i, ev, excluded))),
        other => other.clone(),
    }
}

fn tag(v: &Option<Value>) -> &'static str {
    match v {
        None => "none",
        Some(Value::Null) => "null",
        Some(Value::Int(_)) => "int",
        Some(Value::Float(_)) => "float",
        Some(Value::Str(_)) => "str",
        Some(Value::Bool(_)) => "bool",
        Some(_) => "other",
    }
}

fn differs(e: &E, ev: &varpulis_runtime::event::Event) -> bool {
    let ast = e.to_ast();
    let r = guard(|| (eval(&ast, ev), eval(&fold(&ast), ev)));
    match r {
        Ok((a, b)) => !same(&a, &b),
        Err(_) => false,
    }
}

/// deepest sub-expression whose own fold step changes the value -> root-cause signature
fn culprit(e: &E, ev: &varpulis_runtime::event::Event) -> String {
    let kids: Vec<&E> = match e {
        E::Neg(x) | E::Not(x) => vec![x],
        E::Bin(_, l, r) | E::Idx(l, r) => vec![l, r],
        E::Call(_, a) | E::Arr(a) => a.iter().collect(),
        E::If(c, a, b) => vec![c, a, b],
        _ => vec![],
    };
    for k in kids {
        if differs(k, ev) {
            return culprit(k, ev);
        }
    }
    match e {
        E::Bin(op, l, r) => {
            let (fl, fr) = (fold(&l.to_ast()), fold(&r.to_ast()));
            if let Some((rule, lit_right)) = identity_rule(*op, &fl, &fr) {
                let other = if lit_right { l } else { r };
                let _ = other;
                return format!("identity-rewrite-on-non-int:{}", rule);
            }
            let lit = |x: &Expr| match x {
                Expr::Int(_) => Some("int"),
                Expr::Float(_) => Some("float"),
                _ => None,
            };
            match (lit(&fl), lit(&fr)) {
                (Some(a), Some(b)) => format!("const-fold:{}:{}-{}", op.name(), a, b),
                _ => format!("fold-binary:{}", op.name()),
            }
        }
        E::Neg(_) => "const-fold:neg".to_string(),
        _ => "fold-other".to_string(),
    }
}

fn run(c: &Case) -> Outcome {
    let mut evm = Ev::new("A", 0);
    for (k, v) in &c.fields {
        evm = evm.with(k, v.clone());
    }
    let ev = evm.to_event();
    let mut excluded = 0u32;
    let e = if c.raw { c.expr.clone() } else { sanitize(&c.expr, &ev, &mut excluded) };
    let ast = e.to_ast();

    // the fold pass itself
    let folded = match guard(|| fold(&ast)) {
        Ok(f) => f,
        Err(p) => return Outcome::fail(format!("fold-{}", p.sig()), format!("fold_program panicked on `{}`: {} ({}:{})", e.render(), p.message, p.file, p.line)),
    };
    // harness self-check: the renderer + real parser give exactly the folded AST (ties the result to parsed expressions)
    let text = e.render();
    match parse_expr(&text) {
        Ok(parsed) => {
            if format!("{:?}", parsed) != format!("{:?}", folded) {
                RENDER_MISMATCH.fetch_add(1, AO::Relaxed);
                return Outcome::discard(format!("renderer/parser mismatch: `{}` parsed {:?} folded {:?}", text, parsed, folded).chars().take(300).collect::<String>());
            }
        }
        Err(err) => {
            RENDER_MISMATCH.fetch_add(1, AO::Relaxed);
            return Outcome::discard(format!("rendered text rejected: `{}`: {}", text, err).chars().take(300).collect::<String>());
        }
    }
    let changed = format!("{:?}", folded) != format!("{:?}", ast);
    let base = Outcome::pass()
        .nontrivial(changed && e.has_ident())
        .class_if(changed, "fold_changed_ast")
        .class_if(changed && e.has_ident(), "fold_changed_ast_with_field")
        .class_if(excluded > 0, "excluded:identity-rewrite-on-non-int(known)");
    // evaluation of the unfolded expression may panic (C11's business) -> not judged here
    let unfolded = match guard(|| eval(&ast, &ev)) {
        Ok(v) => v,
        Err(_) => return Outcome::pass().class("unfolded_eval_panics(C11)"),
    };
    let fv = match guard(|| eval(&folded, &ev)) {
        Ok(v) => v,
        Err(p) => return Outcome::fail(format!("folded-eval-{}", p.sig()), format!("`{}` evaluates to {:?} but the folded {:?} panics: {}", text, unfolded, folded, p.message)),
    };
    if !same(&unfolded, &fv) {
        let sig = culprit(&e, &ev);
        return Outcome::fail(sig, format!("`{}` with {:?}: unfolded = {:?}, folded ({:?}) = {:?}", text, c.fields, unfolded, folded, fv));
    }
    // was an identity rewrite exercised soundly (integer operand)?
    base.class(format!("result_{}", tag(&unfolded))).class_if(changed && has_identity(&e), "identity_rewrite_on_int_operand")
}

fn has_identity(e: &E) -> bool {
    match e {
        E::Bin(op, l, r) => {
            let hit = guard(|| identity_rule(*op, &fold(&l.to_ast()), &fold(&r.to_ast())).is_some()).unwrap_or(false);
            hit || has_identity(l) || has_identity(r)
        }
        E::Neg(x) | E::Not(x) => has_identity(x),
        E::Call(_, a) | E::Arr(a) => a.iter().any(has_identity),
        E::If(c, a, b) => has_identity(c) || has_identity(a) || has_identity(b),
        E::Idx(c, i) => has_identity(c) || has_identity(i),
        _ => false,
    }
}

// ------------------------------------------------------------------ generator

fn leaf() -> impl Strategy<Value = E> {
    prop_oneof![
        6 => proptest::sample::select(vec![0i64, 0, 1, 1, 2, 3, 7, 10, 34, 40, 62, 63, 64, 1 << 31, 1 << 32, (1 << 53) + 1, 3037000500, i64::MAX - 1, i64::MAX]).prop_map(E::Int),
        3 => proptest::sample::select(vec![0.0f64, 0.5, 1.0, 1.5, 2.0, 0.1, 0.2, 1e300, 1e-9, 9007199254740993.0]).prop_map(|f| E::Float(F(f))),
        1 => proptest::sample::select(vec!["", "a", "ab", "1"]).prop_map(|s| E::Str(s.to_string())),
        1 => any::<bool>().prop_map(E::Bool),
        1 => Just(E::Null),
        8 => proptest::sample::select(vec!["fa", "fa", "fb", "fb", "fc", "fm"]).prop_map(E::id),
    ]
}

fn expr() -> impl Strategy<Value = E> {
    leaf().prop_recursive(4, 24, 3, |inner| {
        prop_oneof![
            8 => (proptest::sample::select(Op::ARITH.to_vec()), inner.clone(), inner.clone()).prop_map(|(op, l, r)| E::bin(op, l, r)),
            // the identity-rewrite shapes: x*0, 0*x, x*1, 1*x, x+0, 0+x, x-0, x/1 (and their non-identity mirror images)
            4 => (proptest::sample::select(vec![Op::Mul, Op::Add, Op::Sub, Op::Div]), inner.clone(), 0i64..2, any::<bool>()).prop_map(|(op, x, k, lit_right)| if lit_right { E::bin(op, x, E::Int(k)) } else { E::bin(op, E::Int(k), x) }),
            2 => (proptest::sample::select(Op::CMP.to_vec()), inner.clone(), inner.clone()).prop_map(|(op, l, r)| E::bin(op, l, r)),
            1 => (proptest::sample::select(vec![Op::And, Op::Or, Op::In, Op::NotIn]), inner.clone(), inner.clone()).prop_map(|(op, l, r)| E::bin(op, l, r)),
            3 => inner.clone().prop_map(|x| E::Neg(Box::new(x))),
            1 => inner.clone().prop_map(|x| E::Not(Box::new(x))),
            1 => (proptest::sample::select(vec!["abs", "to_string", "to_float", "to_int", "len", "floor", "is_null"]), inner.clone()).prop_map(|(n, a)| E::call(n, vec![a])),
            1 => (proptest::sample::select(vec!["max", "min", "pow"]), inner.clone(), inner.clone()).prop_map(|(n, a, b)| E::call(n, vec![a, b])),
            1 => (inner.clone(), inner.clone(), inner.clone()).prop_map(|(c, a, b)| E::If(Box::new(c), Box::new(a), Box::new(b))),
            1 => proptest::collection::vec(inner.clone(), 0..3).prop_map(E::Arr),
            1 => (proptest::collection::vec(inner.clone(), 1..3), inner).prop_map(|(a, i)| E::Idx(Box::new(E::Arr(a)), Box::new(i))),
        ]
    })
}

fn field_value() -> impl Strategy<Value = V> {
    prop_oneof![
        8 => vh_gen::scalar(),
        1 => proptest::collection::vec(vh_gen::scalar(), 0..3).prop_map(V::Arr),
    ]
}

fn mostly(kind: u8) -> impl Strategy<Value = V> {
    prop_oneof![
        3 => if kind == 0 { vh_gen::any_int().prop_map(V::Int).boxed() } else { vh_gen::any_float().prop_map(V::f).boxed() },
        2 => field_value(),
    ]
}

fn strat() -> impl Strategy<Value = Case> {
    (expr(), mostly(0), mostly(1), field_value()).prop_map(|(expr, a, b, c)| Case {
        expr,
        fields: vec![("fa".into(), a), ("fb".into(), b), ("fc".into(), c)],
        raw: false,
    })
}

fn main() {
    let check = Check::new("C10", "translation_validation");
    check.rule("expression ASTs of depth<=4 generated directly in the shape the parser produces (non-negative literals incl. 0, 1, 2^53+1, i64::MAX; unary minus/not; all arithmetic, comparison, boolean, in operators; calls, if, arrays, index; 3 fields of every scalar type + arrays, 1 missing field); oracle: eval(e) vs eval(fold_program(e)) with the runtime evaluator, same Option, same type, floats bit-exact (NaN=NaN); harness self-check parse(render(e)) == fold(e) on every case; non-trivial = folding changed the AST and the expression references a field");
    check.assume("runtime evaluator eval_filter_expr is the semantics of both sides; fold is reached through the public optimize::fold_program with a Stmt::Expr wrapper (same fold_expr the parser applies to stream ops)");
    check.explore("fold_vs_eval", strat, 15_000, 300_000, run);
    let mism = RENDER_MISMATCH.load(AO::Relaxed);
    if mism > 0 {
        check.inconclusive(format!("{} cases where parse(render(e)) != fold(e) (renderer/parser mismatch, see discards)", mism));
    }
    check.extra("render_parse_mismatches", vh_common::serde_json::json!(mism));
    check.finish();
}
