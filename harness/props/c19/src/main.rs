//! C19 Checkpoint and restore are invisible in the output.
use proptest::prelude::*;
use serde::{Deserialize, Serialize};
use std::collections::BTreeMap;
use varpulis_runtime::codec::{self, CheckpointFormat};
use varpulis_runtime::persistence::EngineCheckpoint;
use vh_common::{Check, Outcome};
use vh_gen::engine::{norm, Eng};
use vh_gen::prog::*;
use vh_gen::{Ev, OutEv};

#[derive(Clone, Debug, Serialize, Deserialize)]
struct Case {
    prog: Prog,
    events: Vec<Ev>,
    /// microseconds added to every event timestamp (0 in the main sub-check)
    sub_ms_us: Vec<u16>,
    /// index into TEMPLATES: hand-written single-stream programs that the grammar does not reach
    #[serde(default)]
    template: Option<usize>,
    /// watermark-driven closes: after input i, advance the external watermark of source "A" to
    /// (timestamp of input i + wm_after[i] * 250 ms); None = no watermark step
    #[serde(default)]
    wm_after: Vec<Option<u8>>,
}

const TEMPLATES: [(&str, &str); 13] = [
    ("wm_tumbling", "stream S1 = A\n    .watermark(out_of_order: 1s)\n    .window(2s)\n    .aggregate(n: count(), f: first(id), l: last(id))\n    .emit(n: n, f: f, l: l)\n"),
    ("wm_sliding", "stream S1 = A\n    .watermark(out_of_order: 1s)\n    .window(3s, sliding: 1s)\n    .aggregate(n: count(), f: first(id), l: last(id))\n    .emit(n: n, f: f, l: l)\n"),
    ("wm_session", "stream S1 = A\n    .watermark(out_of_order: 1s)\n    .window(session: 2s)\n    .aggregate(n: count(), f: first(id), l: last(id))\n    .emit(n: n, f: f, l: l)\n"),
    ("wm_tumbling_part", "stream S1 = A\n    .watermark(out_of_order: 1s)\n    .partition_by(k)\n    .window(2s)\n    .aggregate(n: count(), f: first(id), l: last(id))\n    .emit(n: n, f: f, l: l)\n"),
    ("kleene_selfref", "stream S1 = A as a\n    -> all B where v > b.v as b\n    -> C as c\n    .emit(a_id: a.id, b_id: b.id, c_id: c.id)\n"),
    ("kleene_selfref_part", "stream S1 = A as a\n    -> all B where v > b.v as b\n    -> C as c\n    .partition_by(k)\n    .emit(a_id: a.id, b_id: b.id, c_id: c.id)\n"),
    ("kleene_trailing", "stream S1 = A as a\n    -> all B where v >= a.v as b\n    .emit(a_id: a.id, b_id: b.id)\n"),
    ("kleene_leading", "stream S1 = all A as a\n    -> B where v > a.v as b\n    .emit(a_id: a.id, b_id: b.id)\n"),
    ("seq_not_ref", "stream S1 = A as a\n    -> B as b\n    -> C where v >= a.v as c\n    .not(B where v == a.v)\n    .emit(a_id: a.id, b_id: b.id, c_id: c.id)\n"),
    ("watermark_tumbling", "stream S1 = A\n    .watermark(out_of_order: 1s)\n    .allowed_lateness(1s)\n    .window(2s)\n    .aggregate(n: count(), f: first(id), l: last(id))\n    .emit(n: n, f: f, l: l)\n"),
    ("part_aggregate_having", "stream S1 = A\n    .partition_by(k)\n    .window(3)\n    .aggregate(n: count(), sm: sum(v), mx: max(v), mn: min(v))\n    .having(sm > 1)\n    .emit(n: n, sm: sm, mx: mx, mn: mn)\n"),
    ("three_way_join", "stream S1 = join(A, B, C)\n    .on(A.k == B.k and B.k == C.k)\n    .window(3s)\n    .emit(x: A.id, y: B.id, z: C.id)\n"),
    ("var_counter", "var total = 0\nstream S1 = A\n    .where(v > 0)\n    .emit(id: id, v: v)\n"),
];

fn strat(sub_ms: bool) -> impl Strategy<Value = Case> {
    let o = ProgOpts { max_streams: 3, ..ProgOpts::full() };
    (prog(o), events(36), proptest::collection::vec(0u16..1000, 36)).prop_map(move |(prog, events, us)| Case { prog, events, sub_ms_us: if sub_ms { us } else { vec![] }, template: None, wm_after: vec![] })
}

fn strat_templates() -> impl Strategy<Value = Case> {
    (0usize..TEMPLATES.len(), events(36), proptest::collection::vec(proptest::option::weighted(0.25, 0u8..14), 36), proptest::collection::vec(prop_oneof![Just(250i64), Just(500), Just(750), Just(1000), Just(1500), Just(0)], 36)).prop_map(|(t, mut events, wm, gaps)| {
        let is_wm = TEMPLATES[t].0.starts_with("wm_");
        if is_wm {
            // event-time templates: all events of type A on a 250 ms grid with gaps around the 2 s / 1 s
            // window parameters, so that watermark closes, re-anchored windows and boundary events are common
            let mut ts = 0i64;
            for (i, e) in events.iter_mut().enumerate() {
                ts += gaps[i % gaps.len()];
                e.ts_ms = ts;
                if i % 5 != 4 {
                    e.ty = "A".into();
                }
            }
        }
        let wm_after = if is_wm { wm } else { vec![] };
        Case { prog: Prog { streams: vec![] }, events, sub_ms_us: vec![], template: Some(t), wm_after }
    })
}

fn to_event(c: &Case, i: usize) -> varpulis_runtime::event::Event {
    let mut e = c.events[i].to_event();
    if let Some(us) = c.sub_ms_us.get(i) {
        e.timestamp += chrono::Duration::microseconds(*us as i64);
    }
    e
}

/// the optional watermark step after input i (outputs of watermark-driven closes)
fn wm_step(c: &Case, eng: &mut Eng, i: usize) -> Result<Vec<OutEv>, String> {
    if let Some(Some(d)) = c.wm_after.get(i) {
        let ms = vh_gen::BASE_TS_MS + c.events[i].ts_ms + (*d as i64) * 250;
        eng.rt.block_on(eng.engine.advance_external_watermark("A", ms))?;
        return Ok(norm(&eng.drain()));
    }
    Ok(vec![])
}

fn per_stream(o: &[OutEv]) -> BTreeMap<String, Vec<OutEv>> {
    let mut m: BTreeMap<String, Vec<OutEv>> = BTreeMap::new();
    for e in o {
        m.entry(e.ty.clone()).or_default().push(e.clone());
    }
    m
}

fn run(c: &Case, prefix: &str) -> Outcome {
    let src = match c.template {
        Some(t) => TEMPLATES[t % TEMPLATES.len()].1.to_string(),
        None => c.prog.render(),
    };
    let mut base = match Eng::new(&src) {
        Ok(e) => e,
        Err(e) => return Outcome::discard(format!("program rejected: {}", vh_common::truncate(&e, 80))),
    };
    let n = c.events.len();
    // uninterrupted run: outputs per input + a checkpoint (through the codec) at every cut
    let mut outs_per_event: Vec<Vec<OutEv>> = vec![];
    let mut cps: Vec<Vec<u8>> = vec![];
    for i in 0..=n {
        let cp = base.engine.create_checkpoint();
        match codec::serialize(&cp, CheckpointFormat::Json) {
            Ok(b) => cps.push(b),
            Err(e) => return Outcome::fail(format!("{}checkpoint-does-not-serialize", prefix), format!("{}\n{}", src, e)),
        }
        if i < n {
            match base.process_event(to_event(c, i)) {
                Ok(o) => outs_per_event.push(norm(&o)),
                Err(e) => return Outcome::fail(format!("{}engine-error", prefix), e),
            }
            match wm_step(c, &mut base, i) {
                Ok(mut o) => {
                    // one watermark advance closes the windows of several partitions in hash-map
                    // order: the order inside that one step is not part of the property
                    o.sort();
                    outs_per_event.last_mut().unwrap().extend(o)
                }
                Err(e) => return Outcome::fail(format!("{}watermark-error", prefix), e),
            }
        }
    }
    let kinds = match c.template {
        Some(t) => vec![format!("template_{}", TEMPLATES[t % TEMPLATES.len()].0)],
        None => c.prog.kinds(),
    };
    let mut fails: Vec<(String, String)> = vec![];
    let mut seen_sig = std::collections::BTreeSet::new();
    let mut nontrivial_cuts = 0;
    for cut in 0..=n {
        let want: Vec<OutEv> = outs_per_event[cut..].iter().flatten().cloned().collect();
        let cp: EngineCheckpoint = match codec::deserialize(&cps[cut]) {
            Ok(c) => c,
            Err(e) => {
                fails.push((format!("{}checkpoint-does-not-deserialize", prefix), format!("{}\ncut {}: {}", src, cut, e)));
                break;
            }
        };
        let state_nonempty = cp.window_states.values().any(|w| !w.events.is_empty() || !w.partitions.is_empty())
            || cp.sase_states.values().any(|s| !s.active_runs.is_empty() || !s.partitioned_runs.is_empty())
            || !cp.join_states.is_empty() && cut > 0
            || !cp.distinct_states.is_empty() && cut > 0
            || cp.limit_states.values().any(|l| l.count > 0);
        if state_nonempty && !want.is_empty() {
            nontrivial_cuts += 1;
        }
        let mut fresh = match Eng::new(&src) {
            Ok(e) => e,
            Err(e) => return Outcome::fail(format!("{}reload-error", prefix), e),
        };
        if let Err(e) = fresh.engine.restore_checkpoint(&cp) {
            fails.push((format!("{}restore-error", prefix), format!("{}\ncut {}: {}", src, cut, e)));
            continue;
        }
        let mut got: Vec<OutEv> = vec![];
        let mut err = None;
        for i in cut..n {
            match fresh.process_event(to_event(c, i)) {
                Ok(o) => got.extend(norm(&o)),
                Err(e) => {
                    err = Some(e);
                    break;
                }
            }
            match wm_step(c, &mut fresh, i) {
                Ok(mut o) => {
                    o.sort();
                    got.extend(o)
                }
                Err(e) => {
                    err = Some(e);
                    break;
                }
            }
        }
        if let Some(e) = err {
            fails.push((format!("{}engine-error-after-restore", prefix), e));
            continue;
        }
        if got == want {
            continue;
        }
        let (pw, pg) = (per_stream(&want), per_stream(&got));
        let mut keys: Vec<&String> = pw.keys().chain(pg.keys()).collect();
        keys.sort();
        keys.dedup();
        let mut any = false;
        for k in keys {
            if pw.get(k) != pg.get(k) {
                any = true;
                let idx: Option<usize> = k.strip_prefix('S').and_then(|x| x.parse::<usize>().ok()).map(|x| x - 1);
                let kind = idx.and_then(|i| kinds.get(i).cloned()).unwrap_or_else(|| format!("unknown:{}", k));
                let sig = format!("{}restore:{}", prefix, kind);
                if seen_sig.insert(sig.clone()) {
                    fails.push((
                        sig,
                        format!("{}\ncut after {} of {} events: stream {} continues differently\nuninterrupted: {:?}\nrestored:      {:?}", src, cut, n, k, pw.get(k).cloned().unwrap_or_default(), pg.get(k).cloned().unwrap_or_default()),
                    ));
                }
            }
        }
        if !any && seen_sig.insert("order".into()) {
            fails.push((format!("{}restore:interleaving-across-streams", prefix), format!("{}\ncut {}", src, cut)));
        }
    }
    if !fails.is_empty() {
        return Outcome::fail_many(fails);
    }
    let mut o = Outcome::pass().nontrivial(nontrivial_cuts > 0).class_if(nontrivial_cuts > 0, "cut_with_live_state_and_later_output");
    for k in kinds {
        o = o.class(format!("kind:{}", k));
    }
    o
}

fn main() {
    let check = Check::new("C19", "exploration");
    check.rule("programs of 1-3 streams (every window kind incl. partitioned, aggregates+having, 2-3 step sequences incl. `all`/.not/partition, joins, distinct, limit, derived chains) x <=36 events x EVERY cut point 0..=n: the uninterrupted engine's outputs after the cut must equal those of a freshly loaded engine that restored deserialize(serialize(create_checkpoint())) taken at the cut and was fed the same suffix. Differences are attributed to the kind of the stream that continues differently (one signature per operator kind). Sub-check `sub_ms` repeats this with sub-millisecond timestamp components. Non-trivial = a cut whose checkpoint holds live state (open window / active run / join buffer / distinct / limit) and whose suffix produces output.");
    check.assume("`.within` (processing-time deadlines) is not generated: wall-clock state cannot be compared deterministically");
    check.explore("cuts", || strat(false), 1_200, 20_000, |c| run(c, ""));
    check.explore("templates", strat_templates, 1_500, 25_000, |c| run(c, ""));
    check.explore("sub_ms", || strat(true), 300, 5_000, |c| {
        let o = run(c, "");
        if !o.is_fail() {
            return o;
        }
        // attribute per signature: a stream that also diverges with whole-millisecond timestamps keeps its
        // ordinary signature; one that diverges ONLY with sub-millisecond components is the timestamp finding
        let mut whole = c.clone();
        whole.sub_ms_us.clear();
        let whole_sigs: Vec<String> = run(&whole, "").fail_list().into_iter().map(|x| x.0).collect();
        let mut fails: Vec<(String, String)> = vec![];
        let mut only_sub_ms: Vec<String> = vec![];
        for (sig, detail) in o.fail_list() {
            if whole_sigs.contains(&sig) {
                fails.push((sig, detail));
            } else {
                only_sub_ms.push(sig);
            }
        }
        if !only_sub_ms.is_empty() {
            fails.push((
                "sub-ms-timestamp-lost-in-checkpoint".to_string(),
                format!("{}\npasses with whole-millisecond timestamps, fails with sub-millisecond components: {:?}", c.prog.render(), only_sub_ms),
            ));
        }
        Outcome::fail_many(fails)
    });
    check.finish();
}
