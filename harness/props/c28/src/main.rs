//! C28 Tenants cannot see or affect each other's pipelines.
//!
//! Request histories over 2-3 tenants are driven through the real warp filters of
//! `varpulis_cli::api::api_routes`.  Oracles:
//!  (1) a request that names a pipeline of ANOTHER tenant (or uses an unknown/missing key)
//!      must not succeed (no data returned, nothing accepted);
//!  (2) after EVERY request the internal state of every tenant other than the one the key
//!      belongs to (pipelines: id/name/source/status/engine checkpoint/counters/pending
//!      outputs, usage counters) is bit-for-bit what it was before the request;
//!  (3) every tenant's own view (list, get, usage, outputs of its own injects) follows a
//!      sequential single-tenant model: ids known from the tenant's own deploys plus a
//!      shadow engine per pipeline that only ever sees the owner's accepted operations.
use proptest::prelude::*;
use serde::{Deserialize, Serialize};
use serde_json::{json, Value as Json};
use std::collections::BTreeMap;
use std::sync::Arc;
use vh_common::{idx, Check, Outcome};
use vh_gen::engine::Eng;
use vh_server::varpulis_cli::api;
use vh_server::varpulis_runtime::event::Event;
use vh_server::varpulis_runtime::persistence::EngineCheckpoint;
use vh_server::varpulis_runtime::tenant::{SharedTenantManager, TenantId, TenantManager, TenantQuota};
use warp::Reply;

const SOURCES: &[&str] = &[
    "stream Out = E .where(x > 2) .emit(v: x)",
    "stream Out = A as a -> B as b .emit(av: a.x, bv: b.x)",
    "stream Out = E .window(3) .aggregate(s: sum(x), n: count()) .emit(s: s, n: n)",
    "stream Out = E .emit(v: x)\nstream Big = E .where(x > 5) .emit(big: x)",
];
const BAD_SOURCE: &str = "this is not valid {{{";
/// API-key schemes (index = Case.key_scheme): equal-length unrelated keys; keys where one is a
/// leading part of another; keys differing only in case / one trailing character.
const KEY_SCHEMES: &[[&str; 3]] = &[
    ["key-tenant-A", "key-tenant-B", "key-tenant-C"],
    ["team", "team-blue", "team-blue-2"],
    ["k1", "k10", "k100"],
    ["Key-tenant", "key-tenant", "key-tenanT"],
];
/// keys that belong to nobody (index = the u8 of Actor::UnknownKey): unrelated, truncated / extended
/// forms of tenant 0's and 1's keys, the empty key
fn unknown_key(scheme: usize, v: u8) -> String {
    let k = KEY_SCHEMES[scheme % KEY_SCHEMES.len()];
    let cand: Vec<String> = vec![
        "key-tenant-Z".to_string(),
        k[0][..k[0].len() - 1].to_string(),
        format!("{}x", k[1]),
        String::new(),
        k[1][..1].to_string(),
        format!("{}-3", k[2]),
    ];
    let all: Vec<&str> = k.to_vec();
    let c = cand[v as usize % cand.len()].clone();
    if all.contains(&c.as_str()) {
        "key-tenant-Z".to_string()
    } else {
        c
    }
}
const ADMIN_KEY: &str = "c28-admin";

// ------------------------------------------------------------------ case

#[derive(Clone, Debug, Serialize, Deserialize, PartialEq)]
enum Actor {
    Tenant(u8),
    UnknownKey(#[serde(default)] u8),
    NoKey,
}

#[derive(Clone, Debug, Serialize, Deserialize)]
enum Target {
    /// the ord-th pipeline (deploy order) of tenant `tenant`; unknown id if it has none
    Of { tenant: u8, ord: u16 },
    /// 0 fixed uuid, 1 word, 2 id of a deleted pipeline, 3 upper-cased existing id, 4 existing id + suffix
    Unknown(u8, u16),
}

#[derive(Clone, Debug, Serialize, Deserialize)]
struct EvSpec {
    ty: u8,
    x: i64,
}

#[derive(Clone, Debug, Serialize, Deserialize)]
enum Op {
    Deploy { src: u8, name: u8 },
    List,
    Get(Target),
    Delete(Target),
    Inject(Target, EvSpec),
    InjectBatch(Target, Vec<EvSpec>),
    Reload(Target, u8),
    Checkpoint(Target),
    Restore(Target, u16),
    Metrics(Target),
    Logs(Target),
    Usage,
}

#[derive(Clone, Debug, Serialize, Deserialize)]
struct Step {
    actor: Actor,
    op: Op,
}

#[derive(Clone, Debug, Serialize, Deserialize)]
struct Case {
    tenants: u8,
    #[serde(default)]
    key_scheme: u8,
    steps: Vec<Step>,
}

fn ev_strategy() -> impl Strategy<Value = EvSpec> {
    (0u8..3, 0i64..9).prop_map(|(ty, x)| EvSpec { ty, x })
}

fn target_strategy() -> impl Strategy<Value = Target> {
    prop_oneof![
        8 => (0u8..3, any::<u16>()).prop_map(|(tenant, ord)| Target::Of { tenant, ord }),
        2 => (0u8..5, any::<u16>()).prop_map(|(k, o)| Target::Unknown(k, o)),
    ]
}

fn op_strategy() -> impl Strategy<Value = Op> {
    prop_oneof![
        2 => (0u8..5, 0u8..4).prop_map(|(src, name)| Op::Deploy { src, name }),
        2 => Just(Op::List),
        2 => target_strategy().prop_map(Op::Get),
        3 => target_strategy().prop_map(Op::Delete),
        6 => (target_strategy(), ev_strategy()).prop_map(|(t, e)| Op::Inject(t, e)),
        4 => (target_strategy(), proptest::collection::vec(ev_strategy(), 0..5)).prop_map(|(t, e)| Op::InjectBatch(t, e)),
        3 => (target_strategy(), 0u8..5).prop_map(|(t, s)| Op::Reload(t, s)),
        2 => target_strategy().prop_map(Op::Checkpoint),
        3 => (target_strategy(), any::<u16>()).prop_map(|(t, c)| Op::Restore(t, c)),
        1 => target_strategy().prop_map(Op::Metrics),
        1 => target_strategy().prop_map(Op::Logs),
        1 => Just(Op::Usage),
    ]
}

fn actor_strategy() -> impl Strategy<Value = Actor> {
    prop_oneof![12 => (0u8..3).prop_map(Actor::Tenant), 2 => (0u8..6).prop_map(Actor::UnknownKey), 1 => Just(Actor::NoKey)]
}

fn strat() -> impl Strategy<Value = Case> {
    (2u8..=3, proptest::collection::vec((0u8..3, 0u8..4), 2..6), proptest::collection::vec((actor_strategy(), op_strategy()), 3..20), 0u8..(KEY_SCHEMES.len() as u8)).prop_map(|(tenants, deploys, rest, key_scheme)| {
        let mut steps: Vec<Step> = deploys.into_iter().map(|(t, src)| Step { actor: Actor::Tenant(t % tenants), op: Op::Deploy { src, name: t } }).collect();
        // every tenant deploys at least once up front
        for t in 0..tenants {
            if !steps.iter().any(|s| s.actor == Actor::Tenant(t)) {
                steps.push(Step { actor: Actor::Tenant(t), op: Op::Deploy { src: t % 3, name: 3 } });
            }
        }
        steps.extend(rest.into_iter().map(|(actor, op)| Step {
            actor: match actor {
                Actor::Tenant(t) => Actor::Tenant(t % tenants),
                a => a,
            },
            op,
        }));
        steps.truncate(25);
        Case { tenants, key_scheme, steps }
    })
}

// ------------------------------------------------------------------ model

struct PipeModel {
    id: String,
    name: String,
    source: String,
    shadow: Eng,
}

#[derive(Default)]
struct TenantModel {
    pipes: Vec<PipeModel>,
    /// lower bound of events_processed (accepted own events)
    accepted_events: u64,
}

struct World {
    rt: tokio::runtime::Runtime,
    manager: SharedTenantManager,
    tenant_ids: Vec<TenantId>,
    models: Vec<TenantModel>,
    graveyard: Vec<String>,
    saved_checkpoints: Vec<Json>,
}

struct Resp {
    status: u16,
    body: Json,
    raw: String,
}

fn event_of(e: &EvSpec) -> (String, i64) {
    (["E", "A", "B"][e.ty as usize % 3].to_string(), e.x)
}

fn norm_events(evs: &[Event]) -> Vec<(String, BTreeMap<String, Json>)> {
    evs.iter()
        .map(|e| {
            let mut m = BTreeMap::new();
            for (k, v) in &e.data {
                m.insert(k.to_string(), vh_server::varpulis_cli::websocket::value_to_json(v));
            }
            (e.event_type.to_string(), m)
        })
        .collect()
}

/// output events of a response, normalised; `flat` = events-batch layout
fn norm_outputs(list: &Json, flat: bool) -> Vec<(String, BTreeMap<String, Json>)> {
    list.as_array()
        .map(|a| {
            a.iter()
                .map(|o| {
                    let ty = o["event_type"].as_str().unwrap_or("?").to_string();
                    let mut m = BTreeMap::new();
                    let src = if flat { o.as_object() } else { o["fields"].as_object() };
                    if let Some(obj) = src {
                        for (k, v) in obj {
                            if flat && k == "event_type" {
                                continue;
                            }
                            m.insert(k.clone(), v.clone());
                        }
                    }
                    (ty, m)
                })
                .collect()
        })
        .unwrap_or_default()
}

impl World {
    fn new(n: u8, scheme: usize) -> World {
        let keys = KEY_SCHEMES[scheme % KEY_SCHEMES.len()];
        let rt = tokio::runtime::Builder::new_current_thread().enable_all().build().unwrap();
        let mut mgr = TenantManager::new();
        let mut tenant_ids = vec![];
        for t in 0..n as usize {
            tenant_ids.push(mgr.create_tenant(format!("tenant-{}", t), keys[t].to_string(), TenantQuota::default()).unwrap());
        }
        World {
            rt,
            manager: Arc::new(tokio::sync::RwLock::new(mgr)),
            tenant_ids,
            models: (0..n).map(|_| TenantModel::default()).collect(),
            graveyard: vec![],
            saved_checkpoints: vec![],
        }
    }

    /// Full internal state of tenant `t` (what "unchanged" means).
    fn snapshot(&self, t: usize) -> Json {
        let mgr = self.manager.clone();
        let tid = self.tenant_ids[t].clone();
        self.rt.block_on(async move {
            let m = mgr.read().await;
            let Some(tenant) = m.get_tenant(&tid) else { return json!("tenant-missing") };
            let mut pipes = BTreeMap::new();
            for (id, p) in &tenant.pipelines {
                let eng = p.engine.lock().await;
                let cp = serde_json::to_value(eng.create_checkpoint()).unwrap_or(Json::Null);
                let (ein, eout) = eng.event_counters();
                pipes.insert(id.clone(), json!({"name": p.name, "source": p.source, "status": p.status.to_string(), "checkpoint": cp, "events_in": ein, "events_out": eout, "pending_outputs": p.output_rx.len()}));
            }
            json!({
                "id": tenant.id.as_str(), "name": tenant.name, "api_key": tenant.api_key,
                "usage": {"events_processed": tenant.usage.events_processed, "output_events_emitted": tenant.usage.output_events_emitted, "active_pipelines": tenant.usage.active_pipelines, "events_in_window": tenant.usage.events_in_window},
                "quota": {"p": tenant.quota.max_pipelines, "e": tenant.quota.max_events_per_second, "s": tenant.quota.max_streams_per_pipeline},
                "pipelines": pipes,
                "key_resolves_to_self": m.get_tenant_by_api_key(&tenant.api_key).map(|i| i == &tenant.id),
            })
        })
    }

    fn send(&self, method: &str, path: &str, key: Option<&str>, body: Option<Json>, headers_only: bool) -> Resp {
        let routes = api::api_routes(self.manager.clone(), Some(ADMIN_KEY.to_string()));
        let mut req = warp::test::request().method(method).path(path);
        if let Some(k) = key {
            req = req.header("x-api-key", k);
        }
        if let Some(b) = &body {
            req = req.json(b);
        }
        self.rt.block_on(async move {
            if headers_only {
                // SSE: do not drain the (endless) body
                match req.filter(&routes).await {
                    Ok(reply) => {
                        let r = reply.into_response();
                        Resp { status: r.status().as_u16(), body: Json::Null, raw: format!("{:?}", r.headers().get("content-type")) }
                    }
                    Err(rej) => Resp { status: if rej.is_not_found() { 404 } else { 400 }, body: Json::Null, raw: format!("rejection {:?}", rej) },
                }
            } else {
                let routes = warp::Filter::recover(routes, vh_server::varpulis_cli::auth::handle_rejection);
                let r = req.reply(&routes).await;
                let raw = String::from_utf8_lossy(r.body()).to_string();
                Resp { status: r.status().as_u16(), body: serde_json::from_slice(r.body()).unwrap_or(Json::Null), raw }
            }
        })
    }

    fn all_ids(&self) -> Vec<String> {
        self.models.iter().flat_map(|m| m.pipes.iter().map(|p| p.id.clone())).collect()
    }

    /// resolve a target to (id string, owner tenant if it exists)
    fn resolve(&self, t: &Target) -> (String, Option<usize>) {
        match t {
            Target::Of { tenant, ord } => {
                let u = *tenant as usize % self.models.len();
                let pipes = &self.models[u].pipes;
                if pipes.is_empty() {
                    ("00000000-0000-4000-8000-000000000000".into(), None)
                } else {
                    (pipes[idx::pick(*ord, pipes.len())].id.clone(), Some(u))
                }
            }
            Target::Unknown(kind, o) => {
                let ids = self.all_ids();
                let s = match kind % 5 {
                    0 => "00000000-0000-4000-8000-000000000000".to_string(),
                    1 => "nope".to_string(),
                    2 if !self.graveyard.is_empty() => self.graveyard[idx::pick(*o, self.graveyard.len())].clone(),
                    3 if !ids.is_empty() => ids[idx::pick(*o, ids.len())].to_uppercase(),
                    4 if !ids.is_empty() => format!("{}x", ids[idx::pick(*o, ids.len())]),
                    _ => "unknown-id".to_string(),
                };
                // an upper-cased uuid without letters a-f would be the id itself
                let owner = self.models.iter().position(|m| m.pipes.iter().any(|p| p.id == s));
                (s, owner)
            }
        }
    }
}

fn fresh_checkpoint() -> Json {
    let e = Eng::new(SOURCES[0]).expect("source 0 loads");
    serde_json::to_value(e.engine.create_checkpoint()).unwrap()
}

fn run_case(case: &Case) -> Outcome {
    let mut w = World::new(case.tenants, case.key_scheme as usize);
    let keys = KEY_SCHEMES[case.key_scheme as usize % KEY_SCHEMES.len()];
    let n = case.tenants as usize;
    let mut out = Outcome::pass();
    let mut foreign_mutating_after_both = 0usize;
    let mut foreign_total = 0usize;

    for (si, step) in case.steps.iter().enumerate() {
        let actor_t: Option<usize> = match &step.actor {
            Actor::Tenant(t) => Some(*t as usize % n),
            _ => None,
        };
        let unknown;
        let key: Option<&str> = match &step.actor {
            Actor::Tenant(t) => Some(keys[*t as usize % n]),
            Actor::UnknownKey(v) => {
                unknown = unknown_key(case.key_scheme as usize, *v);
                Some(unknown.as_str())
            }
            Actor::NoKey => None,
        };
        let before: Vec<Json> = (0..n).map(|t| w.snapshot(t)).collect();

        // build the request
        let (target, mutating): (Option<&Target>, bool) = match &step.op {
            Op::Deploy { .. } => (None, true),
            Op::List | Op::Usage => (None, false),
            Op::Get(t) | Op::Checkpoint(t) | Op::Metrics(t) | Op::Logs(t) => (Some(t), false),
            Op::Delete(t) | Op::Inject(t, _) | Op::InjectBatch(t, _) | Op::Reload(t, _) | Op::Restore(t, _) => (Some(t), true),
        };
        let (id, owner) = target.map(|t| w.resolve(t)).unwrap_or((String::new(), None));
        let own = owner.is_some() && owner == actor_t;
        let foreign = owner.is_some() && owner != actor_t;
        let opname = match &step.op {
            Op::Deploy { .. } => "deploy",
            Op::List => "list",
            Op::Get(_) => "get",
            Op::Delete(_) => "delete",
            Op::Inject(..) => "inject",
            Op::InjectBatch(..) => "inject_batch",
            Op::Reload(..) => "reload",
            Op::Checkpoint(_) => "checkpoint",
            Op::Restore(..) => "restore",
            Op::Metrics(_) => "metrics",
            Op::Logs(_) => "logs",
            Op::Usage => "usage",
        };
        let src_of = |s: u8| if s as usize >= SOURCES.len() { BAD_SOURCE.to_string() } else { SOURCES[s as usize].to_string() };
        let ev_json = |e: &EvSpec| {
            let (ty, x) = event_of(e);
            json!({"event_type": ty, "fields": {"x": x}})
        };
        let mut restore_cp: Option<Json> = None;
        let resp = match &step.op {
            Op::Deploy { src, name } => w.send("POST", "/api/v1/pipelines", key, Some(json!({"name": format!("p{}", name), "source": src_of(*src)})), false),
            Op::List => w.send("GET", "/api/v1/pipelines", key, None, false),
            Op::Usage => w.send("GET", "/api/v1/usage", key, None, false),
            Op::Get(_) => w.send("GET", &format!("/api/v1/pipelines/{}", id), key, None, false),
            Op::Delete(_) => w.send("DELETE", &format!("/api/v1/pipelines/{}", id), key, None, false),
            Op::Inject(_, e) => w.send("POST", &format!("/api/v1/pipelines/{}/events", id), key, Some(ev_json(e)), false),
            Op::InjectBatch(_, es) => w.send("POST", &format!("/api/v1/pipelines/{}/events-batch", id), key, Some(json!({"events": es.iter().map(ev_json).collect::<Vec<_>>()})), false),
            Op::Reload(_, s) => w.send("POST", &format!("/api/v1/pipelines/{}/reload", id), key, Some(json!({"source": src_of(*s)})), false),
            Op::Checkpoint(_) => w.send("POST", &format!("/api/v1/pipelines/{}/checkpoint", id), key, None, false),
            Op::Restore(_, c) => {
                let cp = if w.saved_checkpoints.is_empty() { fresh_checkpoint() } else { w.saved_checkpoints[idx::pick(*c, w.saved_checkpoints.len())].clone() };
                restore_cp = Some(cp.clone());
                w.send("POST", &format!("/api/v1/pipelines/{}/restore", id), key, Some(json!({"checkpoint": cp})), false)
            }
            Op::Metrics(_) => w.send("GET", &format!("/api/v1/pipelines/{}/metrics", id), key, None, false),
            Op::Logs(_) => w.send("GET", &format!("/api/v1/pipelines/{}/logs", id), key, None, true),
        };
        let ctx = || format!("step {} actor {:?} op {} target id {:?} (owner {:?}) -> {} {}", si, step.actor, opname, id, owner, resp.status, vh_common::truncate(&resp.raw, 400));

        // (2) everybody but the acting tenant is untouched
        for t in 0..n {
            if Some(t) == actor_t {
                continue;
            }
            let after = w.snapshot(t);
            if after != before[t] {
                return Outcome::fail(
                    format!("other-tenant-state-changed:{}:{}", opname, if foreign && owner == Some(t) { "foreign-id" } else if actor_t.is_none() { "bad-key" } else { "bystander" }),
                    format!("{}; tenant {} before {} after {}", ctx(), t, vh_common::truncate(&before[t].to_string(), 900), vh_common::truncate(&after.to_string(), 900)),
                );
            }
        }

        // (1) requests that must not succeed
        let succeeded = match &step.op {
            Op::InjectBatch(..) => resp.status == 200 && (resp.body["accepted"].as_u64().unwrap_or(1) > 0 || resp.body["output_events"].as_array().map(|a| !a.is_empty()).unwrap_or(true)),
            _ => (200..300).contains(&resp.status),
        };
        if actor_t.is_none() {
            out = out.class("actor:bad_or_missing_key");
            if succeeded || (resp.status == 200) {
                return Outcome::fail(format!("served-without-valid-key:{}", opname), ctx());
            }
            continue;
        }
        let at = actor_t.unwrap();
        if foreign {
            foreign_total += 1;
            out = out.class(format!("foreign:{}", opname));
            if succeeded {
                return Outcome::fail(format!("foreign-request-succeeded:{}", opname), ctx());
            }
            // nothing of the foreign pipeline may leak into the refusal
            let owner_model = &w.models[owner.unwrap()];
            if let Some(p) = owner_model.pipes.iter().find(|p| p.id == id) {
                if resp.raw.contains(&p.source) {
                    return Outcome::fail(format!("foreign-refusal-leaks-source:{}", opname), ctx());
                }
            }
            let both = w.models[at].pipes.len() > 0 && !owner_model.pipes.is_empty();
            if mutating && both {
                foreign_mutating_after_both += 1;
            }
            // the acting tenant's own pipelines must be untouched too (usage counters may move)
            let mut a = w.snapshot(at);
            let mut b = before[at].clone();
            a["usage"] = Json::Null;
            b["usage"] = Json::Null;
            if a != b {
                return Outcome::fail(format!("foreign-request-changed-own-pipelines:{}", opname), ctx());
            }
            continue;
        }
        if target.is_some() && !own {
            // unknown id with a valid key
            out = out.class(format!("unknown_id:{}", opname));
            if succeeded {
                return Outcome::fail(format!("unknown-id-request-succeeded:{}", opname), ctx());
            }
            continue;
        }

        // (3) own requests follow the sequential single-tenant model
        out = out.class(format!("own:{}", opname));
        let fail_own = |what: &str, detail: String| Outcome::fail(format!("own-view-diverges:{}:{}", opname, what), format!("{}; {}", ctx(), detail));
        match &step.op {
            Op::Deploy { src, name } => {
                let expect = if w.models[at].pipes.len() >= 10 { 429 } else if *src as usize >= SOURCES.len() { 400 } else { 201 };
                if resp.status != expect {
                    return fail_own("status", format!("expected {}", expect));
                }
                if expect == 201 {
                    let Some(new_id) = resp.body["id"].as_str() else { return fail_own("no-id", String::new()) };
                    if w.all_ids().iter().any(|i| i == new_id) {
                        return fail_own("duplicate-id", new_id.to_string());
                    }
                    let source = SOURCES[*src as usize].to_string();
                    let shadow = match Eng::new(&source) {
                        Ok(s) => s,
                        Err(e) => return Outcome::discard(format!("shadow-load:{}", e)),
                    };
                    w.models[at].pipes.push(PipeModel { id: new_id.to_string(), name: format!("p{}", name), source, shadow });
                }
            }
            Op::List => {
                if resp.status != 200 {
                    return fail_own("status", "expected 200".into());
                }
                let mut got: Vec<(String, String, String)> = resp.body["pipelines"]
                    .as_array()
                    .map(|a| a.iter().map(|p| (p["id"].as_str().unwrap_or("").to_string(), p["name"].as_str().unwrap_or("").to_string(), p["source"].as_str().unwrap_or("").to_string())).collect())
                    .unwrap_or_default();
                got.sort();
                let mut want: Vec<(String, String, String)> = w.models[at].pipes.iter().map(|p| (p.id.clone(), p.name.clone(), p.source.clone())).collect();
                want.sort();
                if got != want {
                    let foreign_ids: Vec<&String> = got.iter().map(|g| &g.0).filter(|g| w.models.iter().enumerate().any(|(t, m)| t != at && m.pipes.iter().any(|p| &p.id == *g))).collect();
                    if !foreign_ids.is_empty() {
                        return Outcome::fail("list-contains-foreign-pipeline", format!("{}; foreign ids {:?}", ctx(), foreign_ids));
                    }
                    return fail_own("pipelines", format!("want {:?}", want));
                }
                if resp.body["total"].as_u64() != Some(want.len() as u64) {
                    return fail_own("total", format!("want {}", want.len()));
                }
            }
            Op::Usage => {
                if resp.status != 200 || resp.body["tenant_id"].as_str() != Some(w.tenant_ids[at].as_str()) {
                    return fail_own("tenant", format!("want tenant {}", w.tenant_ids[at]));
                }
                if resp.body["active_pipelines"].as_u64() != Some(w.models[at].pipes.len() as u64) {
                    return fail_own("active_pipelines", format!("want {}", w.models[at].pipes.len()));
                }
                if resp.body["events_processed"].as_u64().unwrap_or(0) < w.models[at].accepted_events {
                    return fail_own("events_processed", format!("want >= {}", w.models[at].accepted_events));
                }
            }
            Op::Get(_) => {
                let p = w.models[at].pipes.iter().find(|p| p.id == id).unwrap();
                if resp.status != 200 || resp.body["id"].as_str() != Some(&id) || resp.body["name"].as_str() != Some(&p.name) || resp.body["source"].as_str() != Some(&p.source) {
                    return fail_own("info", format!("want name {} source {:?}", p.name, p.source));
                }
            }
            Op::Delete(_) => {
                if resp.status != 200 {
                    return fail_own("status", "expected 200".into());
                }
                w.models[at].pipes.retain(|p| p.id != id);
                w.graveyard.push(id.clone());
            }
            Op::Inject(_, e) => {
                let (ty, x) = event_of(e);
                let p = w.models[at].pipes.iter_mut().find(|p| p.id == id).unwrap();
                let want = match p.shadow.process_event(Event::new(ty.as_str()).with_field("x", x)) {
                    Ok(o) => norm_events(&o),
                    Err(e) => return Outcome::discard(format!("shadow-process:{}", e)),
                };
                if resp.status != 200 {
                    return fail_own("status", "expected 200".into());
                }
                let got = norm_outputs(&resp.body["output_events"], false);
                if got != want {
                    return fail_own("outputs", format!("single-tenant shadow engine gives {:?}", want));
                }
                w.models[at].accepted_events += 1;
                out = out.class_if(!want.is_empty(), "own_inject_with_output");
            }
            Op::InjectBatch(_, es) => {
                let p = w.models[at].pipes.iter_mut().find(|p| p.id == id).unwrap();
                let mut want = vec![];
                for e in es {
                    let (ty, x) = event_of(e);
                    match p.shadow.process_event(Event::new(ty.as_str()).with_field("x", x)) {
                        Ok(o) => want.extend(norm_events(&o)),
                        Err(e) => return Outcome::discard(format!("shadow-process:{}", e)),
                    }
                }
                if resp.status != 200 || resp.body["accepted"].as_u64() != Some(es.len() as u64) {
                    return fail_own("accepted", format!("expected 200 accepted {}", es.len()));
                }
                let got = norm_outputs(&resp.body["output_events"], true);
                if got != want {
                    return fail_own("outputs", format!("single-tenant shadow engine gives {:?}", want));
                }
                w.models[at].accepted_events += es.len() as u64;
                out = out.class_if(!want.is_empty(), "own_inject_with_output");
            }
            Op::Reload(_, s) => {
                let p = w.models[at].pipes.iter_mut().find(|p| p.id == id).unwrap();
                if *s as usize >= SOURCES.len() {
                    if resp.status != 400 {
                        return fail_own("status", "expected 400 for unparsable source".into());
                    }
                } else {
                    let src = SOURCES[*s as usize];
                    let program = vh_gen::engine::parse(src).unwrap();
                    let shadow_ok = p.shadow.engine.reload(&program).is_ok();
                    if (resp.status == 200) != shadow_ok {
                        return fail_own("status", format!("shadow reload ok={}", shadow_ok));
                    }
                    if shadow_ok {
                        p.source = src.to_string();
                    }
                    let _ = p.shadow.drain();
                }
            }
            Op::Checkpoint(_) => {
                if resp.status != 200 || resp.body["pipeline_id"].as_str() != Some(&id) {
                    return fail_own("status", "expected 200".into());
                }
                // (contents carry event timestamps = wall clock at injection, so they are not compared with the shadow)
                w.saved_checkpoints.push(resp.body["checkpoint"].clone());
            }
            Op::Restore(..) => {
                let cp: EngineCheckpoint = match serde_json::from_value(restore_cp.clone().unwrap()) {
                    Ok(c) => c,
                    Err(e) => return Outcome::discard(format!("checkpoint-decode:{}", e)),
                };
                let p = w.models[at].pipes.iter_mut().find(|p| p.id == id).unwrap();
                let shadow_ok = p.shadow.engine.restore_checkpoint(&cp).is_ok();
                if (resp.status == 200) != shadow_ok {
                    return fail_own("status", format!("shadow restore ok={}", shadow_ok));
                }
            }
            Op::Metrics(_) => {
                if resp.status != 200 || resp.body["pipeline_id"].as_str() != Some(&id) {
                    return fail_own("status", "expected 200".into());
                }
            }
            Op::Logs(_) => {
                if resp.status != 200 {
                    return fail_own("status", "expected 200 (event stream)".into());
                }
            }
        }
        // the acting tenant's pipeline set in the manager equals the model
        let snap = w.snapshot(at);
        let mut have: Vec<String> = snap["pipelines"].as_object().map(|o| o.keys().cloned().collect()).unwrap_or_default();
        have.sort();
        let mut want: Vec<String> = w.models[at].pipes.iter().map(|p| p.id.clone()).collect();
        want.sort();
        if have != want {
            return Outcome::fail(format!("own-view-diverges:{}:pipeline-set", opname), format!("{}; manager has {:?}, model {:?}", ctx(), have, want));
        }
    }
    out.nontrivial(foreign_mutating_after_both > 0)
        .class_if(foreign_mutating_after_both > 0, "nontrivial:foreign_mutating_after_both_have_pipelines")
        .class_if(foreign_total == 0, "no_foreign_request")
        .class(format!("tenants:{}", n))
}

fn main() {
    let check = Check::new("C28", "exploration");
    check.rule("histories of <=25 requests over 2-3 tenants through api_routes (warp::test): deploy (4 stateful/stateless sources + unparsable), list, get, delete, inject, inject-batch, reload, checkpoint, restore (previously returned or fresh checkpoint), metrics, logs (SSE, headers only), usage; actor = tenant key / unknown key / no key; target = pipeline of any tenant by ordinal, or unknown id (fixed, deleted, upper-cased, suffixed); every history starts with deploys for all tenants; non-trivial = >=1 mutating request (delete/inject/inject-batch/reload/restore) with another tenant's pipeline id while both tenants own pipelines");
    check.assume("the single-tenant shadow (one real Engine per pipeline fed only with the owner's accepted operations) defines what the owner must observe; TenantManager internals are read directly for the 'unchanged' snapshots");
    // self-test: every source loads and produces output for some probe event (non-vacuity of the output comparison)
    for (i, s) in SOURCES.iter().enumerate() {
        match Eng::new(s) {
            Err(e) => check.inconclusive(format!("source {} does not load: {}", i, e)),
            Ok(mut e) => {
                let mut n = 0;
                for k in 0..4 {
                    for ty in ["E", "A", "B"] {
                        n += e.process_event(Event::new(ty).with_field("x", 6i64 + k)).map(|o| o.len()).unwrap_or(0);
                    }
                }
                if n == 0 {
                    check.inconclusive(format!("source {} never produces output", i));
                }
            }
        }
    }
    check.explore("histories", strat, 1500, 40_000, run_case);
    check.finish();
}
