//! C22 Tenant and pipeline metadata survive restarts exactly as acknowledged.
//!
//! Fault enumeration: histories of management operations are driven through the real HTTP
//! handlers (`varpulis_cli::api::api_routes` + `warp::test`) on a `TenantManager` whose store
//! is a harness `CrashStore` around the real `FileStore` / `MemoryStore`: the k-th put/delete
//! fails and so does every later call (the process is dead).  k is enumerated over all writes
//! of the history (+ "after the last write").  Then the server restarts the way
//! `varpulis server --state-dir` does (`FileStore::open` + `shared_tenant_manager_with_store`,
//! i.e. `TenantManager::with_store(..).recover()`) on the inner store, and the recovered
//! manager must hold exactly the acknowledged state; only the operation that was in flight
//! when the process died may be present or absent.
use proptest::prelude::*;
use serde::{Deserialize, Serialize};
use std::collections::BTreeMap;
use std::path::PathBuf;
use std::sync::atomic::{AtomicU64, Ordering};
use std::sync::{Arc, Mutex};
use vh_common::serde_json::{self, json};
use vh_common::{Check, Outcome};
use vh_server::varpulis_cli::api::{self, CreateTenantRequest, DeployPipelineRequest, DeployPipelineResponse, PipelineListResponse, ReloadPipelineRequest, TenantResponse};
use vh_server::varpulis_runtime::persistence::{Checkpoint, FileStore, MemoryStore, StateStore, StoreError};
use vh_server::varpulis_runtime::tenant::{PipelineStatus, SharedTenantManager, TenantId};
use vh_server::varpulis_runtime::shared_tenant_manager_with_store;

// ------------------------------------------------------------------ crash store

#[derive(Default)]
struct CrashState {
    /// number of put/delete calls seen
    writes: u64,
    /// the write with this index fails, and everything after it
    die_at: Option<u64>,
    dead: bool,
    /// (kind, key) of every write, for classification
    log: Vec<(&'static str, String)>,
}

struct CrashStore {
    inner: Arc<dyn StateStore>,
    st: Mutex<CrashState>,
}

impl CrashStore {
    fn new(inner: Arc<dyn StateStore>, die_at: Option<u64>) -> Self {
        CrashStore { inner, st: Mutex::new(CrashState { die_at, ..Default::default() }) }
    }
    fn dead_err() -> StoreError {
        StoreError::IoError("verif: simulated process crash".into())
    }
    fn alive(&self) -> Result<(), StoreError> {
        if self.st.lock().unwrap().dead {
            Err(Self::dead_err())
        } else {
            Ok(())
        }
    }
    fn write(&self, kind: &'static str, key: &str) -> Result<(), StoreError> {
        let mut s = self.st.lock().unwrap();
        if s.dead {
            return Err(Self::dead_err());
        }
        let idx = s.writes;
        s.writes += 1;
        s.log.push((kind, key.to_string()));
        if s.die_at == Some(idx) {
            s.dead = true;
            return Err(Self::dead_err());
        }
        Ok(())
    }
    fn is_dead(&self) -> bool {
        self.st.lock().unwrap().dead
    }
    fn writes(&self) -> u64 {
        self.st.lock().unwrap().writes
    }
    fn log(&self) -> Vec<(&'static str, String)> {
        self.st.lock().unwrap().log.clone()
    }
}

impl StateStore for CrashStore {
    fn save_checkpoint(&self, c: &Checkpoint) -> Result<(), StoreError> {
        self.write("save_checkpoint", &c.id.to_string())?;
        self.inner.save_checkpoint(c)
    }
    fn load_latest_checkpoint(&self) -> Result<Option<Checkpoint>, StoreError> {
        self.alive()?;
        self.inner.load_latest_checkpoint()
    }
    fn load_checkpoint(&self, id: u64) -> Result<Option<Checkpoint>, StoreError> {
        self.alive()?;
        self.inner.load_checkpoint(id)
    }
    fn list_checkpoints(&self) -> Result<Vec<u64>, StoreError> {
        self.alive()?;
        self.inner.list_checkpoints()
    }
    fn prune_checkpoints(&self, keep: usize) -> Result<usize, StoreError> {
        self.write("prune", "")?;
        self.inner.prune_checkpoints(keep)
    }
    fn put(&self, key: &str, value: &[u8]) -> Result<(), StoreError> {
        self.write("put", key)?;
        self.inner.put(key, value)
    }
    fn get(&self, key: &str) -> Result<Option<Vec<u8>>, StoreError> {
        self.alive()?;
        self.inner.get(key)
    }
    fn delete(&self, key: &str) -> Result<(), StoreError> {
        self.write("delete", key)?;
        self.inner.delete(key)
    }
    fn flush(&self) -> Result<(), StoreError> {
        self.alive()?;
        self.inner.flush()
    }
}

// ------------------------------------------------------------------ case model

const SOURCES: [&str; 9] = [
    "stream A = X\n    .emit(v: v)\n",
    "stream B = Y\n    .where(v > 1)\n    .emit(w: v)\n",
    "# ünïcode comment 日本\nstream C = X\n    .window(3)\n    .aggregate(c: count())\n    .emit(n: c)\n",
    "stream D = X as a\n    -> Y as b\n    .within(10s)\n    .emit(ida: a.id)\n",
    "stream E1 = X\n    .emit(v: v)\n\nstream E2 = Y\n    .emit(v: v)\n",
    "var limit: int = 5\n\nstream F = X\n    .emit(s: \"q\\\"uote \\\\ é\")\n",
    // rejected by the parser: the operation must fail and leave no trace
    "stream = = nonsense (",
    // accepted by the parser but refused by the engine at load/reload time: same requirement
    "stream G = X\n    .order_by(v)\n    .emit(v: v)\n",
    "stream H = X\n    .score(model: \"m.onnx\", inputs: [v], outputs: [s])\n    .emit(v: v)\n",
];
const NAMES: [&str; 6] = ["p", "pipeline two", "ünï-çode ✓", "", "p", "a/b:c\"d"];
const TENANT_NAMES: [&str; 4] = ["Acme Corp", "tenant é 日本", "", "x:y/z"];
const TIERS: [Option<&str>; 4] = [None, Some("free"), Some("pro"), Some("enterprise")];

#[derive(Clone, Debug, Serialize, Deserialize, PartialEq)]
enum Op {
    CreateTenant { slot: u8, name: u8, tier: u8 },
    DeleteTenant { slot: u8 },
    Deploy { slot: u8, name: u8, source: u8 },
    /// `pick` selects among the tenant's pipelines (creation order); none -> unknown id
    DeletePipeline { slot: u8, pick: u8 },
    Reload { slot: u8, pick: u8, source: u8 },
    /// direct API (no HTTP route changes a status): set the pub `status` field, then
    /// `persist_if_needed` like every handler does
    SetStatus { slot: u8, pick: u8, status: u8 },
    /// clean restart: new manager recovered from the (crash-wrapped) store
    Restart,
}

impl Op {
    fn tag(&self) -> &'static str {
        match self {
            Op::CreateTenant { .. } => "create_tenant",
            Op::DeleteTenant { .. } => "delete_tenant",
            Op::Deploy { .. } => "deploy",
            Op::DeletePipeline { .. } => "delete_pipeline",
            Op::Reload { .. } => "reload",
            Op::SetStatus { .. } => "set_status",
            Op::Restart => "restart",
        }
    }
}

#[derive(Clone, Debug, Serialize, Deserialize)]
struct Hist {
    ops: Vec<Op>,
    /// replay aid: judge only this crash point (index of the failing write)
    #[serde(default)]
    only: Option<u64>,
}

#[derive(Clone, Debug, PartialEq, Eq, PartialOrd, Ord)]
struct MP {
    id: String,
    name: String,
    source: String,
    status: String,
}

#[derive(Clone, Debug, PartialEq, Eq, PartialOrd, Ord)]
struct MT {
    id: String,
    name: String,
    api_key: String,
    quota: (usize, u64, usize),
    /// creation order in the model; sorted by id when compared
    pipelines: Vec<MP>,
}

#[derive(Clone, Debug, Default, PartialEq)]
struct Model {
    slots: [Option<MT>; 2],
    /// api keys of deleted tenants (must not authenticate any more)
    dead_keys: Vec<String>,
}

impl Model {
    fn canon(&self) -> Vec<MT> {
        let mut v: Vec<MT> = self.slots.iter().flatten().cloned().collect();
        for t in &mut v {
            t.pipelines.sort();
        }
        v.sort();
        v
    }
}

fn status_of(s: u8) -> PipelineStatus {
    match s % 3 {
        0 => PipelineStatus::Stopped,
        1 => PipelineStatus::Error("bøøm \"x\"".into()),
        _ => PipelineStatus::Running,
    }
}

const ADMIN: &str = "admin-secret";

// ------------------------------------------------------------------ driving the real handlers

struct Server {
    mgr: SharedTenantManager,
}

impl Server {
    /// what `varpulis server --state-dir` does at start-up
    fn start(store: Arc<dyn StateStore>) -> Server {
        Server { mgr: shared_tenant_manager_with_store(store) }
    }

    /// apply one operation; returns (status code, was it acknowledged)
    async fn apply(&self, op: &Op, model: &mut Model) -> u16 {
        let routes = api::api_routes(self.mgr.clone(), Some(ADMIN.to_string()));
        match op {
            Op::Restart => 0,
            Op::CreateTenant { slot, name, tier } => {
                let slot = *slot as usize % 2;
                let resp = warp::test::request()
                    .method("POST")
                    .path("/api/v1/tenants")
                    .header("x-admin-key", ADMIN)
                    .json(&CreateTenantRequest { name: TENANT_NAMES[*name as usize % TENANT_NAMES.len()].to_string(), quota_tier: TIERS[*tier as usize % TIERS.len()].map(|s| s.to_string()) })
                    .reply(&routes)
                    .await;
                let code = resp.status().as_u16();
                if resp.status().is_success() {
                    let body: TenantResponse = serde_json::from_slice(resp.body()).expect("TenantResponse");
                    // the slot's previous tenant (if any) stays alive in the model under no slot:
                    // keep the bound of 2 tenants by only creating into an empty slot
                    model.slots[slot] = Some(MT {
                        id: body.id,
                        name: body.name,
                        api_key: body.api_key,
                        quota: (body.quota.max_pipelines, body.quota.max_events_per_second, body.quota.max_streams_per_pipeline),
                        pipelines: vec![],
                    });
                }
                code
            }
            Op::DeleteTenant { slot } => {
                let slot = *slot as usize % 2;
                let id = model.slots[slot].as_ref().map(|t| t.id.clone()).unwrap_or_else(|| "no-such-tenant".into());
                let resp = warp::test::request().method("DELETE").path(&format!("/api/v1/tenants/{}", id)).header("x-admin-key", ADMIN).reply(&routes).await;
                if resp.status().is_success() {
                    if let Some(t) = model.slots[slot].take() {
                        model.dead_keys.push(t.api_key);
                    }
                }
                resp.status().as_u16()
            }
            Op::Deploy { slot, name, source } => {
                let slot = *slot as usize % 2;
                let key = model.slots[slot].as_ref().map(|t| t.api_key.clone()).unwrap_or_else(|| "no-such-key".into());
                let name = NAMES[*name as usize % NAMES.len()].to_string();
                let source = SOURCES[*source as usize % SOURCES.len()].to_string();
                let resp = warp::test::request()
                    .method("POST")
                    .path("/api/v1/pipelines")
                    .header("x-api-key", &key)
                    .json(&DeployPipelineRequest { name: name.clone(), source: source.clone() })
                    .reply(&routes)
                    .await;
                if resp.status().is_success() {
                    let body: DeployPipelineResponse = serde_json::from_slice(resp.body()).expect("DeployPipelineResponse");
                    if let Some(t) = model.slots[slot].as_mut() {
                        t.pipelines.push(MP { id: body.id, name, source, status: "running".into() });
                    }
                }
                resp.status().as_u16()
            }
            Op::DeletePipeline { slot, pick } => {
                let slot = *slot as usize % 2;
                let key = model.slots[slot].as_ref().map(|t| t.api_key.clone()).unwrap_or_else(|| "no-such-key".into());
                let n = model.slots[slot].as_ref().map(|t| t.pipelines.len()).unwrap_or(0);
                let idx = if n > 0 { Some(*pick as usize % n) } else { None };
                let pid = idx.map(|i| model.slots[slot].as_ref().unwrap().pipelines[i].id.clone()).unwrap_or_else(|| "no-such-pipeline".into());
                let resp = warp::test::request().method("DELETE").path(&format!("/api/v1/pipelines/{}", pid)).header("x-api-key", &key).reply(&routes).await;
                if resp.status().is_success() {
                    if let (Some(t), Some(i)) = (model.slots[slot].as_mut(), idx) {
                        t.pipelines.remove(i);
                    }
                }
                resp.status().as_u16()
            }
            Op::Reload { slot, pick, source } => {
                let slot = *slot as usize % 2;
                let key = model.slots[slot].as_ref().map(|t| t.api_key.clone()).unwrap_or_else(|| "no-such-key".into());
                let n = model.slots[slot].as_ref().map(|t| t.pipelines.len()).unwrap_or(0);
                let idx = if n > 0 { Some(*pick as usize % n) } else { None };
                let pid = idx.map(|i| model.slots[slot].as_ref().unwrap().pipelines[i].id.clone()).unwrap_or_else(|| "no-such-pipeline".into());
                let source = SOURCES[*source as usize % SOURCES.len()].to_string();
                let resp = warp::test::request()
                    .method("POST")
                    .path(&format!("/api/v1/pipelines/{}/reload", pid))
                    .header("x-api-key", &key)
                    .json(&ReloadPipelineRequest { source: source.clone() })
                    .reply(&routes)
                    .await;
                if resp.status().is_success() {
                    if let (Some(t), Some(i)) = (model.slots[slot].as_mut(), idx) {
                        t.pipelines[i].source = source;
                    }
                }
                resp.status().as_u16()
            }
            Op::SetStatus { slot, pick, status } => {
                let slot = *slot as usize % 2;
                let Some(t) = model.slots[slot].as_mut() else { return 404 };
                if t.pipelines.is_empty() {
                    return 404;
                }
                let i = *pick as usize % t.pipelines.len();
                let st = status_of(*status);
                let tid = TenantId::new(&t.id);
                let mut mgr = self.mgr.write().await;
                let Some(p) = mgr.get_tenant_mut(&tid).and_then(|tt| tt.pipelines.get_mut(&t.pipelines[i].id)) else { return 404 };
                p.status = st.clone();
                mgr.persist_if_needed(&tid);
                t.pipelines[i].status = st.to_string();
                200
            }
        }
    }

    /// the manager's tenants/keys/pipelines in canonical form + api-key index problems
    async fn observe(&self) -> (Vec<MT>, Vec<String>) {
        let mgr = self.mgr.read().await;
        let mut problems = vec![];
        let mut out = vec![];
        for t in mgr.list_tenants() {
            let mut pipelines: Vec<MP> = t.pipelines.iter().map(|(k, p)| MP { id: p.id.clone(), name: p.name.clone(), source: p.source.clone(), status: p.status.to_string() }.check_key(k, &mut problems)).collect();
            pipelines.sort();
            match mgr.get_tenant_by_api_key(&t.api_key) {
                Some(id) if *id == t.id => {}
                other => problems.push(format!("api key of tenant {} resolves to {:?}", t.id, other.map(|i| i.to_string()))),
            }
            out.push(MT { id: t.id.to_string(), name: t.name.clone(), api_key: t.api_key.clone(), quota: (t.quota.max_pipelines, t.quota.max_events_per_second, t.quota.max_streams_per_pipeline), pipelines });
        }
        out.sort();
        (out, problems)
    }
}

impl MP {
    fn check_key(self, key: &str, problems: &mut Vec<String>) -> MP {
        if key != self.id {
            problems.push(format!("pipeline {} stored under key {}", self.id, key));
        }
        self
    }
}

/// first difference between the observed state and a candidate, as (kind, text)
fn diff(obs: &[MT], want: &[MT]) -> Option<(&'static str, String)> {
    let o: BTreeMap<&str, &MT> = obs.iter().map(|t| (t.id.as_str(), t)).collect();
    let w: BTreeMap<&str, &MT> = want.iter().map(|t| (t.id.as_str(), t)).collect();
    for (id, t) in &w {
        let Some(g) = o.get(id) else { return Some(("tenant-missing", format!("tenant {} ({:?}) is gone", id, t.name))) };
        if g.name != t.name {
            return Some(("tenant-name-differs", format!("{:?} vs {:?}", g.name, t.name)));
        }
        if g.api_key != t.api_key {
            return Some(("api-key-differs", format!("tenant {}", id)));
        }
        if g.quota != t.quota {
            return Some(("quota-differs", format!("{:?} vs {:?}", g.quota, t.quota)));
        }
        let op: BTreeMap<&str, &MP> = g.pipelines.iter().map(|p| (p.id.as_str(), p)).collect();
        let wp: BTreeMap<&str, &MP> = t.pipelines.iter().map(|p| (p.id.as_str(), p)).collect();
        for (pid, p) in &wp {
            let Some(q) = op.get(pid) else { return Some(("pipeline-missing", format!("pipeline {:?} of tenant {:?}", p.name, t.name))) };
            if q.name != p.name {
                return Some(("pipeline-name-differs", format!("{:?} vs {:?}", q.name, p.name)));
            }
            if q.source != p.source {
                return Some(("pipeline-source-differs", format!("{:?} vs {:?}", q.source, p.source)));
            }
            if q.status != p.status {
                return Some(("pipeline-status-differs", format!("{:?} vs {:?}", q.status, p.status)));
            }
        }
        for (pid, q) in &op {
            if !wp.contains_key(pid) {
                return Some(("pipeline-extra", format!("pipeline {:?} of tenant {:?} is back", q.name, t.name)));
            }
        }
    }
    for (id, g) in &o {
        if !w.contains_key(id) {
            return Some(("tenant-extra", format!("tenant {} ({:?}) exists", id, g.name)));
        }
    }
    None
}

// ------------------------------------------------------------------ one run of a history

enum Backing {
    File(PathBuf),
    Memory(Arc<MemoryStore>),
}

impl Backing {
    /// open the real store the way the server does
    fn open(&self) -> Result<Arc<dyn StateStore>, String> {
        match self {
            Backing::File(dir) => {
                std::fs::create_dir_all(dir).map_err(|e| e.to_string())?;
                Ok(Arc::new(FileStore::open(dir).map_err(|e| e.to_string())?))
            }
            Backing::Memory(m) => Ok(m.clone()),
        }
    }
}

struct RunOut {
    /// state acknowledged before the in-flight operation
    before: Model,
    /// state if the in-flight operation had completed (== before when none was in flight)
    after: Model,
    /// (op index, op tag, index of the failing write inside that op, writes of that op so far)
    inflight: Option<(usize, &'static str, u64)>,
    total_writes: u64,
    /// per op: number of writes it issued (dry run)
    write_log: Vec<(&'static str, String)>,
}

async fn run_history(backing: &Backing, hist: &Hist, die_at: Option<u64>, what: &str) -> Result<RunOut, Outcome> {
    let inner = backing.open().map_err(|e| Outcome::discard(format!("store open: {}", e)))?;
    let store = Arc::new(CrashStore::new(inner, die_at));
    let mut server = Server::start(store.clone());
    let mut model = Model::default();
    for (i, op) in hist.ops.iter().enumerate() {
        let before = model.clone();
        let writes_before = store.writes();
        if *op == Op::Restart {
            server = Server::start(store.clone());
            // clean restart: exactly the acknowledged state
            let (obs, problems) = server.observe().await;
            if let Some(p) = problems.first() {
                return Err(Outcome::fail(format!("{}:clean-restart:index-inconsistent", what), p.clone()));
            }
            if let Some((kind, text)) = diff(&obs, &model.canon()) {
                return Err(Outcome::fail(format!("{}:clean-restart:{}", what, kind), format!("after ops {:?}: {}", &hist.ops[..i], text)));
            }
            continue;
        }
        // creating into an occupied slot would exceed the bound of 2 tenants: skip such ops
        if let Op::CreateTenant { slot, .. } = op {
            if model.slots[*slot as usize % 2].is_some() {
                continue;
            }
        }
        let code = server.apply(op, &mut model).await;
        if store.is_dead() {
            return Ok(RunOut { before, after: model, inflight: Some((i, op.tag(), die_at.unwrap_or(0) - writes_before)), total_writes: store.writes(), write_log: store.log() });
        }
        // a refused operation must not have changed the acknowledged state
        if !(200..300).contains(&code) && model != before {
            return Err(Outcome::fail("harness:model-changed-on-refusal", format!("{:?} -> {}", op, code)));
        }
    }
    Ok(RunOut { before: model.clone(), after: model, inflight: None, total_writes: store.writes(), write_log: store.log() })
}

#[derive(Default)]
struct Stats {
    crash_runs: AtomicU64,
    by_class: Mutex<BTreeMap<String, u64>>,
}

fn check(hist: &Hist, file: bool, stats: &Stats) -> Outcome {
    let rt = match tokio::runtime::Builder::new_current_thread().enable_all().build() {
        Ok(r) => r,
        Err(e) => return Outcome::discard(format!("runtime: {}", e)),
    };
    let base = if file {
        match tempfile::tempdir() {
            Ok(d) => Some(d),
            Err(e) => return Outcome::discard(format!("tempdir: {}", e)),
        }
    } else {
        None
    };
    let what = if file { "file" } else { "memory" };
    let backing = |name: &str| match &base {
        Some(b) => Backing::File(b.path().join(name)),
        None => Backing::Memory(Arc::new(MemoryStore::new())),
    };
    rt.block_on(async {
        // dry run: count the writes, see which operations are acknowledged
        let dry = match run_history(&backing("dry"), hist, None, what).await {
            Ok(r) => r,
            Err(o) => return o,
        };
        let n = dry.total_writes;
        let mut classes: BTreeMap<String, u64> = BTreeMap::new();
        let points: Vec<u64> = match hist.only {
            Some(k) => vec![k],
            None => (0..=n).collect(),
        };
        for k in &points {
            let b = backing(&format!("r{}", k));
            let run = match run_history(&b, hist, Some(*k), what).await {
                Ok(r) => r,
                Err(o) => return o,
            };
            // restart on the inner store, like a new server process
            let inner = match b.open() {
                Ok(s) => s,
                Err(e) => return Outcome::fail(format!("{}:store-does-not-reopen", what), e),
            };
            let server = Server::start(inner);
            let (obs, problems) = server.observe().await;
            let (cls, wkind) = match &run.inflight {
                Some((_, tag, w)) => {
                    let wk = run.write_log.last().map(|(kind, key)| format!("{}:{}", kind, key.split(':').next().unwrap_or(""))).unwrap_or_default();
                    (format!("{}:w{}", tag, w), wk)
                }
                None => ("after_last_write".to_string(), String::new()),
            };
            *classes.entry(format!("crash:{}", cls)).or_insert(0) += 1;
            if !wkind.is_empty() {
                *classes.entry(format!("failed_write:{}", wkind)).or_insert(0) += 1;
            }
            let detail = |text: String| format!("crash at write {} of {} ({}); ops {:?}: {}", k, n, cls, hist.ops, text);
            if let Some(p) = problems.first() {
                return Outcome::fail(format!("{}:{}:index-inconsistent", what, cls), detail(p.clone()));
            }
            let (d1, d2) = (diff(&obs, &run.before.canon()), diff(&obs, &run.after.canon()));
            if let (Some((kind, text)), Some(_)) = (&d1, &d2) {
                // neither "in-flight op missing" nor "in-flight op present"
                let d2t = d2.as_ref().map(|(k2, t2)| format!("{}: {}", k2, t2)).unwrap_or_default();
                return Outcome::fail(format!("{}:{}:{}", what, cls, kind), detail(format!("vs state before the in-flight op: {}: {} ; vs state after it: {}", kind, text, d2t)));
            }
            // deleted tenants' keys must not authenticate
            {
                let mgr = server.mgr.read().await;
                for key in &run.before.dead_keys {
                    if mgr.get_tenant_by_api_key(key).is_some() {
                        return Outcome::fail(format!("{}:{}:deleted-tenant-key-still-valid", what, cls), detail(String::new()));
                    }
                }
            }
            // the recovered server answers for the recovered tenants (real handler)
            let routes = api::api_routes(server.mgr.clone(), Some(ADMIN.to_string()));
            for t in &obs {
                let resp = warp::test::request().method("GET").path("/api/v1/pipelines").header("x-api-key", &t.api_key).reply(&routes).await;
                if !resp.status().is_success() {
                    return Outcome::fail(format!("{}:{}:recovered-tenant-cannot-list", what, cls), detail(format!("status {}", resp.status())));
                }
                let body: PipelineListResponse = match serde_json::from_slice(resp.body()) {
                    Ok(b) => b,
                    Err(e) => return Outcome::fail(format!("{}:{}:list-body", what, cls), detail(e.to_string())),
                };
                let mut listed: Vec<(String, String, String, String)> = body.pipelines.into_iter().map(|p| (p.id, p.name, p.source, p.status)).collect();
                listed.sort();
                let want: Vec<(String, String, String, String)> = t.pipelines.iter().map(|p| (p.id.clone(), p.name.clone(), p.source.clone(), p.status.clone())).collect();
                if listed != want {
                    return Outcome::fail(format!("{}:{}:listing-differs-from-state", what, cls), detail(format!("{:?} vs {:?}", listed, want)));
                }
            }
            if let Backing::File(dir) = &b {
                let _ = std::fs::remove_dir_all(dir);
            }
        }
        stats.crash_runs.fetch_add(points.len() as u64, Ordering::Relaxed);
        {
            let mut m = stats.by_class.lock().unwrap();
            for (k, v) in &classes {
                *m.entry(k.clone()).or_insert(0) += v;
            }
        }
        let acked = dry.after.canon();
        let nt = classes.keys().any(|c| c.ends_with(":w1") || c.starts_with("crash:delete"));
        let mut o = Outcome::pass()
            .nontrivial(nt)
            .class(format!("writes={}", if n > 12 { "13+".to_string() } else { n.to_string() }))
            .class_if(hist.ops.contains(&Op::Restart), "with_clean_restart")
            .class_if(acked.len() == 2, "two_tenants_at_end")
            .class_if(acked.iter().any(|t| t.pipelines.len() >= 2), "tenant_with_2+_pipelines")
            .class_if(acked.iter().any(|t| t.pipelines.iter().any(|p| p.status != "running")), "non_running_status")
            .class_if(!dry.after.dead_keys.is_empty(), "tenant_deleted");
        for c in classes.keys() {
            if c.starts_with("crash:") {
                o = o.class(c.split(":w").next().unwrap_or(c).to_string());
            }
        }
        o
    })
}

fn slot() -> impl Strategy<Value = u8> {
    prop_oneof![3 => Just(0u8), 1 => Just(1u8)]
}

fn op_strategy() -> impl Strategy<Value = Op> {
    prop_oneof![
        2 => (slot(), 0u8..4, 0u8..4).prop_map(|(slot, name, tier)| Op::CreateTenant { slot, name, tier }),
        1 => slot().prop_map(|slot| Op::DeleteTenant { slot }),
        5 => (slot(), 0u8..6, prop_oneof![6 => 0u8..6, 1 => Just(6u8), 1 => Just(7u8), 1 => Just(8u8)]).prop_map(|(slot, name, source)| Op::Deploy { slot, name, source }),
        3 => (slot(), 0u8..3).prop_map(|(slot, pick)| Op::DeletePipeline { slot, pick }),
        3 => (slot(), 0u8..3, prop_oneof![5 => 0u8..6, 1 => Just(6u8), 2 => Just(7u8), 1 => Just(8u8)]).prop_map(|(slot, pick, source)| Op::Reload { slot, pick, source }),
        2 => (slot(), 0u8..3, 0u8..3).prop_map(|(slot, pick, status)| Op::SetStatus { slot, pick, status }),
        1 => Just(Op::Restart),
    ]
}

fn hist_strategy() -> impl Strategy<Value = Hist> {
    proptest::collection::vec(op_strategy(), 3..9).prop_map(|mut ops| {
        // start with a tenant so that most histories do something
        if !matches!(ops.first(), Some(Op::CreateTenant { .. })) {
            ops.insert(0, Op::CreateTenant { slot: 0, name: 0, tier: 1 });
            ops.truncate(8);
        }
        // the property's bound: 3 pipelines
        let mut deploys = 0;
        ops.retain(|o| match o {
            Op::Deploy { .. } => {
                deploys += 1;
                deploys <= 3
            }
            _ => true,
        });
        Hist { ops, only: None }
    })
}

fn main() {
    let check_ = Check::new("C22", "fault_enumeration");
    check_.rule("histories of <=8 management operations over 2 tenant slots and <=3 deployed pipelines (create/delete tenant with every quota tier, deploy/delete/reload pipeline incl. refused ones: unknown key, unknown pipeline, unparsable source, quota exceeded; a direct status change + persist; clean restarts), sent through the real warp handlers (api_routes) to a TenantManager on a CrashStore around the real FileStore (temp dir) or MemoryStore; a dry run counts the store writes, then the history is re-run once per write index k (that put/delete and everything after it fails) and once with no failure; a new server start (FileStore::open + shared_tenant_manager_with_store = TenantManager::recover) on the inner store must hold exactly the tenants, api keys, quotas and pipelines (id, name, source, status) of the 2xx-acknowledged operations, the single in-flight operation either applied or not; the recovered server's pipeline listing must agree, deleted tenants' keys must not authenticate. Non-trivial = history with a crash between the tenant snapshot write and the index write, or inside a delete.");
    check_.assume("crash = the k-th store write and all later calls fail (no torn store writes: FileStore::put is atomic, see C21); the response of the in-flight operation is only used to learn the ids it generated; statuses other than running only arise through the direct field write of the SetStatus step because no HTTP operation changes a status");
    let stats = Stats::default();
    check_.explore("file", hist_strategy, 300, 6000, |h: &Hist| check(h, true, &stats));
    check_.explore("memory", hist_strategy, 300, 6000, |h: &Hist| check(h, false, &stats));
    check_.extra("crash_runs_total", json!(stats.crash_runs.load(Ordering::Relaxed)));
    check_.extra("crash_runs_by_class", json!(*stats.by_class.lock().unwrap()));
    println!("  crash runs: {} {:?}", stats.crash_runs.load(Ordering::Relaxed), stats.by_class.lock().unwrap());
    check_.finish();
}
