//! C37 Coordinators agree on the cluster state and never lose acknowledged writes, under message
//! loss, delay, partitions and coordinator restarts.
//!
//! Real 3-node clusters in one process: `raft::bootstrap` / `raft::bootstrap_persistent`, the real
//! `raft::routes`, the real HTTP transport (`raft::network`).  Every node's configured peer address
//! is a harness-owned loopback server that decides per (sender -> target) whether a request or its
//! response is dropped or delayed and otherwise hands the request to the node's real route filter.
//! Schedules are sampled with the real (compiled-in) Raft timers: runs are not reproducible.
use proptest::prelude::*;
use serde::{Deserialize, Serialize};
use std::collections::{BTreeMap, BTreeSet};
use std::sync::atomic::{AtomicU64, AtomicUsize, Ordering};
use std::sync::{Arc, Mutex};
use std::time::{Duration, Instant};
use vh_common::{Check, Outcome};
use vh_server::varpulis_cluster as vc;
use warp::Filter;

use vc::raft::store::SharedCoordinatorState;
use vc::raft::{ClusterCommand, VarpulisRaft};

type J = serde_json::Value;

// ------------------------------------------------------------------ case

#[derive(Clone, Debug, Serialize, Deserialize, PartialEq)]
enum Act {
    /// partition a|bc with a = the node that currently leads
    IsolateLeader,
    /// partition a|bc
    Isolate { node: u8 },
    /// remove partitions, drops and delays
    Heal,
    /// drop this share of requests and (independently) of responses, all links
    Drop { pct: u8 },
    /// delay every request by up to this many ms
    Delay { ms: u16 },
    /// stop a node (Raft + store dropped) and start it again on the same data directory
    Restart { node: u8 },
    /// `n` writes of fresh keys through every node that currently claims leadership
    Write { n: u8 },
    Sleep { ms: u16 },
}

#[derive(Clone, Debug, Serialize, Deserialize)]
struct Case {
    seed: u64,
    /// RocksDB stores (restarts possible) or in-memory stores (restart actions are skipped)
    persistent: bool,
    actions: Vec<Act>,
}

fn episode(persistent: bool) -> impl Strategy<Value = Vec<Act>> {
    let fault = prop_oneof![
        8 => Just(Act::IsolateLeader),
        3 => (0u8..3).prop_map(|node| Act::Isolate { node }),
        3 => (10u8..60).prop_map(|pct| Act::Drop { pct }),
        2 => (50u16..400).prop_map(|ms| Act::Delay { ms }),
        if persistent { 8 } else { 0 } => (0u8..3).prop_map(|node| Act::Restart { node }),
    ];
    (fault, 1u8..3, 2500u16..4500, prop_oneof![2 => Just(Act::Heal), 1 => (1u8..3).prop_map(|n| Act::Write { n })]).prop_map(|(f, n, ms, last)| vec![f, Act::Write { n }, Act::Sleep { ms }, last])
}

fn case() -> impl Strategy<Value = Case> {
    (any::<u64>(), proptest::bool::weighted(0.7)).prop_flat_map(|(seed, persistent)| {
        proptest::collection::vec(episode(persistent), 2..=3).prop_map(move |eps| {
            let mut actions = vec![];
            for e in eps {
                actions.extend(e);
            }
            Case { seed, persistent, actions }
        })
    })
}

// ------------------------------------------------------------------ fault table + proxy

#[derive(Default)]
struct Faults {
    /// blocked[s][t]: requests from node s+1 to node t+1 are refused
    blocked: [[bool; 3]; 3],
    drop_pct: u8,
    delay_ms: u16,
    rng: u64,
    dropped: u64,
    refused: u64,
    forwarded: u64,
}

impl Faults {
    fn roll(&mut self, pct: u8) -> bool {
        // xorshift64*
        self.rng ^= self.rng >> 12;
        self.rng ^= self.rng << 25;
        self.rng ^= self.rng >> 27;
        let r = (self.rng.wrapping_mul(0x2545F4914F6CDD1D) >> 33) % 100;
        (r as u8) < pct
    }
}

/// Where node i's real `raft::routes` server currently listens (None while the node is stopped).
struct Slot {
    backend: tokio::sync::RwLock<Option<(String, tokio::sync::oneshot::Sender<()>)>>,
    client: reqwest::Client,
}

fn unavailable(why: &str) -> warp::reply::Response {
    warp::reply::Reply::into_response(warp::reply::with_status(why.to_string(), warp::http::StatusCode::SERVICE_UNAVAILABLE))
}

/// The server behind node `target`'s configured address.
fn proxy(target: usize, faults: Arc<Mutex<Faults>>, slot: Arc<Slot>) -> impl Filter<Extract = (warp::reply::Response,), Error = warp::Rejection> + Clone {
    warp::path("raft").and(warp::path::param::<String>()).and(warp::path::end()).and(warp::method()).and(warp::body::bytes()).and_then(move |rpc: String, method: warp::http::Method, body: warp::hyper::body::Bytes| {
        let faults = faults.clone();
        let slot = slot.clone();
        async move {
            // the sender is the candidate / leader named in the RPC
            let sender = serde_json::from_slice::<J>(&body).ok().and_then(|v| v["vote"]["leader_id"]["node_id"].as_u64()).map(|n| n as usize);
            let (refuse, drop_req, drop_resp, delay) = {
                let mut f = faults.lock().unwrap();
                let refuse = sender.map(|s| (1..=3).contains(&s) && f.blocked[s - 1][target]).unwrap_or(false);
                let pct = f.drop_pct;
                let dq = pct > 0 && f.roll(pct);
                let dr = pct > 0 && f.roll(pct);
                let d = if f.delay_ms > 0 { (f.rng % (f.delay_ms as u64 + 1)) as u64 } else { 0 };
                if refuse {
                    f.refused += 1;
                } else if dq || dr {
                    f.dropped += 1;
                } else {
                    f.forwarded += 1;
                }
                (refuse, dq, dr, d)
            };
            if refuse {
                return Ok::<_, warp::Rejection>(unavailable("partitioned"));
            }
            if delay > 0 {
                tokio::time::sleep(Duration::from_millis(delay)).await;
            }
            if drop_req {
                return Ok(unavailable("request dropped"));
            }
            let backend = slot.backend.read().await.as_ref().map(|(a, _)| a.clone());
            let Some(backend) = backend else { return Ok(unavailable("node down")) };
            let m = reqwest::Method::from_bytes(method.as_str().as_bytes()).unwrap_or(reqwest::Method::POST);
            let resp = slot.client.request(m, format!("{backend}/raft/{rpc}")).header("content-type", "application/json").body(body.to_vec()).send().await;
            let (status, bytes) = match resp {
                Ok(r) => {
                    let st = r.status().as_u16();
                    (st, r.bytes().await.map(|b| b.to_vec()).unwrap_or_default())
                }
                Err(_) => return Ok(unavailable("backend unreachable")),
            };
            if std::env::var("VERIF_C37_DEBUG").is_ok() {
                eprintln!("proxy: {:?} -> node {} /raft/{} => {} {}", sender, target + 1, rpc, status, String::from_utf8_lossy(&bytes[..bytes.len().min(160)]));
            }
            if drop_resp {
                return Ok(unavailable("response dropped"));
            }
            Ok(warp::http::Response::builder().status(status).header("content-type", "application/json").body(warp::hyper::Body::from(bytes)).unwrap())
        }
    })
}

// ------------------------------------------------------------------ cluster

struct Node {
    raft: Arc<VarpulisRaft>,
    shared: SharedCoordinatorState,
}

struct Cluster {
    peers: Vec<String>,
    slots: Vec<Arc<Slot>>,
    nodes: Vec<Option<Node>>,
    faults: Arc<Mutex<Faults>>,
    dir: Option<tempfile::TempDir>,
    stop: Vec<tokio::sync::oneshot::Sender<()>>,
}

/// Serve the node's real `raft::routes` on a fresh loopback port.
fn serve_real_routes(raft: Arc<VarpulisRaft>) -> (String, tokio::sync::oneshot::Sender<()>) {
    let (tx, rx) = tokio::sync::oneshot::channel::<()>();
    let (addr, fut) = warp::serve(vc::raft::routes::raft_routes(raft, None)).bind_with_graceful_shutdown(([127, 0, 0, 1], 0), async move {
        let _ = rx.await;
    });
    tokio::spawn(fut);
    (format!("http://{}", addr), tx)
}

impl Cluster {
    async fn start_node(&mut self, i: usize) -> Result<(), String> {
        let id = (i + 1) as u64;
        let mut last_err = String::new();
        for _ in 0..20 {
            let r = match &self.dir {
                Some(d) => vc::raft::bootstrap_persistent(id, &self.peers, None, d.path().to_str().unwrap()).await,
                None => vc::raft::bootstrap(id, &self.peers, None).await,
            };
            match r {
                Ok(b) => {
                    *self.slots[i].backend.write().await = Some(serve_real_routes(b.raft.clone()));
                    self.nodes[i] = Some(Node { raft: b.raft, shared: b.shared_state });
                    return Ok(());
                }
                Err(e) => {
                    // the RocksDB lock of the stopped instance may be released a moment later
                    last_err = e.to_string();
                    tokio::time::sleep(Duration::from_millis(250)).await;
                }
            }
        }
        Err(last_err)
    }

    async fn stop_node(&mut self, i: usize) {
        if let Some((_, tx)) = self.slots[i].backend.write().await.take() {
            let _ = tx.send(());
        }
        if let Some(n) = self.nodes[i].take() {
            let _ = n.raft.shutdown().await;
            drop(n);
        }
    }

    /// Nodes that claim leadership right now, with their term.
    fn leaders(&self) -> Vec<(usize, u64)> {
        let mut v = vec![];
        for (i, n) in self.nodes.iter().enumerate() {
            if let Some(n) = n {
                let m = n.raft.metrics().borrow().clone();
                if m.state == openraft::ServerState::Leader {
                    v.push((i, m.current_term));
                }
            }
        }
        v
    }

    fn state(&self, i: usize) -> Option<J> {
        self.nodes[i].as_ref().map(|n| serde_json::to_value(&*n.shared.read().unwrap()).unwrap())
    }

    fn applied(&self, i: usize) -> Option<u64> {
        self.nodes[i].as_ref().and_then(|n| n.raft.metrics().borrow().last_applied.map(|l| l.index))
    }
}

fn write_cmd(key: &str) -> ClusterCommand {
    ClusterCommand::ConnectorCreated { name: key.to_string(), connector: vc::ClusterConnector { name: key.to_string(), connector_type: "console".into(), params: Default::default(), description: None } }
}

#[derive(Default)]
struct Run {
    /// key -> log index of the acknowledgement
    acked: BTreeMap<String, u64>,
    /// issued, outcome unknown (timeout) or refused
    unknown: BTreeSet<String>,
    refused: usize,
    writes_during_partition: usize,
    acked_during_fault: usize,
    leader_terms: BTreeSet<(usize, u64)>,
    restarts: usize,
    next_key: usize,
    samples: usize,
}

const WRITE_TIMEOUT: Duration = Duration::from_millis(2500);

async fn write_via(c: &Cluster, i: usize, run: &mut Run, faulty: bool) {
    let Some(n) = &c.nodes[i] else { return };
    let key = format!("k{:03}", run.next_key);
    run.next_key += 1;
    if faulty {
        run.writes_during_partition += 1;
    }
    match tokio::time::timeout(WRITE_TIMEOUT, n.raft.client_write(write_cmd(&key))).await {
        Ok(Ok(resp)) => {
            run.acked.insert(key, resp.log_id.index);
            if faulty {
                run.acked_during_fault += 1;
            }
        }
        Ok(Err(_)) => {
            // ForwardToLeader / Fatal: not acknowledged; the entry cannot have been proposed
            run.refused += 1;
            run.unknown.insert(key);
        }
        Err(_) => {
            run.unknown.insert(key);
        }
    }
}

/// Intermediate observation: a node's state must contain every acknowledged key whose log index is below
/// the highest acknowledged index it already shows (entries are applied in log order).
fn prefix_check(c: &Cluster, run: &mut Run, when: &str) -> Result<(), (String, String)> {
    for i in 0..3 {
        let Some(st) = c.state(i) else { continue };
        run.samples += 1;
        let have: BTreeSet<&String> = run.acked.keys().filter(|k| st["connectors"].get(k.as_str()).is_some()).collect();
        let top = have.iter().map(|k| run.acked[*k]).max();
        if let Some(top) = top {
            for (k, idx) in &run.acked {
                if *idx < top && !have.contains(k) {
                    return Err(("applied-state-skips-acknowledged-entry".into(), format!("{when}: node {} shows the write at log index {top} but not the acknowledged write {k} at index {idx}", i + 1)));
                }
            }
        }
    }
    Ok(())
}

static NOT_CONVERGED: AtomicUsize = AtomicUsize::new(0);
static RUN_SEQ: AtomicU64 = AtomicU64::new(0);

async fn run_cluster(case: &Case) -> Outcome {
    // addresses first: the membership stored by node 1 names them
    let faults = Arc::new(Mutex::new(Faults { rng: case.seed | 1, ..Default::default() }));
    let mut peers = vec![];
    let mut slots = vec![];
    let mut stop = vec![];
    for t in 0..3 {
        let slot = Arc::new(Slot { backend: tokio::sync::RwLock::new(None), client: reqwest::Client::builder().timeout(Duration::from_secs(5)).build().unwrap() });
        let (tx, rx) = tokio::sync::oneshot::channel::<()>();
        let (addr, fut) = warp::serve(proxy(t, faults.clone(), slot.clone())).bind_with_graceful_shutdown(([127, 0, 0, 1], 0), async move {
            let _ = rx.await;
        });
        tokio::spawn(fut);
        peers.push(format!("http://{}", addr));
        slots.push(slot);
        stop.push(tx);
    }
    let dir = if case.persistent {
        let shm = std::path::Path::new("/dev/shm");
        Some(if shm.is_dir() { tempfile::Builder::new().prefix("vh-c37-").tempdir_in(shm).unwrap() } else { tempfile::Builder::new().prefix("vh-c37-").tempdir().unwrap() })
    } else {
        None
    };
    let mut c = Cluster { peers, slots, nodes: vec![None, None, None], faults, dir, stop };
    let out = drive(&mut c, case).await;
    for i in 0..3 {
        c.stop_node(i).await;
    }
    for tx in c.stop.drain(..) {
        let _ = tx.send(());
    }
    out
}

async fn wait_leader(c: &Cluster, budget: Duration) -> Option<usize> {
    let t0 = Instant::now();
    while t0.elapsed() < budget {
        let l = c.leaders();
        if let Some((i, _)) = l.iter().max_by_key(|(_, t)| *t) {
            return Some(*i);
        }
        tokio::time::sleep(Duration::from_millis(100)).await;
    }
    None
}

async fn drive(c: &mut Cluster, case: &Case) -> Outcome {
    // followers first, node 1 (which initialises the membership) last
    for i in [1usize, 2, 0] {
        if let Err(e) = c.start_node(i).await {
            return Outcome::discard(format!("node start failed: {e}"));
        }
    }
    if wait_leader(c, Duration::from_secs(20)).await.is_none() {
        if std::env::var("VERIF_C37_DEBUG").is_ok() {
            for n in c.nodes.iter().flatten() {
                eprintln!("metrics: {:?}", n.raft.metrics().borrow().clone());
            }
        }
        NOT_CONVERGED.fetch_add(1, Ordering::Relaxed);
        return Outcome::discard("no initial leader within 20 s");
    }
    let mut run = Run::default();
    let mut faulty = false;
    let mut partitioned = false;
    // a first healthy write
    if let Some(l) = wait_leader(c, Duration::from_secs(5)).await {
        write_via(c, l, &mut run, false).await;
    }
    for (ai, act) in case.actions.iter().enumerate() {
        for l in c.leaders() {
            run.leader_terms.insert(l);
        }
        match act {
            Act::IsolateLeader | Act::Isolate { .. } => {
                let who = match act {
                    Act::Isolate { node } => *node as usize % 3,
                    _ => c.leaders().iter().max_by_key(|(_, t)| *t).map(|(i, _)| *i).unwrap_or(0),
                };
                let mut f = c.faults.lock().unwrap();
                f.blocked = [[false; 3]; 3];
                for o in 0..3 {
                    if o != who {
                        f.blocked[who][o] = true;
                        f.blocked[o][who] = true;
                    }
                }
                faulty = true;
                partitioned = true;
            }
            Act::Heal => {
                let mut f = c.faults.lock().unwrap();
                f.blocked = [[false; 3]; 3];
                f.drop_pct = 0;
                f.delay_ms = 0;
                faulty = false;
                partitioned = false;
            }
            Act::Drop { pct } => {
                c.faults.lock().unwrap().drop_pct = *pct;
                faulty = true;
            }
            Act::Delay { ms } => {
                c.faults.lock().unwrap().delay_ms = *ms;
                faulty = true;
            }
            Act::Restart { node } => {
                if case.persistent {
                    let i = *node as usize % 3;
                    c.stop_node(i).await;
                    tokio::time::sleep(Duration::from_millis(200)).await;
                    if let Err(e) = c.start_node(i).await {
                        return Outcome::discard(format!("node restart failed (store lock?): {e}"));
                    }
                    run.restarts += 1;
                }
            }
            Act::Write { n } => {
                for _ in 0..*n {
                    let ls = c.leaders();
                    if ls.is_empty() {
                        // nobody claims leadership: try node 1..3 in turn (answers ForwardToLeader or times out)
                        let i = run.next_key % 3;
                        write_via(c, i, &mut run, faulty).await;
                    }
                    for (i, _) in ls {
                        write_via(c, i, &mut run, partitioned || faulty).await;
                    }
                }
            }
            Act::Sleep { ms } => tokio::time::sleep(Duration::from_millis(*ms as u64)).await,
        }
        tokio::time::sleep(Duration::from_millis(150)).await;
        if let Err((sig, d)) = prefix_check(c, &mut run, &format!("after action #{ai} {:?}", act)) {
            return Outcome::fail(sig, d);
        }
    }
    for l in c.leaders() {
        run.leader_terms.insert(l);
    }

    // heal everything, then wait for convergence behind a barrier write
    {
        let mut f = c.faults.lock().unwrap();
        f.blocked = [[false; 3]; 3];
        f.drop_pct = 0;
        f.delay_ms = 0;
    }
    let t0 = Instant::now();
    let budget = Duration::from_secs(60);
    let mut barrier: Option<u64> = None;
    while t0.elapsed() < budget && barrier.is_none() {
        if let Some(l) = wait_leader(c, Duration::from_secs(2)).await {
            let key = format!("barrier{:03}", run.next_key);
            run.next_key += 1;
            if let Some(n) = &c.nodes[l] {
                if let Ok(Ok(resp)) = tokio::time::timeout(Duration::from_secs(4), n.raft.client_write(write_cmd(&key))).await {
                    run.acked.insert(key, resp.log_id.index);
                    barrier = Some(resp.log_id.index);
                }
            }
        }
    }
    let Some(barrier) = barrier else {
        NOT_CONVERGED.fetch_add(1, Ordering::Relaxed);
        return Outcome::discard("no acknowledged barrier write within 60 s after healing");
    };
    let need = run.acked.values().copied().max().unwrap_or(barrier).max(barrier);
    let mut converged = false;
    while t0.elapsed() < budget {
        let a: Vec<Option<u64>> = (0..3).map(|i| c.applied(i)).collect();
        if a.iter().all(|x| x.map(|v| v >= need).unwrap_or(false)) && a[0] == a[1] && a[1] == a[2] {
            // stable for a moment
            tokio::time::sleep(Duration::from_millis(300)).await;
            let b: Vec<Option<u64>> = (0..3).map(|i| c.applied(i)).collect();
            if a == b {
                converged = true;
                break;
            }
        }
        tokio::time::sleep(Duration::from_millis(200)).await;
    }
    for l in c.leaders() {
        run.leader_terms.insert(l);
    }
    if !converged {
        NOT_CONVERGED.fetch_add(1, Ordering::Relaxed);
        return Outcome::discard("applied positions did not become equal within 60 s after healing");
    }

    // oracle
    let states: Vec<J> = (0..3).map(|i| c.state(i).unwrap()).collect();
    for i in 1..3 {
        if states[i] != states[0] {
            let ks = |s: &J| s["connectors"].as_object().map(|m| m.keys().cloned().collect::<Vec<_>>()).unwrap_or_default();
            return Outcome::fail("states-differ-at-equal-applied-position", format!("all nodes applied index {:?}; node 1 connectors {:?}; node {} connectors {:?}", c.applied(0), ks(&states[0]), i + 1, ks(&states[i])));
        }
    }
    for (k, idx) in &run.acked {
        for (i, s) in states.iter().enumerate() {
            if s["connectors"].get(k.as_str()).is_none() {
                return Outcome::fail("acknowledged-write-lost", format!("write {k} was acknowledged at log index {idx} but is missing from node {}'s state (applied {:?}); acked {:?}", i + 1, c.applied(i), run.acked));
            }
        }
    }
    let f = c.faults.lock().unwrap();
    let leader_changes = run.leader_terms.iter().map(|(i, _)| *i).collect::<BTreeSet<_>>().len().saturating_sub(1);
    let term_changes = run.leader_terms.iter().map(|(_, t)| *t).collect::<BTreeSet<_>>().len().saturating_sub(1);
    let survived_unknown = run.unknown.iter().filter(|k| states[0]["connectors"].get(k.as_str()).is_some()).count();
    RUN_SEQ.fetch_add(1, Ordering::Relaxed);
    Outcome::pass()
        .nontrivial((leader_changes >= 1 || term_changes >= 1) && run.writes_during_partition >= 1)
        .class_if(leader_changes >= 1, "leader_moved_to_another_node")
        .class_if(term_changes >= 1, "leader_term_changed")
        .class_if(run.writes_during_partition >= 1, "write_issued_during_fault")
        .class_if(run.acked_during_fault >= 1, "write_acknowledged_during_fault")
        .class_if(!run.unknown.is_empty(), "write_unacknowledged")
        .class_if(survived_unknown > 0, "unacknowledged_write_committed_later")
        .class_if(run.restarts > 0, "node_restarted")
        .class_if(f.refused > 0, "rpc_refused_by_partition")
        .class_if(f.dropped > 0, "rpc_or_response_dropped")
        .class_if(case.persistent, "store:rocksdb")
        .class_if(!case.persistent, "store:memory")
        .class(format!("acked_writes:{}", match run.acked.len() { 0..=3 => "<=3", 4..=7 => "4-7", _ => ">=8" }))
}

// ------------------------------------------------------------------ runner glue

/// A failing run is not re-executed by the shrinker (each run takes tens of seconds and is not
/// reproducible): the first failure is remembered, identical re-evaluations get the same verdict, other
/// candidates are skipped.
static FIRST_FAILURE: Mutex<Option<(String, Outcome)>> = Mutex::new(None);

fn run_case(case: &Case) -> Outcome {
    let enc = serde_json::to_string(case).unwrap();
    if let Some((c, o)) = FIRST_FAILURE.lock().unwrap().as_ref() {
        return if *c == enc { o.clone() } else { Outcome::pass().class("skipped_after_failure") };
    }
    let rt = tokio::runtime::Builder::new_multi_thread().worker_threads(3).enable_all().build().unwrap();
    let out = rt.block_on(run_cluster(case));
    rt.shutdown_timeout(Duration::from_secs(2));
    if out.is_fail() {
        let mut g = FIRST_FAILURE.lock().unwrap();
        if g.is_none() {
            *g = Some((enc, out.clone()));
        }
    }
    out
}

fn main() {
    let check = Check::new("C37", "exploration");
    check.rule(
        "3-node clusters in one process (real openraft, real varpulis stores/state machine/HTTP transport/routes; 70% RocksDB-backed, else in-memory), every peer address is a harness proxy that refuses by (sender->target), drops requests/responses or delays; \
         schedule = 2-3 episodes of {isolate the current leader | isolate a node | drop 10-60% | delay | restart a RocksDB node} + writes of fresh keys through every node claiming leadership + 2.5-4.5 s wait (+ heal or more writes), <= 12 actions; \
         then heal, acknowledged barrier write, wait until all applied positions are equal (not within 60 s => discarded, reported as inconclusive when frequent). Oracle: the three states are JSON-equal, every acknowledged key is in every state, and every intermediate sample of a node's state is closed under the acknowledged log order. \
         non-trivial = leadership moved (node or term) and a write was issued while a fault was active.  Real timers: schedules are sampled, not reproducible.",
    );
    check.assume("sampled schedules with the compiled-in 1.5-3 s election timers; the TLA+ model named in the property's quantifier is not built");
    check.assume("restart = clean stop of Raft and store, reopen on the same directory (no torn writes); in-memory nodes are never restarted");
    check.explore("cluster", case, 12, 100, run_case);
    let n = NOT_CONVERGED.load(Ordering::Relaxed);
    let total = check.pick(12usize, 100usize);
    if n * 2 > total {
        check.inconclusive(format!("{n} of {total} cluster runs did not converge within the budget"));
    }
    check.finish();
}
