//! Canonical structural image of any `Serialize` value, independent of the JSON codec:
//! exact floats (all NaNs identified, -0.0 distinct from 0.0), exact 64-bit integers,
//! map/struct entries sorted by key (HashMap iteration order is not observable),
//! sequences in order.  Used as the equality oracle for checkpoints.

use serde::ser::{self, Serialize};
use std::fmt;

#[derive(Clone, Debug, PartialEq)]
pub enum Tree {
    Null,
    Bool(bool),
    Int(i128),
    /// bit pattern; every NaN is mapped to the same pattern
    Float(u64),
    Str(String),
    Seq(Vec<Tree>),
    /// sorted by the Debug text of the key
    Map(Vec<(Tree, Tree)>),
    Variant(String, Box<Tree>),
}

impl Tree {
    pub fn of<T: Serialize + ?Sized>(v: &T) -> Tree {
        v.serialize(Ser).expect("tree serializer never fails")
    }
    /// first difference as a path, for diagnostics
    pub fn diff(&self, o: &Tree) -> Option<String> {
        fn go(a: &Tree, b: &Tree, path: &mut Vec<String>) -> Option<String> {
            match (a, b) {
                (Tree::Seq(x), Tree::Seq(y)) => {
                    if x.len() != y.len() {
                        return Some(format!("{}: seq len {} vs {}", path.join("/"), x.len(), y.len()));
                    }
                    for (i, (p, q)) in x.iter().zip(y).enumerate() {
                        path.push(i.to_string());
                        if let Some(d) = go(p, q, path) {
                            return Some(d);
                        }
                        path.pop();
                    }
                    None
                }
                (Tree::Map(x), Tree::Map(y)) => {
                    if x.len() != y.len() {
                        return Some(format!("{}: map len {} vs {}", path.join("/"), x.len(), y.len()));
                    }
                    for ((k1, v1), (k2, v2)) in x.iter().zip(y) {
                        if k1 != k2 {
                            return Some(format!("{}: key {:?} vs {:?}", path.join("/"), k1, k2));
                        }
                        path.push(format!("{:?}", k1));
                        if let Some(d) = go(v1, v2, path) {
                            return Some(d);
                        }
                        path.pop();
                    }
                    None
                }
                (Tree::Variant(n1, v1), Tree::Variant(n2, v2)) if n1 == n2 => {
                    path.push(n1.clone());
                    let r = go(v1, v2, path);
                    path.pop();
                    r
                }
                _ => {
                    if a == b {
                        None
                    } else {
                        Some(format!("{}: {} vs {}", path.join("/"), a.show(), b.show()))
                    }
                }
            }
        }
        go(self, o, &mut vec![])
    }
    fn show(&self) -> String {
        match self {
            Tree::Float(b) => format!("Float({:?})", f64::from_bits(*b)),
            other => vh_common::truncate(&format!("{:?}", other), 120),
        }
    }
    /// class of a float leaf, if this is one
    pub fn walk(&self, f: &mut dyn FnMut(&Tree)) {
        f(self);
        match self {
            Tree::Seq(v) => v.iter().for_each(|t| t.walk(f)),
            Tree::Map(m) => m.iter().for_each(|(k, v)| {
                k.walk(f);
                v.walk(f)
            }),
            Tree::Variant(_, v) => v.walk(f),
            _ => {}
        }
    }
}

fn fbits(x: f64) -> u64 {
    if x.is_nan() {
        f64::NAN.to_bits()
    } else {
        x.to_bits()
    }
}

#[derive(Debug)]
pub struct Never(String);
impl fmt::Display for Never {
    fn fmt(&self, f: &mut fmt::Formatter<'_>) -> fmt::Result {
        f.write_str(&self.0)
    }
}
impl std::error::Error for Never {}
impl ser::Error for Never {
    fn custom<T: fmt::Display>(m: T) -> Self {
        Never(m.to_string())
    }
}

pub struct Ser;
pub struct SeqB(Vec<Tree>, Option<String>);
pub struct MapB(Vec<(Tree, Tree)>, Option<Tree>, Option<String>);

fn finish_map(mut m: Vec<(Tree, Tree)>) -> Tree {
    m.sort_by_cached_key(|(k, _)| format!("{:?}", k));
    Tree::Map(m)
}

impl ser::Serializer for Ser {
    type Ok = Tree;
    type Error = Never;
    type SerializeSeq = SeqB;
    type SerializeTuple = SeqB;
    type SerializeTupleStruct = SeqB;
    type SerializeTupleVariant = SeqB;
    type SerializeMap = MapB;
    type SerializeStruct = MapB;
    type SerializeStructVariant = MapB;

    /// not a textual format: values that have a special human-readable encoding (non-finite
    /// floats of `SerializableValue`) must show up here as themselves
    fn is_human_readable(&self) -> bool {
        false
    }
    fn serialize_bool(self, v: bool) -> Result<Tree, Never> {
        Ok(Tree::Bool(v))
    }
    fn serialize_i8(self, v: i8) -> Result<Tree, Never> {
        Ok(Tree::Int(v as i128))
    }
    fn serialize_i16(self, v: i16) -> Result<Tree, Never> {
        Ok(Tree::Int(v as i128))
    }
    fn serialize_i32(self, v: i32) -> Result<Tree, Never> {
        Ok(Tree::Int(v as i128))
    }
    fn serialize_i64(self, v: i64) -> Result<Tree, Never> {
        Ok(Tree::Int(v as i128))
    }
    fn serialize_u8(self, v: u8) -> Result<Tree, Never> {
        Ok(Tree::Int(v as i128))
    }
    fn serialize_u16(self, v: u16) -> Result<Tree, Never> {
        Ok(Tree::Int(v as i128))
    }
    fn serialize_u32(self, v: u32) -> Result<Tree, Never> {
        Ok(Tree::Int(v as i128))
    }
    fn serialize_u64(self, v: u64) -> Result<Tree, Never> {
        Ok(Tree::Int(v as i128))
    }
    fn serialize_f32(self, v: f32) -> Result<Tree, Never> {
        Ok(Tree::Float(fbits(v as f64)))
    }
    fn serialize_f64(self, v: f64) -> Result<Tree, Never> {
        Ok(Tree::Float(fbits(v)))
    }
    fn serialize_char(self, v: char) -> Result<Tree, Never> {
        Ok(Tree::Str(v.to_string()))
    }
    fn serialize_str(self, v: &str) -> Result<Tree, Never> {
        Ok(Tree::Str(v.to_string()))
    }
    fn serialize_bytes(self, v: &[u8]) -> Result<Tree, Never> {
        Ok(Tree::Seq(v.iter().map(|b| Tree::Int(*b as i128)).collect()))
    }
    fn serialize_none(self) -> Result<Tree, Never> {
        Ok(Tree::Null)
    }
    fn serialize_some<T: Serialize + ?Sized>(self, v: &T) -> Result<Tree, Never> {
        // Option<T> is transparent in the JSON format too; no nested options occur in checkpoints
        v.serialize(Ser)
    }
    fn serialize_unit(self) -> Result<Tree, Never> {
        Ok(Tree::Null)
    }
    fn serialize_unit_struct(self, _: &'static str) -> Result<Tree, Never> {
        Ok(Tree::Null)
    }
    fn serialize_unit_variant(self, _: &'static str, _: u32, variant: &'static str) -> Result<Tree, Never> {
        Ok(Tree::Variant(variant.to_string(), Box::new(Tree::Null)))
    }
    fn serialize_newtype_struct<T: Serialize + ?Sized>(self, _: &'static str, v: &T) -> Result<Tree, Never> {
        v.serialize(Ser)
    }
    fn serialize_newtype_variant<T: Serialize + ?Sized>(self, _: &'static str, _: u32, variant: &'static str, v: &T) -> Result<Tree, Never> {
        Ok(Tree::Variant(variant.to_string(), Box::new(v.serialize(Ser)?)))
    }
    fn serialize_seq(self, _: Option<usize>) -> Result<SeqB, Never> {
        Ok(SeqB(vec![], None))
    }
    fn serialize_tuple(self, _: usize) -> Result<SeqB, Never> {
        Ok(SeqB(vec![], None))
    }
    fn serialize_tuple_struct(self, _: &'static str, _: usize) -> Result<SeqB, Never> {
        Ok(SeqB(vec![], None))
    }
    fn serialize_tuple_variant(self, _: &'static str, _: u32, variant: &'static str, _: usize) -> Result<SeqB, Never> {
        Ok(SeqB(vec![], Some(variant.to_string())))
    }
    fn serialize_map(self, _: Option<usize>) -> Result<MapB, Never> {
        Ok(MapB(vec![], None, None))
    }
    fn serialize_struct(self, _: &'static str, _: usize) -> Result<MapB, Never> {
        Ok(MapB(vec![], None, None))
    }
    fn serialize_struct_variant(self, _: &'static str, _: u32, variant: &'static str, _: usize) -> Result<MapB, Never> {
        Ok(MapB(vec![], None, Some(variant.to_string())))
    }
}

impl SeqB {
    fn done(self) -> Tree {
        let t = Tree::Seq(self.0);
        match self.1 {
            Some(v) => Tree::Variant(v, Box::new(t)),
            None => t,
        }
    }
}
impl ser::SerializeSeq for SeqB {
    type Ok = Tree;
    type Error = Never;
    fn serialize_element<T: Serialize + ?Sized>(&mut self, v: &T) -> Result<(), Never> {
        self.0.push(v.serialize(Ser)?);
        Ok(())
    }
    fn end(self) -> Result<Tree, Never> {
        Ok(self.done())
    }
}
impl ser::SerializeTuple for SeqB {
    type Ok = Tree;
    type Error = Never;
    fn serialize_element<T: Serialize + ?Sized>(&mut self, v: &T) -> Result<(), Never> {
        self.0.push(v.serialize(Ser)?);
        Ok(())
    }
    fn end(self) -> Result<Tree, Never> {
        Ok(self.done())
    }
}
impl ser::SerializeTupleStruct for SeqB {
    type Ok = Tree;
    type Error = Never;
    fn serialize_field<T: Serialize + ?Sized>(&mut self, v: &T) -> Result<(), Never> {
        self.0.push(v.serialize(Ser)?);
        Ok(())
    }
    fn end(self) -> Result<Tree, Never> {
        Ok(self.done())
    }
}
impl ser::SerializeTupleVariant for SeqB {
    type Ok = Tree;
    type Error = Never;
    fn serialize_field<T: Serialize + ?Sized>(&mut self, v: &T) -> Result<(), Never> {
        self.0.push(v.serialize(Ser)?);
        Ok(())
    }
    fn end(self) -> Result<Tree, Never> {
        Ok(self.done())
    }
}
impl MapB {
    fn done(self) -> Tree {
        let t = finish_map(self.0);
        match self.2 {
            Some(v) => Tree::Variant(v, Box::new(t)),
            None => t,
        }
    }
}
impl ser::SerializeMap for MapB {
    type Ok = Tree;
    type Error = Never;
    fn serialize_key<T: Serialize + ?Sized>(&mut self, k: &T) -> Result<(), Never> {
        self.1 = Some(k.serialize(Ser)?);
        Ok(())
    }
    fn serialize_value<T: Serialize + ?Sized>(&mut self, v: &T) -> Result<(), Never> {
        let k = self.1.take().unwrap_or(Tree::Null);
        self.0.push((k, v.serialize(Ser)?));
        Ok(())
    }
    fn end(self) -> Result<Tree, Never> {
        Ok(self.done())
    }
}
impl ser::SerializeStruct for MapB {
    type Ok = Tree;
    type Error = Never;
    fn serialize_field<T: Serialize + ?Sized>(&mut self, k: &'static str, v: &T) -> Result<(), Never> {
        self.0.push((Tree::Str(k.to_string()), v.serialize(Ser)?));
        Ok(())
    }
    fn end(self) -> Result<Tree, Never> {
        Ok(self.done())
    }
}
impl ser::SerializeStructVariant for MapB {
    type Ok = Tree;
    type Error = Never;
    fn serialize_field<T: Serialize + ?Sized>(&mut self, k: &'static str, v: &T) -> Result<(), Never> {
        self.0.push((Tree::Str(k.to_string()), v.serialize(Ser)?));
        Ok(())
    }
    fn end(self) -> Result<Tree, Never> {
        Ok(self.done())
    }
}
