//! C20 Checkpoints survive serialisation unchanged.
//!
//! Round trip through `codec::serialize(.., Json)` / `codec::deserialize` (default feature
//! set, i.e. the JSON codec + the format auto-detection incl. leading whitespace) of
//!  * `engine`  – checkpoints taken from real engines that ran small random programs,
//!  * `synth`   – synthesised `EngineCheckpoint` / `Checkpoint` values,
//!  * `events`  – runtime events -> `SerializableEvent` -> checkpoint -> bytes -> events,
//!  * `mutate`  – byte-mutated encodings (no panic; accepted bytes re-encode stably).
//! Equality oracle: `tree::Tree`, a canonical image built by an own serde serializer that is
//! independent of the JSON codec (exact ints/floats, NaN = NaN, map order ignored).
mod tree;

use proptest::prelude::*;
use serde::{Deserialize, Serialize};
use std::collections::{BTreeSet, HashMap};
use tree::Tree;
use varpulis_runtime::codec::{self, CheckpointFormat};
use varpulis_runtime::event::Event;
use varpulis_runtime::persistence::*;
use vh_common::{guard, truncate, Check, Outcome};
use vh_gen::{engine::Eng, Ev, V};

// ------------------------------------------------------------------ models

/// input event with a sub-millisecond timestamp component
#[derive(Clone, Debug, Serialize, Deserialize)]
struct Ev20 {
    ev: Ev,
    /// nanoseconds added to the millisecond timestamp (0..1_000_000)
    sub_ns: u32,
}

impl Ev20 {
    fn to_event(&self) -> Event {
        let mut e = self.ev.to_event();
        e.timestamp += chrono::Duration::nanoseconds(self.sub_ns as i64);
        e
    }
}

/// order-insensitive identity of a runtime event: type, timestamp, fields as a sorted map
type EvKey = (String, i64, Vec<(String, String)>);

fn ev_key(e: &Event, ms_only: bool) -> EvKey {
    let ts = if ms_only { e.timestamp.timestamp_millis() } else { e.timestamp.timestamp_nanos_opt().unwrap_or(i64::MIN) };
    let mut f: Vec<(String, String)> = e.data.iter().map(|(k, v)| (k.to_string(), V::from_value(v).canon())).collect();
    f.sort();
    (e.event_type.to_string(), ts, f)
}

fn v_to_sv(v: &V) -> SerializableValue {
    match v {
        V::Null => SerializableValue::Null,
        V::Bool(b) => SerializableValue::Bool(*b),
        V::Int(i) => SerializableValue::Int(*i),
        V::Float(f) => SerializableValue::Float(f.0),
        V::Str(s) => SerializableValue::String(s.clone()),
        V::Ts(t) => SerializableValue::Timestamp(*t),
        V::Dur(d) => SerializableValue::Duration(*d),
        V::Arr(a) => SerializableValue::Array(a.iter().map(v_to_sv).collect()),
        V::Map(m) => SerializableValue::Map(m.iter().map(|(k, v)| (k.clone(), v_to_sv(v))).collect()),
    }
}

// ------------------------------------------------------------------ the round trip under test

const WS: [&str; 6] = ["", " ", "\n", "\t\r\n ", "  \n\n", "\r"];

/// classes of interesting content in a canonical tree
#[derive(Default)]
struct Content {
    events: usize,
    nonfinite: usize,
    neg_zero: usize,
    nested: usize,
    unicode: usize,
    big_int: usize,
}

fn content(t: &Tree) -> Content {
    let mut c = Content::default();
    t.walk(&mut |n| match n {
        Tree::Map(m) if m.iter().any(|(k, _)| *k == Tree::Str("event_type".into())) => c.events += 1,
        Tree::Variant(name, inner) => match (name.as_str(), inner.as_ref()) {
            ("Float", Tree::Float(b)) => {
                let f = f64::from_bits(*b);
                if !f.is_finite() {
                    c.nonfinite += 1;
                } else if f == 0.0 && f.is_sign_negative() {
                    c.neg_zero += 1;
                }
            }
            ("Array", _) | ("Map", _) => c.nested += 1,
            ("Int", Tree::Int(i)) if i.unsigned_abs() > (1u128 << 53) => c.big_int += 1,
            _ => {}
        },
        Tree::Str(s) if !s.is_ascii() => c.unicode += 1,
        _ => {}
    });
    c
}

/// what a value of the failing leaf looks like (for specific signatures)
fn float_class(t: &Tree) -> &'static str {
    let c = content(t);
    if c.nonfinite > 0 {
        "nonfinite-float"
    } else {
        "other"
    }
}

/// parse "...: Float(a) vs Float(b)" produced by Tree::diff
fn float_pair(d: &str) -> Option<(f64, f64)> {
    let (l, r) = d.rsplit_once(" vs ")?;
    let a = l.rsplit_once("Float(")?.1.strip_suffix(')')?.parse().ok()?;
    let b = r.strip_prefix("Float(")?.strip_suffix(')')?.parse().ok()?;
    Some((a, b))
}

/// serialize -> (prefix whitespace) -> deserialize -> compare; returns the decoded value
fn round_trip<T: Serialize + serde::de::DeserializeOwned>(what: &str, v: &T, ws: u8) -> Result<(T, Tree), Outcome> {
    let before = Tree::of(v);
    let bytes = match codec::serialize(v, CheckpointFormat::active()) {
        Ok(b) => b,
        Err(e) => return Err(Outcome::fail(format!("{}:serialize-error:{}", what, float_class(&before)), format!("{}", e))),
    };
    if CheckpointFormat::active() != CheckpointFormat::Json {
        return Err(Outcome::fail("harness:not-json-codec", "binary-codec feature is on; this check is for the default feature set"));
    }
    let mut data = WS[ws as usize % WS.len()].as_bytes().to_vec();
    data.extend_from_slice(&bytes);
    let back: T = match codec::deserialize(&data) {
        Ok(b) => b,
        Err(e) => {
            return Err(Outcome::fail(
                format!("{}:deserialize-error:{}", what, float_class(&before)),
                format!("{} ; encoded = {}", e, truncate(&String::from_utf8_lossy(&data), 600)),
            ))
        }
    };
    let after = Tree::of(&back);
    if let Some(d) = before.diff(&after) {
        if let Some((a, b)) = float_pair(&d) {
            if a.is_finite() && b.is_finite() && ((a - b) / a).abs() < 1e-14 {
                return Err(Outcome::fail("json:finite-float-changes-in-last-digits", format!("{} ({})", d, what)));
            }
        }
        let kind = if d.contains("Float(") { "float" } else if d.contains("timestamp") { "timestamp" } else { "structure" };
        return Err(Outcome::fail(format!("{}:not-equal-after-round-trip:{}", what, kind), d));
    }
    // re-serialise: must succeed and denote the same JSON document (HashMap order aside)
    let bytes2 = match codec::serialize(&back, CheckpointFormat::active()) {
        Ok(b) => b,
        Err(e) => return Err(Outcome::fail(format!("{}:reserialize-error", what), format!("{}", e))),
    };
    let j1: Result<serde_json::Value, _> = serde_json::from_slice(&bytes);
    let j2: Result<serde_json::Value, _> = serde_json::from_slice(&bytes2);
    match (j1, j2) {
        (Ok(a), Ok(b)) if a == b => {}
        (Ok(_), Ok(_)) => return Err(Outcome::fail(format!("{}:reserialized-document-differs", what), truncate(&String::from_utf8_lossy(&bytes2), 400))),
        _ => return Err(Outcome::fail(format!("{}:encoded-bytes-are-not-json", what), truncate(&String::from_utf8_lossy(&bytes), 400))),
    }
    Ok((back, after))
}

fn classify(mut o: Outcome, c: &Content, ws: u8) -> Outcome {
    o = o
        .class_if(c.events > 0, "has_events")
        .class_if(c.nonfinite > 0, "nonfinite_float")
        .class_if(c.neg_zero > 0, "neg_zero")
        .class_if(c.nested > 0, "nested_value")
        .class_if(c.unicode > 0, "unicode")
        .class_if(c.big_int > 0, "int_beyond_2^53")
        .class_if(ws as usize % WS.len() != 0, "leading_whitespace");
    o
}

// ------------------------------------------------------------------ sub-check `engine`

#[derive(Clone, Debug, Serialize, Deserialize)]
enum StreamSpec {
    Count { n: u8 },
    Tumbling { secs: u8 },
    Sliding { size: u8, slide: u8 },
    SlidingCount { n: u8, slide: u8 },
    Session { gap: u8 },
    PartCount { n: u8 },
    PartTumbling { secs: u8 },
    PartSession { gap: u8 },
    Seq { within: u8 },
    SeqKleene { within: u8 },
    SeqPart { within: u8 },
    Join { secs: u8 },
    Distinct,
    Limit { n: u8 },
    Watermark { secs: u8 },
}

impl StreamSpec {
    fn render(&self, i: usize, src: &str) -> String {
        let agg = ".aggregate(c: count())\n    .emit(n: c)";
        match self {
            StreamSpec::Count { n } => format!("stream S{i} = {src}\n    .window({n})\n    {agg}\n"),
            StreamSpec::Tumbling { secs } => format!("stream S{i} = {src}\n    .window({secs}s)\n    {agg}\n"),
            StreamSpec::Sliding { size, slide } => format!("stream S{i} = {src}\n    .window({size}s, sliding: {slide}s)\n    {agg}\n"),
            StreamSpec::SlidingCount { n, slide } => format!("stream S{i} = {src}\n    .window({n}, sliding: {slide})\n    {agg}\n"),
            StreamSpec::Session { gap } => format!("stream S{i} = {src}\n    .window(session: {gap}s)\n    {agg}\n"),
            StreamSpec::PartCount { n } => format!("stream S{i} = {src}\n    .partition_by(k)\n    .window({n})\n    {agg}\n"),
            StreamSpec::PartTumbling { secs } => format!("stream S{i} = {src}\n    .partition_by(k)\n    .window({secs}s)\n    {agg}\n"),
            StreamSpec::PartSession { gap } => format!("stream S{i} = {src}\n    .partition_by(k)\n    .window(session: {gap}s)\n    {agg}\n"),
            StreamSpec::Seq { within } => format!("stream S{i} = A as a\n    -> B as b\n    -> C as c\n    .within({within}s)\n    .emit(ida: a.id, idc: c.id)\n"),
            StreamSpec::SeqKleene { within } => format!("stream S{i} = A as a\n    -> all B as b\n    -> C as c\n    .within({within}s)\n    .emit(ida: a.id, idc: c.id)\n"),
            StreamSpec::SeqPart { within } => format!("stream S{i} = A as a\n    -> B as b\n    -> C as c\n    .within({within}s)\n    .partition_by(k)\n    .emit(ida: a.id, idc: c.id)\n"),
            StreamSpec::Join { secs } => format!("stream S{i} = join(A, B)\n    .on(A.k == B.k)\n    .window({secs}s)\n    .select(k: A.k, ia: A.id, ib: B.id)\n    .emit(k: k, ia: ia, ib: ib)\n"),
            StreamSpec::Distinct => format!("stream S{i} = {src}\n    .distinct(k)\n    .emit(k: k)\n"),
            StreamSpec::Limit { n } => format!("stream S{i} = {src}\n    .limit({n})\n    .emit(id: id)\n"),
            StreamSpec::Watermark { secs } => format!("stream S{i} = {src}\n    .watermark(out_of_order: {secs}s)\n    .window({secs}s)\n    {agg}\n"),
        }
    }
    fn tag(&self) -> &'static str {
        match self {
            StreamSpec::Count { .. } => "count",
            StreamSpec::Tumbling { .. } => "tumbling",
            StreamSpec::Sliding { .. } => "sliding",
            StreamSpec::SlidingCount { .. } => "sliding_count",
            StreamSpec::Session { .. } => "session",
            StreamSpec::PartCount { .. } => "part_count",
            StreamSpec::PartTumbling { .. } => "part_tumbling",
            StreamSpec::PartSession { .. } => "part_session",
            StreamSpec::Seq { .. } => "seq",
            StreamSpec::SeqKleene { .. } => "seq_kleene",
            StreamSpec::SeqPart { .. } => "seq_part",
            StreamSpec::Join { .. } => "join",
            StreamSpec::Distinct => "distinct",
            StreamSpec::Limit { .. } => "limit",
            StreamSpec::Watermark { .. } => "watermark",
        }
    }
}

#[derive(Clone, Debug, Serialize, Deserialize)]
struct EngineCase {
    /// (stream, source event type index)
    streams: Vec<(StreamSpec, u8)>,
    /// `var vN: <type> = <literal>` declarations (index into VAR_POOL)
    vars: Vec<u8>,
    events: Vec<Ev20>,
    ws: u8,
    /// judge restored event timestamps at full (nanosecond) precision.  Never set by the
    /// generator since the recorded finding `events:timestamp-truncated-to-ms`; the
    /// committed replay sets it.
    #[serde(default)]
    strict_ts: bool,
}

const TYPES: [&str; 3] = ["A", "B", "C"];
const VAR_POOL: [&str; 6] = ["int = 7", "float = 2.5", "str = \"héllo\"", "bool = true", "int = -9223372036854775807", "float = 0.1"];

fn spec_strategy() -> impl Strategy<Value = StreamSpec> {
    prop_oneof![
        (2u8..6).prop_map(|n| StreamSpec::Count { n }),
        (2u8..20).prop_map(|secs| StreamSpec::Tumbling { secs }),
        (4u8..20, 1u8..4).prop_map(|(size, slide)| StreamSpec::Sliding { size, slide }),
        (3u8..7, 1u8..3).prop_map(|(n, slide)| StreamSpec::SlidingCount { n, slide }),
        (2u8..10).prop_map(|gap| StreamSpec::Session { gap }),
        (2u8..5).prop_map(|n| StreamSpec::PartCount { n }),
        (2u8..20).prop_map(|secs| StreamSpec::PartTumbling { secs }),
        (2u8..10).prop_map(|gap| StreamSpec::PartSession { gap }),
        (5u8..60).prop_map(|within| StreamSpec::Seq { within }),
        (5u8..60).prop_map(|within| StreamSpec::SeqKleene { within }),
        (5u8..60).prop_map(|within| StreamSpec::SeqPart { within }),
        (5u8..60).prop_map(|secs| StreamSpec::Join { secs }),
        Just(StreamSpec::Distinct),
        (1u8..5).prop_map(|n| StreamSpec::Limit { n }),
        (2u8..10).prop_map(|secs| StreamSpec::Watermark { secs }),
    ]
}

/// field values: biased to what the property names (non-finite floats, nesting, unicode)
fn field_value() -> impl Strategy<Value = V> {
    prop_oneof![
        3 => proptest::sample::select(vec![f64::NAN, f64::from_bits(0xFFF8_0000_0000_0000), f64::from_bits(0xFFF0_0000_0000_0001), f64::from_bits(0x7FF0_0000_0000_0001), f64::INFINITY, f64::NEG_INFINITY, -0.0, 0.0, 1e300, 5e-324, 0.1]).prop_map(V::f),
        3 => vh_gen::value(3),
        2 => vh_gen::scalar_with_time(),
        1 => vh_gen::any_string().prop_map(V::Str),
    ]
}

fn sub_ns() -> impl Strategy<Value = u32> {
    prop_oneof![2 => Just(0u32), 1 => Just(999_999u32), 1 => Just(1u32), 2 => 0u32..1_000_000]
}

fn events_strategy(max: usize) -> impl Strategy<Value = Vec<Ev20>> {
    proptest::collection::vec((0usize..3, 0i64..3000, sub_ns(), proptest::sample::select(vec!["a", "b", "é", ""]), field_value(), proptest::option::of(field_value())), 1..max).prop_map(|raw| {
        let mut t = 0i64;
        raw.into_iter()
            .enumerate()
            .map(|(i, (ty, dt, sub_ns, k, x, y))| {
                t += dt;
                let mut ev = Ev::new(TYPES[ty], t).with("id", V::Int(i as i64)).with("k", V::s(k)).with("x", x);
                if let Some(y) = y {
                    ev = ev.with("y̆", y);
                }
                Ev20 { ev, sub_ns }
            })
            .collect()
    })
}

fn engine_strategy() -> impl Strategy<Value = EngineCase> {
    (proptest::collection::vec((spec_strategy(), 0u8..3), 1..4), proptest::collection::vec(0u8..6, 0..3), events_strategy(14), 0u8..6).prop_map(|(streams, vars, events, ws)| EngineCase { streams, vars, events, ws, strict_ts: false })
}

fn render(case: &EngineCase) -> String {
    let mut src = String::new();
    for (i, v) in case.vars.iter().enumerate() {
        src.push_str(&format!("var v{}: {}\n", i, VAR_POOL[*v as usize % VAR_POOL.len()]));
    }
    for (i, (s, t)) in case.streams.iter().enumerate() {
        src.push('\n');
        src.push_str(&s.render(i, TYPES[*t as usize % 3]));
    }
    src
}

/// every stored event of an engine checkpoint, with where it sits
fn stored_events(cp: &EngineCheckpoint) -> Vec<(&'static str, &SerializableEvent)> {
    let mut out = vec![];
    for w in cp.window_states.values() {
        out.extend(w.events.iter().map(|e| ("window", e)));
        for p in w.partitions.values() {
            out.extend(p.events.iter().map(|e| ("partitioned_window", e)));
        }
    }
    for s in cp.sase_states.values() {
        for r in s.active_runs.iter().chain(s.partitioned_runs.values().flatten()) {
            out.extend(r.stack.iter().map(|e| ("sase_stack", &e.event)));
            out.extend(r.captured.values().map(|e| ("sase_captured", e)));
            if let Some(k) = &r.kleene_events {
                out.extend(k.iter().map(|e| ("sase_kleene", e)));
            }
        }
    }
    for j in cp.join_states.values() {
        for per_key in j.buffers.values() {
            for evs in per_key.values() {
                out.extend(evs.iter().map(|(_, e)| ("join_buffer", e)));
            }
        }
    }
    out
}

fn check_engine(case: &EngineCase) -> Outcome {
    let src = render(case);
    let mut eng = match Eng::new(&src) {
        Ok(e) => e,
        Err(e) => return Outcome::discard(format!("program rejected: {}", truncate(&e, 60))),
    };
    let inputs: Vec<Event> = case.events.iter().map(|e| e.to_event()).collect();
    for e in &inputs {
        if let Err(err) = eng.process_event(e.clone()) {
            return Outcome::discard(format!("process error: {}", truncate(&err, 60)));
        }
    }
    let cp = eng.engine.create_checkpoint();
    let (back, tree) = match round_trip("engine", &cp, case.ws) {
        Ok(x) => x,
        Err(o) => return o,
    };
    // restored events must be input events (stored ones are raw source events in all templates)
    let has_subms = case.events.iter().any(|e| e.sub_ns != 0);
    let ms_only = has_subms && !case.strict_ts;
    let originals: BTreeSet<EvKey> = inputs.iter().map(|e| ev_key(e, ms_only)).collect();
    let stored = stored_events(&back);
    let mut places = BTreeSet::new();
    for (place, se) in &stored {
        places.insert(*place);
        let restored: Event = Event::from((*se).clone());
        let k = ev_key(&restored, ms_only);
        if !originals.contains(&k) {
            // is it only the timestamp?
            let same_but_ts = inputs.iter().any(|i| {
                let ik = ev_key(i, true);
                let rk = ev_key(&restored, true);
                ik == rk
            });
            if same_but_ts {
                return Outcome::fail("events:timestamp-truncated-to-ms", format!("restored {} event {:?} equals an input event only after truncating the input timestamp to milliseconds", place, k));
            }
            return Outcome::fail(format!("engine:restored-event-not-an-input:{}", place), format!("{:?}", k));
        }
    }
    let c = content(&tree);
    let mut o = Outcome::pass().nontrivial(c.events > 0 && (c.nonfinite > 0 || c.nested > 0));
    o = classify(o, &c, case.ws);
    for (s, _) in &case.streams {
        o = o.class(format!("op:{}", s.tag()));
    }
    for p in places {
        o = o.class(format!("events_in:{}", p));
    }
    o.class_if(!cp.variables.is_empty(), "has_variables")
        .class_if(cp.watermark_state.is_some(), "has_watermark")
        .class_if(!cp.distinct_states.is_empty(), "has_distinct")
        .class_if(!cp.limit_states.is_empty(), "has_limit")
        .class_if(ms_only, "excluded:sub-ms-timestamp")
}

// ------------------------------------------------------------------ sub-check `events`

#[derive(Clone, Debug, Serialize, Deserialize)]
struct EventsCase {
    events: Vec<Ev20>,
    ws: u8,
    #[serde(default)]
    strict_ts: bool,
}

fn check_events(case: &EventsCase) -> Outcome {
    let inputs: Vec<Event> = case.events.iter().map(|e| e.to_event()).collect();
    let ses: Vec<SerializableEvent> = inputs.iter().map(SerializableEvent::from).collect();
    let mut window_states = HashMap::new();
    window_states.insert(
        "w".to_string(),
        WindowCheckpoint { events: ses, window_start_ms: None, last_emit_ms: None, partitions: HashMap::new() },
    );
    let cp = EngineCheckpoint {
        version: CHECKPOINT_VERSION,
        window_states,
        sase_states: HashMap::new(),
        join_states: HashMap::new(),
        variables: HashMap::new(),
        events_processed: inputs.len() as u64,
        output_events_emitted: 0,
        watermark_state: None,
        distinct_states: HashMap::new(),
        limit_states: HashMap::new(),
    };
    let (back, tree) = match round_trip("events", &cp, case.ws) {
        Ok(x) => x,
        Err(o) => return o,
    };
    let restored: Vec<Event> = back.window_states["w"].events.iter().cloned().map(Event::from).collect();
    if restored.len() != inputs.len() {
        return Outcome::fail("events:count-differs", format!("{} vs {}", restored.len(), inputs.len()));
    }
    let mut excluded = false;
    for ((orig, rest), e20) in inputs.iter().zip(&restored).zip(&case.events) {
        let ms_only = e20.sub_ns != 0 && !case.strict_ts;
        excluded |= ms_only;
        let (a, b) = (ev_key(orig, ms_only), ev_key(rest, ms_only));
        if a != b {
            if a.0 == b.0 && a.2 == b.2 {
                if ev_key(orig, true) == ev_key(rest, true) {
                    return Outcome::fail("events:timestamp-truncated-to-ms", format!("original {} ns, restored {} ns", a.1, b.1));
                }
                return Outcome::fail("events:timestamp-differs", format!("original {} restored {}", a.1, b.1));
            }
            return Outcome::fail("events:restored-event-differs", format!("{:?} vs {:?}", a, b));
        }
    }
    let c = content(&tree);
    classify(Outcome::pass().nontrivial(c.nonfinite > 0 || c.nested > 0), &c, case.ws)
        .class_if(excluded, "excluded:sub-ms-timestamp")
        .class_if(case.events.iter().any(|e| e.sub_ns != 0), "sub_ms_timestamp")
}

// ------------------------------------------------------------------ sub-check `synth`

#[derive(Clone, Debug, Serialize, Deserialize)]
struct SEv {
    ty: String,
    ts_ms: i64,
    fields: Vec<(String, V)>,
}

impl SEv {
    fn to_se(&self) -> SerializableEvent {
        SerializableEvent { event_type: self.ty.clone(), timestamp_ms: self.ts_ms, fields: self.fields.iter().map(|(k, v)| (k.clone(), v_to_sv(v))).collect() }
    }
}

#[derive(Clone, Debug, Serialize, Deserialize)]
struct SRun {
    state: usize,
    stack: Vec<(SEv, Option<String>)>,
    captured: Vec<(String, SEv)>,
    started: Option<i64>,
    deadline: Option<i64>,
    key: Option<V>,
    invalidated: bool,
    pending: usize,
    kleene: Option<Vec<SEv>>,
}

#[derive(Clone, Debug, Serialize, Deserialize)]
struct SWin {
    events: Vec<SEv>,
    start: Option<i64>,
    last_emit: Option<i64>,
    parts: Vec<(String, Vec<SEv>, Option<i64>)>,
}

#[derive(Clone, Debug, Serialize, Deserialize)]
struct SynthCase {
    windows: Vec<(String, SWin)>,
    sase: Vec<(String, Vec<SRun>, Vec<(String, Vec<SRun>)>, Option<i64>, [u64; 4])>,
    joins: Vec<(String, Vec<(String, Vec<(String, Vec<(i64, SEv)>)>)>, i64)>,
    vars: Vec<(String, V)>,
    counters: (u64, u64),
    watermark: Option<(Vec<(String, Option<i64>, Option<i64>, i64)>, Option<i64>)>,
    distinct: Vec<(String, Vec<String>)>,
    limit: Vec<(String, usize, usize)>,
    /// wrap into a `Checkpoint` (context_states + legacy window/pattern states + metadata)
    outer: Option<(u64, i64, Vec<(String, String)>, Vec<(String, Vec<SEv>)>)>,
    version: u32,
    ws: u8,
}

fn any_i64ish() -> impl Strategy<Value = i64> {
    prop_oneof![3 => 1_600_000_000_000i64..1_800_000_000_000, 1 => vh_gen::any_int()]
}

fn name() -> impl Strategy<Value = String> {
    prop_oneof![3 => proptest::sample::select(vec!["S0", "S1", "Out", "ströme", "a:b", "", "x y", "日本"]).prop_map(|s| s.to_string()), 1 => vh_gen::any_string()]
}

fn sev() -> impl Strategy<Value = SEv> {
    (name(), any_i64ish(), proptest::collection::vec((name(), field_value()), 0..4)).prop_map(|(ty, ts_ms, raw)| {
        // `fields` is a HashMap in SerializableEvent: keep keys distinct so the model is exact
        let mut seen = BTreeSet::new();
        let fields = raw.into_iter().filter(|(k, _)| seen.insert(k.clone())).collect();
        SEv { ty, ts_ms, fields }
    })
}

fn srun() -> impl Strategy<Value = SRun> {
    (
        0usize..6,
        proptest::collection::vec((sev(), proptest::option::of(name())), 0..3),
        proptest::collection::vec((name(), sev()), 0..3),
        proptest::option::of(any_i64ish()),
        proptest::option::of(any_i64ish()),
        proptest::option::of(field_value()),
        any::<bool>(),
        0usize..3,
        proptest::option::of(proptest::collection::vec(sev(), 0..3)),
    )
        .prop_map(|(state, stack, captured, started, deadline, key, invalidated, pending, kleene)| SRun { state, stack, captured, started, deadline, key, invalidated, pending, kleene })
}

fn swin() -> impl Strategy<Value = SWin> {
    (
        proptest::collection::vec(sev(), 0..4),
        proptest::option::of(any_i64ish()),
        proptest::option::of(any_i64ish()),
        proptest::collection::vec((name(), proptest::collection::vec(sev(), 0..3), proptest::option::of(any_i64ish())), 0..3),
    )
        .prop_map(|(events, start, last_emit, parts)| SWin { events, start, last_emit, parts })
}

fn synth_strategy() -> impl Strategy<Value = SynthCase> {
    let sase = (name(), proptest::collection::vec(srun(), 0..3), proptest::collection::vec((name(), proptest::collection::vec(srun(), 0..2)), 0..2), proptest::option::of(any_i64ish()), any::<[u64; 4]>());
    let joins = (
        name(),
        proptest::collection::vec((name(), proptest::collection::vec((name(), proptest::collection::vec((any_i64ish(), sev()), 0..3)), 0..2)), 0..3),
        vh_gen::any_int(),
    );
    let wm = proptest::option::of((
        proptest::collection::vec((name(), proptest::option::of(any_i64ish()), proptest::option::of(any_i64ish()), vh_gen::any_int()), 0..3),
        proptest::option::of(any_i64ish()),
    ));
    let outer = proptest::option::of((any::<u64>(), any_i64ish(), proptest::collection::vec((name(), vh_gen::any_string()), 0..3), proptest::collection::vec((name(), proptest::collection::vec(sev(), 0..3)), 0..2)));
    (
        (proptest::collection::vec((name(), swin()), 0..3), proptest::collection::vec(sase, 0..2), proptest::collection::vec(joins, 0..2)),
        proptest::collection::vec((name(), field_value()), 0..4),
        (any::<u64>(), vh_gen::any_int().prop_map(|i| i as u64)),
        wm,
        proptest::collection::vec((name(), proptest::collection::vec(vh_gen::any_string(), 0..4)), 0..2),
        proptest::collection::vec((name(), any::<usize>(), 0usize..10), 0..2),
        outer,
        prop_oneof![4 => Just(1u32), 1 => 0u32..3],
        0u8..6,
    )
        .prop_map(|((windows, sase, joins), vars, counters, watermark, distinct, limit, outer, version, ws)| SynthCase { windows, sase, joins, vars, counters, watermark, distinct, limit, outer, version, ws })
}

fn build_run(r: &SRun) -> RunCheckpoint {
    RunCheckpoint {
        current_state: r.state,
        stack: r.stack.iter().map(|(e, a)| StackEntryCheckpoint { event: e.to_se(), alias: a.clone() }).collect(),
        captured: r.captured.iter().map(|(k, e)| (k.clone(), e.to_se())).collect(),
        event_time_started_at_ms: r.started,
        event_time_deadline_ms: r.deadline,
        partition_key: r.key.as_ref().map(v_to_sv),
        invalidated: r.invalidated,
        pending_negation_count: r.pending,
        kleene_events: r.kleene.as_ref().map(|k| k.iter().map(|e| e.to_se()).collect()),
    }
}

fn build_win(w: &SWin) -> WindowCheckpoint {
    WindowCheckpoint {
        events: w.events.iter().map(|e| e.to_se()).collect(),
        window_start_ms: w.start,
        last_emit_ms: w.last_emit,
        partitions: w.parts.iter().map(|(k, evs, s)| (k.clone(), PartitionedWindowCheckpoint { events: evs.iter().map(|e| e.to_se()).collect(), window_start_ms: *s })).collect(),
    }
}

fn build_engine_cp(c: &SynthCase) -> EngineCheckpoint {
    EngineCheckpoint {
        version: c.version,
        window_states: c.windows.iter().map(|(n, w)| (n.clone(), build_win(w))).collect(),
        sase_states: c
            .sase
            .iter()
            .map(|(n, runs, parts, wm, tot)| {
                (
                    n.clone(),
                    SaseCheckpoint {
                        active_runs: runs.iter().map(build_run).collect(),
                        partitioned_runs: parts.iter().map(|(k, rs)| (k.clone(), rs.iter().map(build_run).collect())).collect(),
                        watermark_ms: *wm,
                        max_timestamp_ms: wm.map(|w| w.wrapping_add(1)),
                        total_runs_created: tot[0],
                        total_runs_completed: tot[1],
                        total_runs_dropped: tot[2],
                        total_runs_evicted: tot[3],
                    },
                )
            })
            .collect(),
        join_states: c
            .joins
            .iter()
            .map(|(n, bufs, dur)| {
                (
                    n.clone(),
                    JoinCheckpoint {
                        buffers: bufs.iter().map(|(s, keyed)| (s.clone(), keyed.iter().map(|(k, evs)| (k.clone(), evs.iter().map(|(t, e)| (*t, e.to_se())).collect())).collect())).collect(),
                        sources: bufs.iter().map(|(s, _)| s.clone()).collect(),
                        join_keys: bufs.iter().map(|(s, _)| (s.clone(), "k".to_string())).collect(),
                        window_duration_ms: *dur,
                    },
                )
            })
            .collect(),
        variables: c.vars.iter().map(|(k, v)| (k.clone(), v_to_sv(v))).collect(),
        events_processed: c.counters.0,
        output_events_emitted: c.counters.1,
        watermark_state: c.watermark.as_ref().map(|(srcs, eff)| WatermarkCheckpoint {
            sources: srcs.iter().map(|(n, w, m, o)| (n.clone(), SourceWatermarkCheckpoint { watermark_ms: *w, max_timestamp_ms: *m, max_out_of_orderness_ms: *o })).collect(),
            effective_watermark_ms: *eff,
        }),
        distinct_states: c.distinct.iter().map(|(n, keys)| (n.clone(), DistinctCheckpoint { keys: keys.clone() })).collect(),
        limit_states: c.limit.iter().map(|(n, max, count)| (n.clone(), LimitCheckpoint { max: *max, count: *count })).collect(),
    }
}

fn build_outer(c: &SynthCase, inner: EngineCheckpoint) -> Option<Checkpoint> {
    let (id, ts, meta, patterns) = c.outer.as_ref()?;
    Some(Checkpoint {
        id: *id,
        timestamp_ms: *ts,
        events_processed: c.counters.0,
        window_states: c.windows.iter().map(|(n, w)| (n.clone(), build_win(w))).collect(),
        pattern_states: patterns
            .iter()
            .map(|(n, evs)| (n.clone(), PatternCheckpoint { partial_matches: vec![PartialMatchCheckpoint { state: n.clone(), matched_events: evs.iter().map(|e| e.to_se()).collect(), start_ms: *ts }] }))
            .collect(),
        metadata: meta.iter().cloned().collect(),
        context_states: [("ctx".to_string(), inner.clone()), ("ctx/2 é".to_string(), inner)].into_iter().collect(),
    })
}

fn check_synth(case: &SynthCase) -> Outcome {
    let cp = build_engine_cp(case);
    let (_, tree) = match round_trip("synth", &cp, case.ws) {
        Ok(x) => x,
        Err(o) => return o,
    };
    let mut wrapped = false;
    if let Some(outer) = build_outer(case, cp) {
        wrapped = true;
        if let Err(o) = round_trip("synth-outer", &outer, case.ws) {
            return o;
        }
    }
    let c = content(&tree);
    classify(Outcome::pass().nontrivial(c.events > 0 && (c.nonfinite > 0 || c.nested > 0)), &c, case.ws)
        .class_if(wrapped, "wrapped_in_Checkpoint")
        .class_if(!case.sase.is_empty(), "has_sase")
        .class_if(!case.joins.is_empty(), "has_join")
        .class_if(case.watermark.is_some(), "has_watermark")
        .class_if(case.version != 1, "other_version")
}

// ------------------------------------------------------------------ sub-check `mutate`

#[derive(Clone, Debug, Serialize, Deserialize)]
struct MutCase {
    base: SynthCase,
    /// (position selector, operation, byte/token selector)
    muts: Vec<(u32, u8, u8)>,
}

const TOKENS: [&str; 12] = ["null", "1e999", "-0.0", "NaN", "{}", "[]", "\"\"", "18446744073709551616", "true", "\"Float\"", "{\"Float\":null}", "\\ud800"];

fn mutate(mut b: Vec<u8>, muts: &[(u32, u8, u8)]) -> Vec<u8> {
    for (p, op, x) in muts {
        if b.is_empty() {
            break;
        }
        let pos = *p as usize % b.len();
        match op % 6 {
            0 => b[pos] = *x,
            1 => {
                b.remove(pos);
            }
            2 => b.insert(pos, *x),
            3 => b.truncate(pos),
            4 => {
                // replace the number/literal starting at the next digit by a token
                if let Some(s) = b[pos..].iter().position(|c| c.is_ascii_digit()) {
                    let s = pos + s;
                    let e = s + b[s..].iter().position(|c| !(c.is_ascii_digit() || *c == b'.' || *c == b'e' || *c == b'-' || *c == b'+')).unwrap_or(b.len() - s);
                    b.splice(s..e, TOKENS[*x as usize % TOKENS.len()].bytes());
                }
            }
            _ => {
                let t = TOKENS[*x as usize % TOKENS.len()];
                b.splice(pos..pos, t.bytes());
            }
        }
    }
    b
}

fn check_mutate(case: &MutCase) -> Outcome {
    let cp = build_engine_cp(&case.base);
    let Ok(bytes) = codec::serialize(&cp, CheckpointFormat::active()) else {
        return Outcome::pass().class("base_not_serializable");
    };
    let data = mutate(bytes.clone(), &case.muts);
    let res = match guard(|| codec::deserialize::<EngineCheckpoint>(&data)) {
        Ok(r) => r,
        Err(p) => return Outcome::fail(format!("mutate:{}", p.sig()), format!("deserialize panicked at {}:{}: {} on {}", p.file, p.line, p.message, truncate(&String::from_utf8_lossy(&data), 400))),
    };
    match res {
        Err(_) => Outcome::pass().nontrivial(data != bytes).class("rejected"),
        Ok(cp2) => {
            let t2 = Tree::of(&cp2);
            let bytes2 = match codec::serialize(&cp2, CheckpointFormat::active()) {
                Ok(b) => b,
                Err(e) => return Outcome::fail("mutate:accepted-value-not-serializable", format!("{}", e)),
            };
            let cp3: EngineCheckpoint = match codec::deserialize(&bytes2) {
                Ok(c) => c,
                Err(e) => return Outcome::fail(format!("mutate:accepted-bytes-do-not-re-decode:{}", float_class(&t2)), format!("{} ; {}", e, truncate(&String::from_utf8_lossy(&bytes2), 400))),
            };
            if let Some(d) = t2.diff(&Tree::of(&cp3)) {
                return Outcome::fail("mutate:accepted-bytes-re-encode-unstably", d);
            }
            Outcome::pass().nontrivial(data != bytes).class("accepted").class_if(data == bytes, "unchanged")
        }
    }
}

fn main() {
    let check = Check::new("C20", "exploration");
    check.rule("engine: 1-3 streams from 15 operator templates (all window kinds, partitioned windows, sequences incl. Kleene/partitioned, join, distinct, limit, watermark) + var declarations, fed <=13 events of types A/B/C whose fields are biased to NaN/+-inf/-0.0/nested arrays+maps/unicode/large ints and whose timestamps carry a sub-ms part; the checkpoint of the real engine is round-tripped through codec::serialize(Json)/codec::deserialize behind 6 whitespace prefixes (auto-detection); oracle = equal canonical trees built by an own serde serializer (exact floats, NaN=NaN, map order ignored) + re-serialisation denotes the same JSON + every restored stored event equals an input event as (type, timestamp, field map). synth: directly synthesised EngineCheckpoint/Checkpoint (every field, unicode names, extreme ints). events: Event -> SerializableEvent -> bytes -> Event equals the original. mutate: byte/token-mutated encodings must not panic and accepted ones re-encode stably. Non-trivial = the checkpoint holds >=1 event and a non-finite float or nested value (mutate: bytes really changed); distinct by case hash.");
    check.assume("the derived Serialize impls of the checkpoint types enumerate every field (no serde(skip) in persistence.rs) — they feed the canonical-tree oracle; default feature set (JSON codec), binary-codec not exercised");
    check.explore("engine", engine_strategy, 5000, 100_000, check_engine);
    check.explore("synth", synth_strategy, 10_000, 200_000, check_synth);
    check.explore(
        "events",
        || (events_strategy(8), 0u8..6).prop_map(|(events, ws)| EventsCase { events, ws, strict_ts: false }),
        15_000,
        300_000,
        check_events,
    );
    check.explore(
        "mutate",
        || (synth_strategy(), proptest::collection::vec((any::<u32>(), 0u8..6, any::<u8>()), 1..4)).prop_map(|(base, muts)| MutCase { base, muts }),
        10_000,
        200_000,
        check_mutate,
    );
    check.finish();
}
