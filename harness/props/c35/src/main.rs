//! C35 Replicated coordinator state is deterministic and snapshot-equivalent; the in-memory
//! and the RocksDB store meet the storage contract openraft relies on.
mod cmds;
use cmds::*;
use proptest::prelude::*;
use serde::{Deserialize, Serialize};
use std::collections::BTreeMap;
use std::io::Cursor;
use vh_common::{Check, Outcome};
use vh_server::varpulis_cluster as vc;

use openraft::storage::Adaptor;
use openraft::testing::{StoreBuilder, Suite};
use openraft::{LogId, RaftLogReader, RaftSnapshotBuilder, RaftStorage, SnapshotMeta, StorageError, StoredMembership, Vote};
use vc::raft::persistent_store::RocksStore;
use vc::raft::state_machine::{apply_command, CoordinatorState};
use vc::raft::store::{MemStore, SharedCoordinatorState};
use vc::raft::{RaftNode, TypeConfig};

type J = serde_json::Value;
type Fail = (String, String);

// ------------------------------------------------------------------ store wrapper

enum Inner {
    Mem(MemStore),
    Rocks(RocksStore),
}

struct St {
    inner: Inner,
    shared: SharedCoordinatorState,
    _dir: Option<tempfile::TempDir>,
}

macro_rules! on {
    ($self:expr, $s:ident => $e:expr) => {
        match &mut $self.inner {
            Inner::Mem($s) => $e,
            Inner::Rocks($s) => $e,
        }
    };
}

fn kind_name(k: u8) -> &'static str {
    if k == 0 {
        "mem"
    } else {
        "rocks"
    }
}

impl St {
    /// Built the way `raft::bootstrap` / `raft::bootstrap_persistent` build them.
    fn new(kind: u8) -> St {
        if kind == 0 {
            let (s, shared) = MemStore::with_shared_state();
            St { inner: Inner::Mem(s), shared, _dir: None }
        } else {
            let dir = tempfile::tempdir().expect("tempdir");
            let (s, shared) = RocksStore::open_with_shared_state(dir.path().join("node-1").to_str().unwrap()).expect("open rocks");
            St { inner: Inner::Rocks(s), shared, _dir: Some(dir) }
        }
    }
    fn state(&self) -> J {
        state_json(&self.shared.read().unwrap())
    }
    fn apply(&mut self, ents: &[Ent]) -> Result<usize, String> {
        block_on(async { on!(self, s => s.apply_to_state_machine(ents).await) }).map(|r| r.len()).map_err(|e| e.to_string())
    }
    fn applied(&mut self) -> (Option<LogId<u64>>, StoredMembership<u64, RaftNode>) {
        block_on(async { on!(self, s => s.last_applied_state().await) }).expect("last_applied_state")
    }
    fn build_snapshot(&mut self) -> Result<(SnapshotMeta<u64, RaftNode>, Vec<u8>), String> {
        block_on(async {
            let snap = on!(self, s => { let mut b = s.get_snapshot_builder().await; b.build_snapshot().await });
            snap.map(|s| (s.meta, s.snapshot.into_inner())).map_err(|e| e.to_string())
        })
    }
    fn install(&mut self, meta: &SnapshotMeta<u64, RaftNode>, data: Vec<u8>) -> Result<(), String> {
        block_on(async {
            on!(self, s => {
                let mut b = s.begin_receiving_snapshot().await.map_err(|e| e.to_string())?;
                *b = Cursor::new(data);
                s.install_snapshot(meta, b).await.map_err(|e| e.to_string())
            })
        })
    }
}

// ------------------------------------------------------------------ (a)+(b) command logs

#[derive(Clone, Debug, Serialize, Deserialize)]
struct LogCase {
    /// (term bump before this entry, payload)
    ents: Vec<(bool, Pay)>,
    /// batch boundary after entry i (two independent batchings)
    cuts_a: Vec<bool>,
    cuts_b: Vec<bool>,
    /// snapshot index in 0..=len (scaled)
    snap_at: u8,
    /// entries the receiving store had applied before the snapshot arrives (scaled to 0..=snap)
    pre: u8,
    /// store kind (0 mem, 1 rocks) of: replay A, replay B, snapshot source, snapshot target
    kinds: [u8; 4],
}

fn log_case(rocks: bool) -> impl Strategy<Value = LogCase> {
    let kinds = if rocks { prop_oneof![Just([1u8, 0, 1, 1]), Just([0u8, 1, 0, 1]), Just([1u8, 1, 1, 0]), Just([1u8, 1, 1, 1])].boxed() } else { Just([0u8; 4]).boxed() };
    (
        proptest::collection::vec((proptest::bool::weighted(0.15), pay()), 1..=60),
        proptest::collection::vec(proptest::bool::weighted(0.4), 60),
        proptest::collection::vec(proptest::bool::weighted(0.6), 60),
        any::<u8>(),
        any::<u8>(),
        kinds,
    )
        .prop_map(|(ents, cuts_a, cuts_b, snap_at, pre, kinds)| LogCase { ents, cuts_a, cuts_b, snap_at, pre, kinds })
}

fn build_entries(c: &LogCase) -> Vec<Ent> {
    let mut term = 1u64;
    c.ents
        .iter()
        .enumerate()
        .map(|(i, (bump, p))| {
            if *bump {
                term += 1;
            }
            entry(term, i as u64 + 1, p)
        })
        .collect()
}

/// Apply `ents[from..to]` in the batches given by `cuts` (cut positions are absolute indices).
fn apply_batched(st: &mut St, ents: &[Ent], from: usize, to: usize, cuts: &[bool]) -> Result<usize, Fail> {
    let mut batches = 0;
    let mut start = from;
    for i in from..to {
        let cut = cuts.get(i).copied().unwrap_or(true) || i + 1 == to;
        if cut {
            let n = st.apply(&ents[start..=i]).map_err(|e| ("apply-error".to_string(), e))?;
            if n != i + 1 - start {
                return Err(("apply-response-count".into(), format!("{} responses for {} entries", n, i + 1 - start)));
            }
            start = i + 1;
            batches += 1;
        }
    }
    Ok(batches)
}

fn expected_applied(ents: &[Ent], upto: usize) -> (Option<LogId<u64>>, J) {
    let last = if upto == 0 { None } else { Some(ents[upto - 1].log_id) };
    let mut mem: StoredMembership<u64, RaftNode> = StoredMembership::default();
    for e in &ents[..upto] {
        if let openraft::EntryPayload::Membership(m) = &e.payload {
            mem = StoredMembership::new(Some(e.log_id), m.clone());
        }
    }
    (last, serde_json::to_value(&mem).unwrap())
}

fn run_log_case(c: &LogCase) -> Outcome {
    let ents = build_entries(c);
    let n = ents.len();
    // baseline: the pure fold, one command at a time, no store involved
    let mut base = CoordinatorState::default();
    let mut prefix_states: Vec<J> = vec![state_json(&base)];
    let mut keys = Keys::default();
    let mut hits = 0;
    let mut kinds_seen = std::collections::BTreeSet::new();
    for (_, p) in &c.ents {
        if let Pay::Normal(cmd) = p {
            apply_command(&mut base, cmd.to_real());
            if keys.step(cmd) {
                hits += 1;
            }
            kinds_seen.insert(cmd.kind());
        }
        prefix_states.push(state_json(&base));
    }
    let full = prefix_states[n].clone();
    let (exp_last, exp_mem) = expected_applied(&ents, n);
    let tag = |role: usize| kind_name(c.kinds[role]);

    // (a) two batchings on two stores
    let mut batch_counts = [0usize; 2];
    for (role, cuts) in [(0usize, &c.cuts_a), (1usize, &c.cuts_b)] {
        let mut st = St::new(c.kinds[role]);
        match apply_batched(&mut st, &ents, 0, n, cuts) {
            Ok(b) => batch_counts[role] = b,
            Err((s, d)) => return Outcome::fail(format!("{}:{}", s, tag(role)), d),
        }
        let got = st.state();
        if got != full {
            return Outcome::fail(format!("batching-changes-state:{}", tag(role)), format!("batching {} on {} store\n got  {}\n want {}", role, tag(role), got, full));
        }
        let (la, mem) = st.applied();
        if la != exp_last {
            return Outcome::fail(format!("last-applied-after-replay:{}", tag(role)), format!("{:?} expected {:?}", la, exp_last));
        }
        if serde_json::to_value(&mem).unwrap() != exp_mem {
            return Outcome::fail(format!("membership-after-replay:{}", tag(role)), format!("{:?} expected {}", mem, exp_mem));
        }
    }

    // (b) snapshot at i (built on store C after applying the prefix), installed into store D that had
    // applied a shorter prefix, then the rest of the log
    let i = (c.snap_at as usize * (n + 1)) / 256;
    let pre = (c.pre as usize * (i + 1)) / 256;
    let mut src = St::new(c.kinds[2]);
    if let Err((s, d)) = apply_batched(&mut src, &ents, 0, i, &c.cuts_a) {
        return Outcome::fail(format!("{}:{}", s, tag(2)), d);
    }
    let (meta, data) = match src.build_snapshot() {
        Ok(x) => x,
        Err(e) => return Outcome::fail(format!("build-snapshot-error:{}", tag(2)), e),
    };
    let (exp_i_last, exp_i_mem) = expected_applied(&ents, i);
    if meta.last_log_id != exp_i_last {
        return Outcome::fail(format!("snapshot-meta-last-log-id:{}", tag(2)), format!("{:?} expected {:?}", meta.last_log_id, exp_i_last));
    }
    if serde_json::to_value(&meta.last_membership).unwrap() != exp_i_mem {
        return Outcome::fail(format!("snapshot-meta-membership:{}", tag(2)), format!("{:?} expected {}", meta.last_membership, exp_i_mem));
    }
    let mut dst = St::new(c.kinds[3]);
    if let Err((s, d)) = apply_batched(&mut dst, &ents, 0, pre, &c.cuts_b) {
        return Outcome::fail(format!("{}:{}", s, tag(3)), d);
    }
    if let Err(e) = dst.install(&meta, data) {
        return Outcome::fail(format!("install-snapshot-error:{}->{}", tag(2), tag(3)), e);
    }
    let after_install = dst.state();
    if after_install != prefix_states[i] {
        return Outcome::fail(
            format!("state-after-install:{}->{}", tag(2), tag(3)),
            format!("snapshot at {} (receiver had applied {})\n got  {}\n want {}", i, pre, after_install, prefix_states[i]),
        );
    }
    let (la, _) = dst.applied();
    if la != exp_i_last {
        return Outcome::fail(format!("last-applied-after-install:{}", tag(3)), format!("{:?} expected {:?}", la, exp_i_last));
    }
    if let Err((s, d)) = apply_batched(&mut dst, &ents, i, n, &c.cuts_b) {
        return Outcome::fail(format!("{}:{}", s, tag(3)), d);
    }
    let got = dst.state();
    if got != full {
        return Outcome::fail(
            format!("snapshot-plus-rest-differs:{}->{}", tag(2), tag(3)),
            format!("snapshot at {} of {}\n got  {}\n want {}", i, n, got, full),
        );
    }
    let (la, mem) = dst.applied();
    if la != exp_last || serde_json::to_value(&mem).unwrap() != exp_mem {
        return Outcome::fail(format!("applied-state-after-snapshot-plus-rest:{}", tag(3)), format!("{:?} {:?} expected {:?} {}", la, mem, exp_last, exp_mem));
    }

    let inside = i > 0 && i < n;
    let differ = batch_counts[0] != batch_counts[1];
    let mut o = Outcome::pass()
        .nontrivial(hits > 0 && inside && differ)
        .class_if(hits > 0, "hits_existing_key")
        .class_if(hits >= 5, "hits_existing_key>=5")
        .class_if(inside, "snapshot_inside_log")
        .class_if(i == 0, "snapshot_at_0")
        .class_if(i == n, "snapshot_at_end")
        .class_if(pre > 0 && pre < i, "receiver_had_prefix")
        .class_if(differ, "batchings_differ")
        .class_if(kinds_seen.len() == ALL_KINDS, "all_16_kinds_in_one_log")
        .class_if(c.ents.iter().any(|(_, p)| matches!(p, Pay::Member(_))), "has_membership_entry")
        .class_if(c.kinds[2] != c.kinds[3], "snapshot_crosses_store_kinds");
    for k in kinds_seen {
        o = o.class(format!("cmd:{}", k));
    }
    o
}

// ------------------------------------------------------------------ (c) storage contract model

#[derive(Clone, Debug, Serialize, Deserialize)]
enum SOp {
    Append { pays: Vec<Pay>, bump: bool },
    /// delete_conflict_logs_since(last_index - back)
    Truncate { back: u8 },
    /// purge up to: 0 = an entry inside the log (`k` from the front), 1 = the last entry (everything),
    /// 2 = beyond the last entry
    Purge { sel: u8, k: u8 },
    Vote { bump: u8, node: u8, committed: bool },
    Read { a: u8, len: u8, form: u8 },
    NewReader,
}

#[derive(Clone, Debug, Serialize, Deserialize)]
struct StoreCase {
    kind: u8,
    ops: Vec<SOp>,
}

fn sop() -> impl Strategy<Value = SOp> {
    prop_oneof![
        5 => (proptest::collection::vec(pay(), 1..5), proptest::bool::weighted(0.2)).prop_map(|(pays, bump)| SOp::Append { pays, bump }),
        2 => (0u8..6).prop_map(|back| SOp::Truncate { back }),
        3 => (prop_oneof![3 => Just(0u8), 2 => Just(1u8), 1 => Just(2u8)], 0u8..8).prop_map(|(sel, k)| SOp::Purge { sel, k }),
        1 => (0u8..3, 1u8..4, any::<bool>()).prop_map(|(bump, node, committed)| SOp::Vote { bump, node, committed }),
        3 => (0u8..24, 0u8..8, 0u8..5).prop_map(|(a, len, form)| SOp::Read { a, len, form }),
        1 => Just(SOp::NewReader),
    ]
}

fn store_case(kind: u8) -> impl Strategy<Value = StoreCase> {
    proptest::collection::vec(sop(), 1..=30).prop_map(move |ops| StoreCase { kind, ops })
}

#[derive(Default)]
struct Model {
    log: BTreeMap<u64, Ent>,
    last_purged: Option<LogId<u64>>,
    vote: Option<Vote<u64>>,
    term: u64,
    vote_term: u64,
}

impl Model {
    fn next_index(&self) -> u64 {
        match (self.log.keys().next_back(), self.last_purged) {
            (Some(k), _) => k + 1,
            (None, Some(p)) => p.index + 1,
            (None, None) => 0,
        }
    }
    fn expected_last(&self) -> Option<LogId<u64>> {
        self.log.values().next_back().map(|e| e.log_id).or(self.last_purged)
    }
}

fn ents_json(v: &[Ent]) -> J {
    serde_json::to_value(v).unwrap()
}

#[derive(Default)]
struct StoreStats {
    purge: usize,
    purge_all: usize,
    purge_beyond: usize,
    truncate: usize,
    append_after_truncate: usize,
    append_after_empty_purge: usize,
    reads: usize,
    skipped: usize,
}

async fn check_all<S: RaftStorage<TypeConfig>>(kind: &str, store: &mut S, readers: &mut [S::LogReader], m: &Model, after: &str, emptied_by_purge: bool) -> Result<(), Fail> {
    let st = store.get_log_state().await.map_err(|e| (format!("storage:{kind}:get_log_state-error"), e.to_string()))?;
    if st.last_purged_log_id != m.last_purged {
        return Err((format!("storage:{kind}:last_purged_log_id"), format!("after {after}: {:?} expected {:?}", st.last_purged_log_id, m.last_purged)));
    }
    if st.last_log_id != m.expected_last() {
        let sig = if emptied_by_purge && m.log.is_empty() { "last_log_id-when-all-entries-purged" } else { "last_log_id" };
        return Err((format!("storage:{kind}:{sig}"), format!("after {after}: last_log_id {:?} expected {:?} (last_purged {:?}, {} entries present)", st.last_log_id, m.expected_last(), m.last_purged, m.log.len())));
    }
    let want: Vec<Ent> = m.log.values().cloned().collect();
    let got = store.try_get_log_entries(..).await.map_err(|e| (format!("storage:{kind}:read-error"), e.to_string()))?;
    if ents_json(&got) != ents_json(&want) {
        return Err((format!("storage:{kind}:entries"), format!("after {after}: store has {:?}\n expected {:?}", got.iter().map(|e| e.log_id).collect::<Vec<_>>(), want.iter().map(|e| e.log_id).collect::<Vec<_>>())));
    }
    for (ri, r) in readers.iter_mut().enumerate() {
        let got = r.try_get_log_entries(0..).await.map_err(|e| (format!("storage:{kind}:reader-error"), e.to_string()))?;
        if ents_json(&got) != ents_json(&want) {
            return Err((format!("storage:{kind}:log-reader-entries"), format!("after {after}: reader #{ri} (obtained earlier) sees {:?}\n expected {:?}", got.iter().map(|e| e.log_id).collect::<Vec<_>>(), want.iter().map(|e| e.log_id).collect::<Vec<_>>())));
        }
    }
    let v = store.read_vote().await.map_err(|e| (format!("storage:{kind}:read_vote-error"), e.to_string()))?;
    if v != m.vote {
        return Err((format!("storage:{kind}:vote"), format!("after {after}: {:?} expected {:?}", v, m.vote)));
    }
    Ok(())
}

async fn run_storage<S: RaftStorage<TypeConfig>>(kind: &str, store: &mut S, ops: &[SOp]) -> Result<StoreStats, Fail> {
    let mut m = Model { term: 1, ..Default::default() };
    let mut stats = StoreStats::default();
    let mut readers: Vec<S::LogReader> = vec![store.get_log_reader().await];
    let mut just_truncated = false;
    let mut emptied_by_purge = false;
    let werr = |what: &str, e: StorageError<u64>| (format!("storage:{kind}:{what}-error"), e.to_string());
    check_all(kind, store, &mut readers, &m, "open", false).await?;
    for (oi, op) in ops.iter().enumerate() {
        let label = format!("op#{oi} {:?}", op);
        match op {
            SOp::Append { pays, bump } => {
                if *bump || just_truncated {
                    m.term += 1;
                }
                let start = m.next_index();
                let ents: Vec<Ent> = pays.iter().enumerate().map(|(i, p)| entry(m.term, start + i as u64, p)).collect();
                store.append_to_log(ents.clone()).await.map_err(|e| werr("append", e))?;
                for e in ents {
                    m.log.insert(e.log_id.index, e);
                }
                if just_truncated {
                    stats.append_after_truncate += 1;
                }
                if emptied_by_purge {
                    stats.append_after_empty_purge += 1;
                }
                just_truncated = false;
                emptied_by_purge = false;
            }
            SOp::Truncate { back } => {
                // openraft truncates only uncommitted, still present entries
                if m.log.is_empty() {
                    stats.skipped += 1;
                    continue;
                }
                let last = *m.log.keys().next_back().unwrap();
                let first = *m.log.keys().next().unwrap();
                let since = last - (*back as u64).min(last - first);
                let id = m.log[&since].log_id;
                store.delete_conflict_logs_since(id).await.map_err(|e| werr("delete_conflict", e))?;
                m.log.retain(|k, _| *k < since);
                stats.truncate += 1;
                just_truncated = true;
                emptied_by_purge = false;
            }
            SOp::Purge { sel, k } => {
                let id = match (*sel, m.log.is_empty()) {
                    (2, _) | (_, true) => {
                        stats.purge_beyond += 1;
                        log_id(m.term, m.next_index() + *k as u64)
                    }
                    (1, false) => {
                        stats.purge_all += 1;
                        m.log.values().next_back().unwrap().log_id
                    }
                    (_, false) => {
                        let first = *m.log.keys().next().unwrap();
                        let idx = first + (*k as u64) % (m.log.len() as u64);
                        if idx + 1 == m.next_index() {
                            stats.purge_all += 1;
                        }
                        m.log[&idx].log_id
                    }
                };
                store.purge_logs_upto(id).await.map_err(|e| werr("purge", e))?;
                m.log.retain(|k, _| *k > id.index);
                m.last_purged = Some(id);
                stats.purge += 1;
                just_truncated = false;
                emptied_by_purge = m.log.is_empty();
            }
            SOp::Vote { bump, node, committed } => {
                m.vote_term += *bump as u64;
                let v = if *committed { Vote::new_committed(m.vote_term, *node as u64) } else { Vote::new(m.vote_term, *node as u64) };
                store.save_vote(&v).await.map_err(|e| werr("save_vote", e))?;
                m.vote = Some(v);
            }
            SOp::Read { a, len, form } => {
                let a = *a as u64;
                let b = a + *len as u64;
                let (got, want): (Vec<Ent>, Vec<Ent>) = match form {
                    0 => (store.try_get_log_entries(a..b).await.map_err(|e| werr("read", e))?, m.log.range(a..b).map(|(_, e)| e.clone()).collect()),
                    1 => (store.try_get_log_entries(a..=b).await.map_err(|e| werr("read", e))?, m.log.range(a..=b).map(|(_, e)| e.clone()).collect()),
                    2 => (store.try_get_log_entries(a..).await.map_err(|e| werr("read", e))?, m.log.range(a..).map(|(_, e)| e.clone()).collect()),
                    3 => (store.try_get_log_entries(..b).await.map_err(|e| werr("read", e))?, m.log.range(..b).map(|(_, e)| e.clone()).collect()),
                    _ => (readers[0].try_get_log_entries(a..b).await.map_err(|e| werr("read", e))?, m.log.range(a..b).map(|(_, e)| e.clone()).collect()),
                };
                if ents_json(&got) != ents_json(&want) {
                    return Err((
                        format!("storage:{kind}:range-read"),
                        format!("{label}: got {:?} expected {:?}", got.iter().map(|e| e.log_id.index).collect::<Vec<_>>(), want.iter().map(|e| e.log_id.index).collect::<Vec<_>>()),
                    ));
                }
                stats.reads += 1;
            }
            SOp::NewReader => {
                if readers.len() < 3 {
                    readers.push(store.get_log_reader().await);
                }
            }
        }
        check_all(kind, store, &mut readers, &m, &label, emptied_by_purge).await?;
    }
    Ok(stats)
}

fn run_store_case(c: &StoreCase) -> Outcome {
    let kind = kind_name(c.kind);
    let mut st = St::new(c.kind);
    let res = block_on(async { on!(st, s => run_storage(kind, s, &c.ops).await) });
    match res {
        Err((sig, detail)) => Outcome::fail(sig, detail),
        Ok(s) => Outcome::pass()
            .nontrivial(s.purge > 0)
            .class_if(s.purge > 0, "purge")
            .class_if(s.purge_all > 0, "purge_everything")
            .class_if(s.purge_beyond > 0, "purge_beyond_last")
            .class_if(s.truncate > 0, "delete_conflict")
            .class_if(s.append_after_truncate > 0, "append_after_delete_conflict")
            .class_if(s.append_after_empty_purge > 0, "append_after_purge_everything")
            .class_if(s.reads > 0, "range_read")
            .class_if(s.skipped > 0, "op_skipped_empty_log"),
    }
}

// ------------------------------------------------------------------ (d) openraft's own suite

type Ad<S> = Adaptor<TypeConfig, S>;
struct MemB;
struct RocksB;

impl StoreBuilder<TypeConfig, Ad<MemStore>, Ad<MemStore>, ()> for MemB {
    async fn build(&self) -> Result<((), Ad<MemStore>, Ad<MemStore>), StorageError<u64>> {
        let (s, _shared) = MemStore::with_shared_state();
        let (l, m) = Adaptor::new(s);
        Ok(((), l, m))
    }
}

impl StoreBuilder<TypeConfig, Ad<RocksStore>, Ad<RocksStore>, tempfile::TempDir> for RocksB {
    async fn build(&self) -> Result<(tempfile::TempDir, Ad<RocksStore>, Ad<RocksStore>), StorageError<u64>> {
        let dir = tempfile::tempdir().expect("tempdir");
        let (s, _shared) = RocksStore::open_with_shared_state(dir.path().join("node-1").to_str().unwrap()).expect("open rocks");
        let (l, m) = Adaptor::new(s);
        Ok((dir, l, m))
    }
}

type MemSuite = Suite<TypeConfig, Ad<MemStore>, Ad<MemStore>, MemB, ()>;
type RocksSuite = Suite<TypeConfig, Ad<RocksStore>, Ad<RocksStore>, RocksB, tempfile::TempDir>;

macro_rules! suite_tests {
    ($($t:ident),* $(,)?) => {
        const SUITE_TESTS: &[&str] = &[$(stringify!($t),)* "transfer_snapshot"];
        async fn run_suite_test(kind: u8, name: &str) -> Result<(), StorageError<u64>> {
            match (kind, name) {
                $(
                    (0, stringify!($t)) => { let (_g, l, m) = MemB.build().await?; MemSuite::$t(l, m).await }
                    (_, stringify!($t)) => { let (_g, l, m) = RocksB.build().await?; RocksSuite::$t(l, m).await }
                )*
                (0, "transfer_snapshot") => MemSuite::transfer_snapshot(&MemB).await,
                (_, "transfer_snapshot") => RocksSuite::transfer_snapshot(&RocksB).await,
                _ => panic!("unknown suite test {name}"),
            }
        }
    };
}

// the list of `Suite::test_store` in openraft 0.9.21
suite_tests!(
    last_membership_in_log_initial,
    last_membership_in_log,
    last_membership_in_log_multi_step,
    get_membership_initial,
    get_membership_from_log_and_empty_sm,
    get_membership_from_empty_log_and_sm,
    get_membership_from_log_le_sm_last_applied,
    get_membership_from_log_gt_sm_last_applied_1,
    get_membership_from_log_gt_sm_last_applied_2,
    get_initial_state_without_init,
    get_initial_state_membership_from_log_and_sm,
    get_initial_state_with_state,
    get_initial_state_last_log_gt_sm,
    get_initial_state_last_log_lt_sm,
    get_initial_state_log_ids,
    get_initial_state_re_apply_committed,
    save_vote,
    get_log_entries,
    limited_get_log_entries,
    try_get_log_entry,
    initial_logs,
    get_log_state,
    get_log_id,
    last_id_in_log,
    last_applied_state,
    purge_logs_upto_0,
    purge_logs_upto_5,
    purge_logs_upto_20,
    delete_logs_since_11,
    delete_logs_since_0,
    append_to_log,
    snapshot_meta,
    apply_single,
    apply_multiple,
);

#[derive(Clone, Debug, Serialize, Deserialize)]
struct SuiteCase {
    kind: u8,
    test: String,
}

fn run_suite_case(c: &SuiteCase) -> Outcome {
    let rt = tokio::runtime::Builder::new_current_thread().enable_all().build().unwrap();
    let r = vh_common::guard(|| rt.block_on(run_suite_test(c.kind, &c.test)));
    let sig = format!("suite:{}:{}", kind_name(c.kind), c.test);
    match r {
        Ok(Ok(())) => Outcome::pass().nontrivial(true).class(format!("suite:{}", kind_name(c.kind))),
        Ok(Err(e)) => Outcome::fail(sig, format!("storage error: {e}")),
        Err(p) => Outcome::fail(sig, format!("openraft::testing::Suite::{} asserts at {}:{}: {}", c.test, p.file, p.line, p.message)),
    }
}

/// The list above must be the list the library's `test_store` runs (drift guard for library updates).
fn suite_list_matches_library() -> Result<(), String> {
    let home = std::env::var("CARGO_HOME").unwrap_or_else(|_| format!("{}/.cargo", std::env::var("HOME").unwrap_or_default()));
    let reg = std::path::Path::new(&home).join("registry/src");
    let mut found = None;
    if let Ok(rd) = std::fs::read_dir(&reg) {
        for d in rd.flatten() {
            if let Ok(rd2) = std::fs::read_dir(d.path()) {
                for e in rd2.flatten() {
                    if e.file_name().to_string_lossy().starts_with("openraft-0.9") {
                        found = Some(e.path().join("src/testing/suite.rs"));
                    }
                }
            }
        }
    }
    let Some(p) = found else { return Err("openraft source not found in the cargo registry".into()) };
    let txt = std::fs::read_to_string(&p).map_err(|e| format!("{}: {e}", p.display()))?;
    let mut lib: Vec<String> = vec![];
    for line in txt.lines() {
        let l = line.trim();
        if let Some(rest) = l.strip_prefix("run_fut(run_test(builder, Self::") {
            lib.push(rest.trim_end_matches("))?;").to_string());
        } else if l.starts_with("run_fut(Self::transfer_snapshot(builder))") {
            lib.push("transfer_snapshot".into());
        }
    }
    let mine: Vec<String> = SUITE_TESTS.iter().map(|s| s.to_string()).collect();
    if lib != mine {
        return Err(format!("suite list differs from {}: library {:?}", p.display(), lib));
    }
    Ok(())
}

fn main() {
    let check = Check::new("C35", "exploration");
    check.rule(
        "log_*: command logs of 1..60 entries (all 16 ClusterCommand kinds over id pools of 3, blank and membership entries, term bumps) applied to real stores in two random batchings, \
         compared with the command-by-command fold; snapshot built at a random index on one store, installed into a store that had applied a shorter prefix, rest of the log applied; \
         non-trivial = the log updates/removes an existing key, the snapshot is strictly inside and the two batchings differ. \
         storage_*: 1..30 random append / delete-conflict / purge (inside, everything, beyond) / save-vote / range-read operations against a map model (log, last purged, vote), every observable compared after every step, \
         also through log readers obtained earlier; non-trivial = history with a purge. suite: every test of openraft::testing::Suite::test_store run separately per store.",
    );
    check.assume("openraft 0.9.21's testing::Suite and the documentation of RaftStorage::get_log_state are the statement of the storage contract");
    check.assume("operation domain as openraft drives a store: appends are contiguous after the last (or last purged) index, only present entries are truncated, purge positions never move backwards");

    check.explore("log_mem", || log_case(false), 3000, 50_000, run_log_case);
    check.explore("log_rocks", || log_case(true), 150, 2_500, run_log_case);
    check.explore("storage_mem", || store_case(0), 3000, 50_000, run_store_case);
    check.explore("storage_rocks", || store_case(1), 300, 5_000, run_store_case);

    match suite_list_matches_library() {
        Ok(()) => {
            let cases: Vec<SuiteCase> = [0u8, 1].iter().flat_map(|k| SUITE_TESTS.iter().map(move |t| SuiteCase { kind: *k, test: t.to_string() })).collect();
            check.enumerate("suite", cases, run_suite_case);
        }
        Err(e) => check.inconclusive(format!("cannot confirm the conformance-suite test list: {e}")),
    }
    check.finish();
}
