//! Shared by C35 and C36: compact, serialisable command / log-entry model and the
//! conversion into the real `ClusterCommand` / `Entry<TypeConfig>` values.
#![allow(dead_code)]
use proptest::prelude::*;
use serde::{Deserialize, Serialize};
use serde_json::json;
use std::collections::{BTreeMap, BTreeSet};
use vh_server::varpulis_cluster as vc;

use openraft::{CommittedLeaderId, Entry, EntryPayload, LogId, Membership};
use vc::raft::{ClusterCommand, RaftNode, TypeConfig};

pub type Ent = Entry<TypeConfig>;

/// Compact command: ids/names come from pools of 3-4 values so that updates and removals
/// hit existing entries; `v` selects one of a few payload variants.
#[derive(Clone, Debug, Serialize, Deserialize, PartialEq, Eq)]
pub enum Cmd {
    RegW { id: u8, v: u8 },
    DeregW { id: u8 },
    Status { id: u8, st: u8 },
    Pipes { id: u8, p: Vec<u8> },
    GDep { n: u8, v: u8 },
    GUpd { n: u8, v: u8 },
    GRem { n: u8 },
    MigStart { id: Option<u8>, v: u8 },
    MigUpd { id: u8, st: u8 },
    MigRem { id: u8 },
    ConnC { n: u8, v: u8 },
    ConnU { n: u8, v: u8 },
    ConnR { n: u8 },
    Policy { v: Option<u8> },
    ModelReg { n: u8, v: u8 },
    ModelRem { n: u8 },
}

const STATUSES: [&str; 4] = ["ready", "unhealthy", "draining", "busy"];
const MIG_STATUSES: [&str; 4] = ["pending", "deploying", "completed", "failed"];

fn group_json(n: u8, v: u8) -> serde_json::Value {
    match v % 4 {
        0 => json!({"name": format!("g{n}"), "status": "running", "placements": {"p0": {"worker_id": "w0", "status": "running"}}}),
        1 => json!({"name": format!("g{n}"), "status": "partial", "placements": {}, "extra": [1, 2, {"k": null}]}),
        2 => json!({"name": format!("g{n}"), "status": "failed", "replicas": v as u64 + 1, "note": "é\"\\ \u{1F600}"}),
        _ => json!({"status": "running", "only_in_v3": true, "big": 18446744073709551615u64, "neg": -9007199254740993i64}),
    }
}

fn connector(n: u8, v: u8) -> vc::ClusterConnector {
    let mut params = std::collections::HashMap::new();
    for i in 0..(v % 3) {
        params.insert(format!("k{i}"), format!("val{}-{}", v, i));
    }
    vc::ClusterConnector {
        name: format!("c{n}"),
        connector_type: ["mqtt", "kafka", "http"][(v % 3) as usize].to_string(),
        params,
        description: if v % 2 == 0 { None } else { Some(format!("desc {v}")) },
    }
}

fn model(n: u8, v: u8) -> vc::model_registry::ModelRegistryEntry {
    vc::model_registry::ModelRegistryEntry {
        name: format!("m{n}"),
        s3_key: format!("models/m{n}/{v}.onnx"),
        format: "onnx".into(),
        inputs: (0..(v % 3)).map(|i| format!("in{i}")).collect(),
        outputs: vec!["out".into()],
        size_bytes: 1000 + v as u64,
        uploaded_at: format!("2026-01-0{}T00:00:00Z", 1 + v % 9),
        description: if v % 2 == 0 { String::new() } else { format!("model v{v}") },
    }
}

impl Cmd {
    pub fn to_real(&self) -> ClusterCommand {
        match self.clone() {
            Cmd::RegW { id, v } => ClusterCommand::RegisterWorker {
                id: format!("w{id}"),
                address: format!("http://127.0.0.1:{}", 9000 + v as u32),
                api_key: format!("key{v}"),
                capacity: vc::worker::WorkerCapacity { cpu_cores: 1 + (v % 8) as usize, pipelines_running: (v % 3) as usize, max_pipelines: 10 + v as usize },
            },
            Cmd::DeregW { id } => ClusterCommand::DeregisterWorker { id: format!("w{id}") },
            Cmd::Status { id, st } => ClusterCommand::WorkerStatusChanged { id: format!("w{id}"), status: STATUSES[(st % 4) as usize].to_string() },
            Cmd::Pipes { id, p } => ClusterCommand::WorkerPipelinesUpdated { id: format!("w{id}"), assigned_pipelines: p.iter().map(|x| format!("p{x}")).collect() },
            Cmd::GDep { n, v } => ClusterCommand::GroupDeployed { name: format!("g{n}"), group: group_json(n, v) },
            Cmd::GUpd { n, v } => ClusterCommand::GroupUpdated { name: format!("g{n}"), group: group_json(n, v) },
            Cmd::GRem { n } => ClusterCommand::GroupRemoved { name: format!("g{n}") },
            Cmd::MigStart { id, v } => {
                let mut task = json!({"pipeline": format!("p{v}"), "status": "pending", "source_worker": "w0", "target_worker": "w1", "v": v});
                if let Some(i) = id {
                    task["id"] = json!(format!("mig{i}"));
                }
                ClusterCommand::MigrationStarted { task }
            }
            Cmd::MigUpd { id, st } => ClusterCommand::MigrationUpdated { id: format!("mig{id}"), status: MIG_STATUSES[(st % 4) as usize].to_string() },
            Cmd::MigRem { id } => ClusterCommand::MigrationRemoved { id: format!("mig{id}") },
            Cmd::ConnC { n, v } => ClusterCommand::ConnectorCreated { name: format!("c{n}"), connector: connector(n, v) },
            Cmd::ConnU { n, v } => ClusterCommand::ConnectorUpdated { name: format!("c{n}"), connector: connector(n, v) },
            Cmd::ConnR { n } => ClusterCommand::ConnectorRemoved { name: format!("c{n}") },
            Cmd::Policy { v } => ClusterCommand::ScalingPolicySet { policy: v.map(|x| json!({"min_workers": x % 3, "max_workers": 3 + x as u64, "scale_up_threshold": 0.5 + (x as f64) / 16.0})) },
            Cmd::ModelReg { n, v } => ClusterCommand::ModelRegistered { name: format!("m{n}"), entry: model(n, v) },
            Cmd::ModelRem { n } => ClusterCommand::ModelRemoved { name: format!("m{n}") },
        }
    }
    pub fn kind(&self) -> &'static str {
        match self {
            Cmd::RegW { .. } => "RegisterWorker",
            Cmd::DeregW { .. } => "DeregisterWorker",
            Cmd::Status { .. } => "WorkerStatusChanged",
            Cmd::Pipes { .. } => "WorkerPipelinesUpdated",
            Cmd::GDep { .. } => "GroupDeployed",
            Cmd::GUpd { .. } => "GroupUpdated",
            Cmd::GRem { .. } => "GroupRemoved",
            Cmd::MigStart { .. } => "MigrationStarted",
            Cmd::MigUpd { .. } => "MigrationUpdated",
            Cmd::MigRem { .. } => "MigrationRemoved",
            Cmd::ConnC { .. } => "ConnectorCreated",
            Cmd::ConnU { .. } => "ConnectorUpdated",
            Cmd::ConnR { .. } => "ConnectorRemoved",
            Cmd::Policy { .. } => "ScalingPolicySet",
            Cmd::ModelReg { .. } => "ModelRegistered",
            Cmd::ModelRem { .. } => "ModelRemoved",
        }
    }
}

pub const ALL_KINDS: usize = 16;

pub fn cmd() -> impl Strategy<Value = Cmd> {
    let id = 0u8..3;
    let v = 0u8..12;
    prop_oneof![
        3 => (id.clone(), v.clone()).prop_map(|(id, v)| Cmd::RegW { id, v }),
        1 => id.clone().prop_map(|id| Cmd::DeregW { id }),
        2 => (id.clone(), 0u8..4).prop_map(|(id, st)| Cmd::Status { id, st }),
        3 => (id.clone(), proptest::collection::vec(0u8..5, 0..7)).prop_map(|(id, p)| Cmd::Pipes { id, p }),
        2 => (id.clone(), v.clone()).prop_map(|(n, v)| Cmd::GDep { n, v }),
        2 => (id.clone(), v.clone()).prop_map(|(n, v)| Cmd::GUpd { n, v }),
        1 => id.clone().prop_map(|n| Cmd::GRem { n }),
        2 => (proptest::option::weighted(0.9, id.clone()), v.clone()).prop_map(|(id, v)| Cmd::MigStart { id, v }),
        2 => (id.clone(), 0u8..4).prop_map(|(id, st)| Cmd::MigUpd { id, st }),
        1 => id.clone().prop_map(|id| Cmd::MigRem { id }),
        2 => (id.clone(), v.clone()).prop_map(|(n, v)| Cmd::ConnC { n, v }),
        2 => (id.clone(), v.clone()).prop_map(|(n, v)| Cmd::ConnU { n, v }),
        1 => id.clone().prop_map(|n| Cmd::ConnR { n }),
        1 => proptest::option::weighted(0.7, v.clone()).prop_map(|v| Cmd::Policy { v }),
        2 => (id.clone(), v.clone()).prop_map(|(n, v)| Cmd::ModelReg { n, v }),
        1 => id.prop_map(|n| Cmd::ModelRem { n }),
    ]
}

/// Payload of one log entry.
#[derive(Clone, Debug, Serialize, Deserialize, PartialEq, Eq)]
pub enum Pay {
    Blank,
    Normal(Cmd),
    Member(Vec<u8>),
}

pub fn pay() -> impl Strategy<Value = Pay> {
    prop_oneof![
        1 => Just(Pay::Blank),
        14 => cmd().prop_map(Pay::Normal),
        1 => proptest::collection::vec(1u8..5, 1..4).prop_map(Pay::Member),
    ]
}

pub fn log_id(term: u64, index: u64) -> LogId<u64> {
    LogId::new(CommittedLeaderId::new(term, 1), index)
}

pub fn entry(term: u64, index: u64, p: &Pay) -> Ent {
    Entry {
        log_id: log_id(term, index),
        payload: match p {
            Pay::Blank => EntryPayload::Blank,
            Pay::Normal(c) => EntryPayload::Normal(c.to_real()),
            Pay::Member(ids) => {
                let nodes: BTreeMap<u64, RaftNode> = ids.iter().map(|i| (*i as u64, RaftNode { addr: format!("http://127.0.0.1:{}", 9100 + *i as u32) })).collect();
                let voters: BTreeSet<u64> = nodes.keys().cloned().collect();
                EntryPayload::Membership(Membership::new(vec![voters], nodes))
            }
        },
    }
}

/// Which keys exist after a command sequence (harness-side bookkeeping used only for the
/// non-triviality classes, never for a verdict).
#[derive(Default)]
pub struct Keys {
    pub w: BTreeSet<u8>,
    pub g: BTreeSet<u8>,
    pub m: BTreeSet<u8>,
    pub c: BTreeSet<u8>,
    pub md: BTreeSet<u8>,
    pub policy: bool,
}

impl Keys {
    /// Returns true when the command updates/removes/overwrites an existing entry.
    pub fn step(&mut self, c: &Cmd) -> bool {
        match c {
            Cmd::RegW { id, .. } => !self.w.insert(*id),
            Cmd::DeregW { id } => self.w.remove(id),
            Cmd::Status { id, .. } | Cmd::Pipes { id, .. } => self.w.contains(id),
            Cmd::GDep { n, .. } | Cmd::GUpd { n, .. } => !self.g.insert(*n),
            Cmd::GRem { n } => self.g.remove(n),
            Cmd::MigStart { id: Some(i), .. } => !self.m.insert(*i),
            Cmd::MigStart { id: None, .. } => false,
            Cmd::MigUpd { id, .. } => self.m.contains(id),
            Cmd::MigRem { id } => self.m.remove(id),
            Cmd::ConnC { n, .. } | Cmd::ConnU { n, .. } => !self.c.insert(*n),
            Cmd::ConnR { n } => self.c.remove(n),
            Cmd::Policy { v } => {
                let had = self.policy;
                self.policy = v.is_some();
                had
            }
            Cmd::ModelReg { n, .. } => !self.md.insert(*n),
            Cmd::ModelRem { n } => self.md.remove(n),
        }
    }
}

/// State as an order-independent JSON value.
pub fn state_json(s: &vc::raft::state_machine::CoordinatorState) -> serde_json::Value {
    serde_json::to_value(s).expect("CoordinatorState serialises")
}

thread_local! {
    static RT: tokio::runtime::Runtime = tokio::runtime::Builder::new_current_thread().enable_all().build().unwrap();
}

/// Run a future of the (never really suspending) storage API on a per-thread runtime.
pub fn block_on<F: std::future::Future>(f: F) -> F::Output {
    RT.with(|rt| rt.block_on(f))
}
